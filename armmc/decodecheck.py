"""Decode checks C06 / C07: joint lazy-word exploration of (implementation decode + from_bitarray, reference encoding
table).  A leaf of the JOINT function is a cube of words on which both sides take a constant path, so comparing the
two verdicts at the leaf decides class selection for every word of the cube; the leaves tile the space (checked).
Operands: exact attributes are compared directly, bit-routing attributes by provenance vector, everything else by
concrete re-evaluation of both sides over all assignments of the bits either side depends on."""
import itertools

from . import machine, sweep, lazyword
from .lazyword import L, Op, NeedBits
from .ref import model
from .ref.enc import A32, T16, T32

UNDEF, NOTIMPL, UNPRED = "UNDEFINED", "NOTIMPL", "UNPREDICTABLE"


class RefError(BaseException):
    """An exception inside the reference table code: an engine error, never a property violation."""


_MISSING = object()


def attr(obj, name):
    """Operand attribute of a decoded object (constructor keyword 'round_' is stored as 'round', ...)."""
    v = getattr(obj, name, _MISSING)
    if v is _MISSING and name.endswith("_"):
        v = getattr(obj, name[:-1], _MISSING)
    return v


def same(a, b):
    """Equality of operand values; 32-bit immediates may be held as negative Python ints (-256 for 0xFFFFFF00)."""
    if a == b:
        return True
    if isinstance(a, int) and isinstance(b, int) and (a < 0 or b < 0):
        return (a - b) % (1 << 32) == 0
    return False


def signature(cls, a, iv, rv):
    """Narrows the key of a recorded finding to its exact manner (see known_findings.jsonl)."""
    if cls == "CbzT1" and a == "imm32" and isinstance(iv, int) and isinstance(rv, int) and iv == 2 * rv:
        return " (i:imm5 scaled by 4 instead of 2)"
    return ""


def norm(v):
    """Normalises an operand value for comparison (enum -> name, bool -> int)."""
    if isinstance(v, bool):
        return int(v)
    if hasattr(v, "name") and hasattr(v, "value") and not isinstance(v, (int, L, Op)):
        return v.name
    return v


class Decoder:
    def __init__(self, iset, cfg, it, carry):
        self.iset = iset
        self.env = sweep.Env("mpu-off", cfg)
        self.cpu = self.env.cpu
        full = dict(machine.base_config())
        full.update(cfg or {})
        self.ver = full["arch_version"]
        self.it = it
        self.carry = carry
        self.thumb = iset != A32
        self.olen = 16 if iset == T16 else 32
        self.ctx = {"ver": self.ver, "in_it": bool(it & 0xF), "last_it": (it & 0xF) == 8, "C": carry}
        regs = self.cpu.registers
        self.env.plan.restore(self.env.base("svc", "ram"))
        regs.cpsr.t = 1 if self.thumb else 0
        regs.cpsr.it = it if self.thumb else 0
        regs.cpsr.c = carry
        self.rows = model.table().rows[iset]

    def candidates(self, mask, val):
        """Rows whose fixed bits are compatible with the cube (mask, val)."""
        return [r for r in self.rows if (r.value ^ val) & r.mask & mask == 0]

    # ---- implementation side
    def impl(self, w):
        from armulator.armv6.arm_exceptions import UndefinedInstructionException
        cpu = self.cpu
        cpu.opcode = w
        cpu.opcode_len = self.olen
        try:
            c = cpu.decode_instruction(w)
            if not c:
                return UNDEF, None
            o = c.from_bitarray(w, cpu)
        except UndefinedInstructionException:
            return UNDEF, None
        except NotImplementedError:
            return NOTIMPL, None
        if o is None:
            return UNPRED, c.__name__
        return c.__name__, o

    # ---- reference side
    def ref(self, w, rows):
        uncond = None
        for r in rows:
            if lazyword.match(w, r.mask, r.value):
                if r.cond:
                    if uncond is None:
                        uncond = lazyword.match(w, 0xF0000000, 0xF0000000)
                    if uncond:
                        continue          # cond = 1111 is the unconditional-instruction space
                f = r.extract(w)
                if r.guard is None or r.guard(f):
                    return r, f
        return None, None

    def ref_verdict(self, w, rows):
        r, f = self.ref(w, rows)
        if r is None:
            return UNDEF, None, None, None
        if r.notimpl:
            return NOTIMPL, r, f, None
        if r.operands is None:
            return UNDEF, r, f, None
        if r.undefined is not None and r.undefined(f, self.ctx):
            return UNDEF, r, f, None
        ok = lazyword.match(w, r.sbz, 0) and lazyword.match(w, r.sbo, r.sbo)
        if not ok or (r.unpredictable is not None and r.unpredictable(f, self.ctx)):
            return UNPRED, r, f, None
        return r.cls, r, f, r.operands(f, self.ctx)


def compare_leaf(dec, mask, val, rows, res, label, results):
    """Called on a joint leaf with the (implementation, table) results of the run that completed on the leaf's lazy word."""
    width = dec.olen
    (ic, io), (rc, row, f, rops) = results
    free = width - bin(mask).count("1")
    res.outcome("%s" % (rc if rc in (UNDEF, NOTIMPL, UNPRED) else "defined"))
    rp = {"iset": dec.iset, "mask": mask, "val": val, "it": dec.it, "carry": dec.carry, "ver": dec.ver,
          "example_word": val}

    def fail(key, detail):
        res.fail(key, "%s cube mask=%#010x val=%#010x (%d free bits) it=%#x C=%d v%d: %s" % (
            label, mask, val, free, dec.it, dec.carry, dec.ver, detail), rp)

    rname = row.cls if row is not None else None
    if rc == UNDEF:
        if ic not in (UNDEF, NOTIMPL, UNPRED):
            fail("%s word without an allocated encoding decoded as %s" % (dec.iset, ic), "table: unallocated/UNDEFINED")
        return
    if rc == NOTIMPL:
        if ic not in (UNDEF, NOTIMPL, UNPRED):
            fail("%s unimplemented-extension word (%s) decoded as %s" % (dec.iset, rname, ic), "")
        return
    if rc == UNPRED:
        # anything but the class of a DIFFERENT defined instruction
        if ic not in (UNDEF, NOTIMPL, UNPRED, rname) and ic not in row.alt:
            fail("%s UNPREDICTABLE %s decoded as different instruction %s" % (dec.iset, rname, ic), "")
        return
    # defined and predictable
    if ic in (UNDEF, NOTIMPL):
        fail("%s rejected as %s" % (rname, ic), "the encoding table assigns %s (pattern %s)" % (rname, row.pat))
        return
    if ic == UNPRED:
        fail("%s predictable instance rejected as unpredictable" % rname, "fields %r" % ({k: v for k, v in f.items() if isinstance(v, int)},))
        return
    if ic != rname:
        fail("%s decoded as %s" % (rname, ic), "pattern %s" % row.pat)
        return
    # operands
    lazy_deps = set()
    for a, rv in rops.items():
        if a in row.nocompare:
            continue
        if attr(io, a) is _MISSING:
            fail("%s operand %s missing" % (rname, a), "")
            continue
        iv = norm(attr(io, a))
        rv = norm(rv)
        il, rl = isinstance(iv, (L, Op)), isinstance(rv, (L, Op))
        if not il and not rl:
            if not same(iv, rv):
                fail("%s operand %s%s" % (rname, a, signature(rname, a, iv, rv)), "decoded %r, table says %r" % (iv, rv))
            continue
        if isinstance(iv, L) and isinstance(rv, L):
            if iv.prov != rv.prov:
                fail("%s operand %s" % (rname, a), "bit routing differs: decoded from bits %r, table %r" % (iv.prov, rv.prov))
            continue
        lazy_deps |= set(lazyword._deps(iv)) | set(lazyword._deps(rv))
    lazy_deps = sorted(b for b in lazy_deps if not (mask >> b) & 1)
    if lazy_deps:
        k = len(lazy_deps)
        assigns = range(1 << k) if k <= 11 else lazyword.patterns(k)
        if k > 11:
            res.count("operand_enumerations_capped")
        for a_ in assigns:
            cw = val
            for j, b in enumerate(lazy_deps):
                if (a_ >> j) & 1:
                    cw |= 1 << b
            res.count("concrete_operand_evaluations")
            ic2, io2 = dec.impl(cw)
            rc2, row2, f2, rops2 = dec.ref_verdict(cw, rows)
            if rc2 != rname or ic2 != rname:
                continue
            for a, rv in rops2.items():
                if attr(io2, a) is _MISSING or a in row.nocompare:
                    continue
                iv = norm(attr(io2, a))
                if not same(iv, norm(rv)):
                    fail("%s operand %s%s" % (rname, a, signature(rname, a, iv, norm(rv))),
                         "word %#x: decoded %r, table says %r" % (cw, iv, norm(rv)))
                    return


def explore_cube(dec, cube, res, label, cap=None):
    """Joint exploration of one cube.  Returns the lazyword.Tiling."""
    rows = dec.candidates(cube[0], cube[1])
    leaves = []

    last = [None]

    def f(w):
        a = dec.impl(w)
        try:
            b = dec.ref_verdict(w, rows)
        except NeedBits:
            raise
        except Exception as e:  # noqa
            raise RefError("reference table raised %s: %s" % (type(e).__name__, e)) from e
        # operand attribute values that are lazy do not force bits here; verdict strings do
        last[0] = (a, b)
        return a[0], b[0]

    def on_leaf(mask, val, r, exc):
        res.cases += 1
        res.transitions += 1
        res.add_state(hash((dec.iset, mask, val, dec.it, dec.carry, dec.ver)))
        if exc is not None:
            # a host-level exception inside decode: C18's finding; here the cube is just not comparable
            res.outcome("decode-raises-" + type(exc).__name__)
            return
        compare_leaf(dec, mask, val, rows, res, label, last[0])

    return lazyword.explore(f, dec.olen, cube[0], cube[1], on_leaf, wide_cap=cap)
