"""Building processor instances, full architectural snapshots, restore, stepping (DESIGN 2.3).

Only public objects of the code under test are used: ArmV6(config_file), .registers (Registers), .mem (hub),
emulate_cycle(), configurations.load()."""
import atexit
import json
import os
import shutil
import tempfile
import traceback

from . import REPO

_TMP = None
_CFG_CACHE = {}
_BASE = None

MODES = {"usr": 0b10000, "fiq": 0b10001, "irq": 0b10010, "svc": 0b10011, "mon": 0b10110, "abt": 0b10111,
         "hyp": 0b11010, "und": 0b11011, "sys": 0b11111}
MODE_NAMES = {v: k for k, v in MODES.items()}

# three RAMs so that both ends of the address space are observable
MEM_STD = [
    {"mem_type": "RAM", "beginning": 0x0, "end": 0x1000},
    {"mem_type": "RAM", "beginning": 0x10000, "end": 0x12000},
    {"mem_type": "RAM", "beginning": 0xFFFFF000, "end": 0x100000000},
]


def _tmpdir():
    global _TMP
    if _TMP is None or not os.path.isdir(_TMP) or _TMP_PID != os.getpid():
        _mk()
    return _TMP


_TMP_PID = None


def _mk():
    global _TMP, _TMP_PID
    _TMP = tempfile.mkdtemp(prefix="armmc-")
    _TMP_PID = os.getpid()
    atexit.register(shutil.rmtree, _TMP, True)


def base_config():
    global _BASE
    if _BASE is None:
        with open(os.path.join(REPO, "armulator", "armv6", "arm_configurations.json")) as f:
            _BASE = json.load(f)
    return _BASE


def config_path(**ov):
    """Writes (once per process) a configuration file = repository default + overrides."""
    key = json.dumps(ov, sort_keys=True)
    hit = _CFG_CACHE.get(key)
    if hit and hit[1] == os.getpid() and os.path.exists(hit[0]):
        return hit[0]
    cfg = json.loads(json.dumps(base_config()))
    for k, v in ov.items():
        if k == "reset_values":
            cfg["reset_values"].update(v)
        else:
            cfg[k] = v
    path = os.path.join(_tmpdir(), "cfg%d.json" % len(_CFG_CACHE))
    with open(path, "w") as f:
        json.dump(cfg, f)
    _CFG_CACHE[key] = (path, os.getpid())
    return path


def activate(cpu):
    """Selects cpu's configuration in the code under test (the configuration object is module-level there)."""
    from armulator.armv6.configurations import configurations
    configurations.load(cpu._armmc_cfg)


def fill_pattern(begin, size):
    return bytearray(((a * 7 + 3 + (a >> 8) * 13) & 0xFF) for a in range(begin, begin + size))


_PATTERN_CACHE = {}


def new_cpu(cfg_path=None, cls=None, pattern=True, **ov):
    from armulator.armv6.arm_v6 import ArmV6
    if cfg_path is None:
        ov.setdefault("memory_list", MEM_STD)
        cfg_path = config_path(**ov)
    cpu = (cls or ArmV6)(cfg_path)
    cpu._armmc_cfg = cfg_path
    if pattern:
        for mc in cpu.mem.memories:
            k = (mc.beginning, mc.end)
            if k not in _PATTERN_CACHE:
                _PATTERN_CACHE[k] = fill_pattern(mc.beginning, mc.end - mc.beginning)
            mc.mem.memory_array[:] = _PATTERN_CACHE[k]
    return cpu


# ------------------------------------------------------------------------------------------------ snapshots
class Plan:
    """Accessor plan for one processor instance: a fixed, introspected list of every state location.

    Locations are grouped by kind so that snapshot/restore are a handful of bulk operations:
    the _R dict, plain int/bool attributes of Registers, register objects (.value), lists."""

    def __init__(self, cpu):
        from armulator.armv6.all_registers.abstract_register import AbstractRegister
        regs = cpu.registers
        self.cpu = cpu
        self.R = regs._R
        self.rkeys = sorted(self.R, key=lambda r: r.value)
        self.names = ["R." + rn.name for rn in self.rkeys]
        self.plain = []          # attribute names of regs holding int/bool/None
        self.objs = []           # register objects
        self.lists = []          # (list, is_register_list)
        self.opaque = []         # unknown kinds, kept visible via repr
        obj_names = []
        list_names = []
        for name in sorted(vars(regs)):
            if name in ("_R", "changed_registers", "itstate_restored"):     # per-step scratch, reset before use
                continue
            if name.startswith("_"):
                continue          # private implementation detail (e.g. a look-up cache): not architectural state
            v = getattr(regs, name)
            if isinstance(v, AbstractRegister):
                self.objs.append(name)
                obj_names.append(name)
            elif isinstance(v, list):
                isreg = bool(v) and isinstance(v[0], AbstractRegister)
                self.lists.append((name, isreg))
                list_names += ["%s[%d]" % (name, i) for i in range(len(v))]
            elif isinstance(v, (int, bool)) or v is None:
                self.plain.append(name)
            else:
                # a container of some other kind: not architectural state we know how to compare.  Behavioural effects
                # of hidden state still show up in the architectural state that is compared.
                self.skipped = getattr(self, "skipped", []) + [name]
        self.cpu_attrs = [n for n in ("is_wait_for_event", "is_wait_for_interrupt", "run") if hasattr(cpu, n)]
        self.names += list(self.plain) + obj_names + list_names + ["cpu." + n for n in self.cpu_attrs] + \
            [n + "(repr)" for n in self.opaque]
        self.regs_dict = vars(regs)
        self.index = {n: i for i, n in enumerate(self.names)}
        self.nreg = len(self.names)
        self._o_plain = len(self.rkeys)
        self._o_objs = self._o_plain + len(self.plain)
        self._o_lists = self._o_objs + len(self.objs)

    def regs(self):
        R = self.R
        d = self.regs_dict
        out = [R[k] for k in self.rkeys]
        out += [d[n] for n in self.plain]
        out += [d[n].value for n in self.objs]
        for lname, isreg in self.lists:
            lst = d[lname]
            if isreg:
                out += [o.value for o in lst]
            else:
                out += lst
        cpu = self.cpu
        out += [getattr(cpu, n) for n in self.cpu_attrs]
        out += [repr(d[n]) for n in self.opaque]
        return tuple(out)

    def mem(self):
        return tuple([(mc.beginning, mc.end, bytes(mc.mem.memory_array)) for mc in self.cpu.mem.memories])

    def snapshot(self):
        return self.regs(), self.mem()

    def restore(self, snap):
        regs, mem = snap
        self.restore_regs(regs)
        mems = self.cpu.mem.memories
        if len(mems) != len(mem):
            raise RuntimeError("device list changed")
        for mc, (b, e, data) in zip(mems, mem):
            mc.beginning = b
            mc.end = e
            mc.mem.memory_array[:] = data

    def restore_regs(self, regs, scratch=True):
        R = self.R
        i = 0
        for k in self.rkeys:
            R[k] = regs[i]
            i += 1
        d = self.regs_dict
        for n in self.plain:
            d[n] = regs[i]
            i += 1
        for n in self.objs:
            d[n].value = regs[i]
            i += 1
        for lname, isreg in self.lists:
            lst = d[lname]
            if isreg:
                for o in lst:
                    o.value = regs[i]
                    i += 1
            else:
                n = len(lst)
                lst[:] = regs[i:i + n]
                i += n
        cpu = self.cpu
        for n in self.cpu_attrs:
            setattr(cpu, n, regs[i])
            i += 1
        if scratch:
            self.reset_scratch()

    def set_loc(self, name, value):
        """Assigns one location by name (slow path, for tests)."""
        regs = list(self.regs())
        regs[self.index[name]] = value
        self.restore_regs(tuple(regs))

    def reset_scratch(self):
        cpu = self.cpu
        cpu.opcode = 0
        cpu.opcode_len = 0
        cpu.executed_opcode = None
        cpu.registers.changed_registers = [False] * 16
        if hasattr(cpu.registers, "itstate_restored"):
            cpu.registers.itstate_restored = False

    def diff(self, a, b, limit=40):
        """[(location, before, after)] between two snapshots."""
        out = []
        ra, ma = a
        rb, mb = b
        if ra != rb:
            for n, x, y in zip(self.names, ra, rb):
                if x != y:
                    out.append((n, x, y))
        if ma == mb:
            return out
        if len(ma) != len(mb):
            out.append(("devices", len(ma), len(mb)))
        for (b1, e1, d1), (b2, e2, d2) in zip(ma, mb):
            if (b1, e1) != (b2, e2):
                out.append(("device-range", (b1, e1), (b2, e2)))
            if len(d1) != len(d2):
                out.append(("device-size@%#x" % b1, len(d1), len(d2)))
            if d1 != d2:
                for i in range(min(len(d1), len(d2))):
                    if d1[i] != d2[i]:
                        out.append(("mem[%#x]" % (b1 + i), d1[i], d2[i]))
                        if len(out) >= limit:
                            return out
        return out


def fmt(v):
    return hex(v) if isinstance(v, int) and not isinstance(v, bool) else repr(v)


def fmt_diff(d, limit=12):
    return ", ".join("%s: %s -> %s" % (n, fmt(x), fmt(y)) for n, x, y in d[:limit]) + (" ..." if len(d) > limit else "")


# ------------------------------------------------------------------------------------------------ stepping
def site_of(e):
    tb = traceback.extract_tb(e.__traceback__)
    for fr in reversed(tb):
        if fr.filename.startswith(REPO + os.sep) or "/armulator/" in fr.filename:
            return "%s:%s" % (fr.filename.split("/armulator/")[-1], fr.name)
    fr = tb[-1] if tb else None
    return "%s:%s" % (os.path.basename(fr.filename), fr.name) if fr else "?"


def step(cpu):
    """One emulate_cycle().  ('ok',) | ('notimpl', site) | ('host', type, site, text)."""
    try:
        cpu.emulate_cycle()
        return ("ok",)
    except NotImplementedError as e:
        return ("notimpl", site_of(e))
    except Exception as e:  # noqa - classification of escaping host-level errors is the point
        return ("host", type(e).__name__, site_of(e), str(e)[:200])


def call(fn, *a):
    try:
        return ("ok", fn(*a))
    except NotImplementedError as e:
        return ("notimpl", site_of(e))
    except Exception as e:  # noqa
        return ("host", type(e).__name__, site_of(e), str(e)[:200])


def put(cpu, addr, data):
    """Writes bytes into whatever device maps addr (harness-side poke, bypasses translation)."""
    for mc in cpu.mem.memories:
        if mc.beginning <= addr < mc.end:
            off = addr - mc.beginning
            mc.mem.memory_array[off:off + len(data)] = data
            return True
    return False


def put_instr(cpu, addr, word, thumb, length=None):
    """Places an instruction word in memory, little-endian (Thumb-32: first halfword at the lower address)."""
    if not thumb:
        return put(cpu, addr, word.to_bytes(4, "little"))
    if length == 16 or (length is None and word < 0x10000):
        return put(cpu, addr, word.to_bytes(2, "little"))
    return put(cpu, addr, (word >> 16).to_bytes(2, "little") + (word & 0xFFFF).to_bytes(2, "little"))
