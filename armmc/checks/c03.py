"""C03 - block transfers and stack operations against the reference model (ref.rows_block), plus store;load round trips.

(a) model-based, per encoding row: W x base register {R0, R7, SP; base-in-list through the lists} x register lists
    (all 2^8 / 2^9 lists of the 16-bit forms; for the wide lists the quick tier takes every single register, every
    pair, all-ones / alternating / PC- / SP- / base-containing lists, the thorough tier ALL lists) x base address
    {mid RAM, 8 (decrementing modes wrap below 0 into the top RAM), 0xFFFFFFF8 (incrementing modes wrap into low
    RAM)} x mode {svc, fiq, irq, sys, usr} ; system forms additionally x P,U x restored PSR values x security state x
    SCTLR.NMFI.  Each instance is stepped on the real emulator and the WHOLE post-state compared with the model.
(b) differential, no model: PUSH;POP, STMDB;LDMIA, STMIA;LDMDB, STMIB;LDMDA, STMDA;LDMIB with the same list and
    write-back; the harness clobbers the listed registers between the two steps; afterwards every listed register and
    the base must hold their original values and nothing else may have changed.

Keys: "<class> <category>[ qualifier]".  A qualifier (wrap / unaligned / E=1 / v<N> / it) is only attached when the same
instance passes without it, so one defect gives one key."""
from ..runner import Result
from .. import machine, semcheck, isa
from ..ref import rows_block as rb
from ..ref.enc import A32, T16, T32, Table
from ..ref.state import phys, spsr_name

ID = "C03"
CODE = isa.CODE
MID, LOW, HIGH = 0x10400, 0x8, 0xFFFFFFF8
HIGH_IN = 0xFFFFFF00      # high but not wrapping: final addresses stay in [2^31, 2^32), which a wrong modulus (2^31) changes
ADDRS = [MID, LOW, HIGH, HIGH_IN]
M = machine.MODES
MODES5 = ["svc", "fiq", "irq", "sys", "usr"]
PRIV = ["svc", "fiq", "irq", "abt"]
TAGS = {n: 0x0BAD0000 + 0x111 * n for n in range(15)}
CLOB = {n: 0xC10B0000 + 0x1010 * n + 5 for n in range(15)}
TARGETS = [0x10A00, 0x10A01, 0x10A02, 0x10A03]        # values loaded into the PC (interworking / alignment variety)
ROWS = {r.cls: r for r in rb.ROWS}
KIND = {"LdmArmA1": "IA", "LdmThumbT1": "IA", "LdmThumbT2": "IA", "LdmdaA1": "DA", "LdmdbA1": "DB", "LdmdbT1": "DB",
        "LdmibA1": "IB", "StmA1": "IA", "StmT1": "IA", "StmT2": "IA", "StmdaA1": "DA", "StmdbA1": "DB", "StmdbT1": "DB",
        "StmibA1": "IB"}
ORDINARY = list(KIND)
STACK = ["PopArmA1", "PopThumbT1", "PopThumbT2", "PushA1", "PushT1", "PushT2"]
STACK1 = ["PopArmA2", "PopThumbT3", "PushA2", "PushT3"]
USERF = ["LdmUserRegistersA1", "StmUserRegistersA1"]
SRS = ["SrsArmA1", "SrsThumbT1", "SrsThumbT2"]
RFE = ["RfeA1", "RfeT1", "RfeT2"]
PAIRS = [  # (store class, load class)
    ("PushA1", "PopArmA1"), ("PushA2", "PopArmA2"), ("PushT1", "PopThumbT1"), ("PushT2", "PopThumbT2"),
    ("PushT3", "PopThumbT3"), ("StmdbA1", "LdmArmA1"), ("StmA1", "LdmdbA1"), ("StmibA1", "LdmdaA1"),
    ("StmdaA1", "LdmibA1"), ("StmdbT1", "LdmThumbT2"), ("StmT2", "LdmdbT1"), ("StmT1", "LdmdbT1"),
    ("StmdbT1", "LdmThumbT1"),
]
_TABLE = Table()
_TABLE.add(*rb.ROWS)


def bc(x):
    return bin(x).count("1")


# ------------------------------------------------------------------------------------------------- register lists
def quick_lists16():
    out = [1 << i for i in range(16)]
    out += [(1 << i) | (1 << j) for i in range(16) for j in range(i + 1, 16)]
    out += [0xFFFF, 0x7FFF, 0xFFFE, 0xDFFF, 0x5FFF, 0x5555, 0xAAAA, 0x00FF, 0xFF00, 0x0FF0, 0x1FFF, 0x9FFF, 0x0083,
            0x00F2, 0x2003, 0xA081, 0x6080, 0xE000, 0xE001, 0x4182, 0x3F80, 0x8003, 0x8181]
    seen, res = set(), []
    for x in out:
        if x not in seen:
            seen.add(x)
            res.append(x)
    return res


QL = quick_lists16()
QSET = set(QL)


def lists(tier, keep=0xFFFF, allow_empty=False):
    """Register masks representable under `keep`; quick: the structured set, thorough: all of them."""
    if tier == "quick":
        src = QL
    else:
        src = range(0, 0x10000)
    seen, out = set(), []
    for x in src:
        y = x & keep
        if tier != "quick" and y != x:
            continue
        if y in seen or (y == 0 and not allow_empty):
            continue
        seen.add(y)
        out.append(y)
    if allow_empty and 0 not in seen:
        out.append(0)
    return out


# ------------------------------------------------------------------------------------------------- plan
def plan(tier):
    K = 4 if tier == "quick" else 48
    small = STACK1 + SRS + RFE + ["LdmThumbT1", "StmT1", "PopThumbT1", "PushT1"]
    shards = [("row", "SrsThumbT1", 0, 1, tier)]
    for cls in ROWS:
        if cls == "SrsThumbT1":
            continue
        k = 1 if (cls in small and cls != "RfeA1") else K
        if tier != "quick" and cls in ("LdmThumbT1", "StmT1", "PopThumbT1", "PushT1", "RfeA1", "RfeT1", "RfeT2", "SrsArmA1"):
            k = 4
        shards += [("row", cls, i, k, tier) for i in range(k)]
    KP = 2 if tier == "quick" else 24
    for pi, (s, l) in enumerate(PAIRS):
        k = 1 if s in ("PushA2", "PushT3", "PushT1", "StmT1") or l == "LdmThumbT1" else KP
        shards += [("pair", pi, i, k, tier) for i in range(k)]
    return {
        "shards": shards,
        "rule": "per block-transfer encoding row (%d rows): W x base {R0,R7,SP} x register lists x base address "
                "{0x10400, 8, 0xFFFFFFF8} x mode; system forms x P,U x restored PSR x SCR.{NS,AW,FW} x SCTLR.NMFI; every "
                "instance stepped on the emulator and the whole post-state compared with the model; plus %d store;load "
                "pair kinds with clobbering in between (differential)" % (len(ROWS), len(PAIRS)),
        "bounds": {"rows": len(ROWS), "addresses": [hex(a) for a in ADDRS],
                   "wide_lists": len(QL) if tier == "quick" else 65535, "narrow_lists": "all 2^8 / 2^9",
                   "modes": MODES5, "privileged_modes_system_forms": PRIV,
                   "versions": "6; 4,5,7 in addition for lists containing the PC", "pairs": ["%s;%s" % p for p in PAIRS]},
        "exhaustive": True,
        "assumptions": ["cond = AL (conditions are C05)", "word-aligned base addresses, except the single-register "
                        "PUSH/POP forms (MemU) which also get halfword- and byte-aligned stack pointers",
                        "thorough: every list; the lists of the quick set get the full mode x address product, the "
                        "others one mode per list (rotating over the lists) and, for the system forms, the mid-RAM "
                        "address plus one of the two wrap-around addresses",
                        "restored PSR values have J = 0 and reserved bits 23:20 = 0",
                        "instances the model classes UNPREDICTABLE are not compared"],
        "deadline_s": 300 if tier == "quick" else 1700,
    }


# ------------------------------------------------------------------------------------------------- environment
_ENVS = {}


class Env:
    def __init__(self, ver):
        self.ver = ver
        self.sem = s = semcheck.SemEnv({"arch_version": ver})
        self.ix = s.index
        self.names = s.names
        base = s.base[0]
        self.sctlr0 = base[s.index["sctlr"]]
        # distinct word-aligned tags in every bank, distinct SPSRs
        self.bank = {}
        for k, n in enumerate(self.names):
            if n.startswith("R.") and n != "R.PC":
                self.bank[n] = 0x0B000040 | (k << 8)
        for k, n in enumerate(x for x in self.names if x.startswith("spsr_")):
            self.bank[n] = 0x600001D3 ^ (k << 16) ^ (k << 28)

    def named(self, mode, regvals, more=None):
        d = dict(self.bank)
        for n, v in regvals.items():
            d[phys(n, mode)] = v & 0xFFFFFFFF
        if more:
            d.update(more)
        return d


def env(ver=6):
    e = _ENVS.get(ver)
    if e is None:
        e = _ENVS[ver] = Env(ver)
    return e


def psr(m, t=0, aif=7, flags=0, ge=0, e=0, it=0):
    return (flags << 27) | ((it & 3) << 25) | (ge << 16) | ((it >> 2) << 10) | (e << 9) | (aif << 6) | (t << 5) | m


CPSR_FIELDS = [("NZCVQ", 0xF8000000), ("IT", 0x0600FC00), ("J", 1 << 24), ("GE", 0xF0000), ("E", 1 << 9), ("A", 1 << 8),
               ("I", 1 << 7), ("F", 1 << 6), ("T", 1 << 5), ("M", 0x1F), ("reserved", 0x00F00000)]


def category(diffs, base_loc, pc_loaded=False):
    """One word naming the manner of a disagreement, by priority.  A PC that was one of the transferred words and
    differs in more than its alignment / interworking bits counts as a wrongly transferred register."""
    if diffs[0][0] == "step-outcome":
        out = diffs[0][2]
        if isinstance(out, tuple) and out[0] == "host":
            return "host:%s@%s" % (out[1], out[2])
        return "outcome:%s" % (out[0] if isinstance(out, tuple) else out)
    d = {l: (m, i) for l, m, i in diffs}
    if "cpsr" in d:
        m, i = d["cpsr"]
        if (m ^ i) & 0x1F:
            if i & 0x1F == 0b11011 and "R.LRund" in d:
                return "takes-undef"
            if i & 0x1F == 0b10111 and "R.LRabt" in d:
                return "takes-dabort"
            if m & 0x1F == 0b10111 and "R.LRabt" in d:
                return "misses-dabort"
    cats = set()
    for l in d:
        if l == base_loc:
            cats.add("base")
        elif l == "R.PC":
            cats.add("reg" if pc_loaded and (d[l][0] ^ d[l][1]) & ~3 else "PC")
        elif l.startswith("R."):
            cats.add("reg")
        elif l.startswith("mem["):
            cats.add("mem")
        elif l == "cpsr":
            m, i = d[l]
            cats.add("cpsr." + "+".join(n for n, mask in CPSR_FIELDS if (m ^ i) & mask))
        else:
            cats.add(l)
    for c in ("reg", "mem", "base", "PC"):
        if c in cats:
            return c
    return sorted(cats)[0]


class Runner:
    """Executes cases of one row, classifies disagreements and remembers which baseline cases passed."""

    def __init__(self, res, row):
        self.res = res
        self.row = row
        self.counter = 0
        self.mid_ok = {}          # context -> did the mid-RAM baseline of the current instance agree

    def case(self, f, mode, regvals, base_reg=None, base_mode=None, ver=6, it=0, cpsr_or=0, more=None, mempatch=None,
             qual="", note="", pc_loaded=False):
        """Returns True when model and implementation agree (or the model has no opinion)."""
        res, row = self.res, self.row
        e = env(ver)
        word = row.make(**f)
        modeval = M[mode]
        named = e.named(modeval, regvals, more)
        res.cases += 1
        self.counter += 1
        res.add_state(hash((row.cls, word, mode, tuple(sorted(regvals.items())), ver, it, cpsr_or,
                            tuple(sorted(more.items())) if more else None, tuple(mempatch) if mempatch else None)))
        diffs, out, info = e.sem.run(word, row, f, modeval, {}, it=it, extra=named, mempatch=mempatch, cpsr_or=cpsr_or,
                                     nzcvq=0b01010 if self.counter & 1 else 0b10100)
        if diffs is None:
            res.outcome("model-unpredictable-skipped")
            return True
        res.transitions += 1
        res.outcome(info)
        if not diffs:
            return True
        base_loc = phys(base_reg, base_mode if base_mode is not None else modeval) if base_reg is not None else None
        cat = category(diffs, base_loc, pc_loaded)
        key = "%s %s%s" % (row.cls, cat, (" " + qual) if qual else "")
        detail = "%s %#x fields=%r mode=%s regs={%s} v%d it=%#x cpsr|=%#x %s%s| model->impl: %s" % (
            row.cls, word, f, mode, ", ".join("r%d=%#x" % kv for kv in sorted(regvals.items())), ver, it, cpsr_or,
            ("extra=%r " % {k: hex(v) for k, v in more.items()}) if more else "",
            ("mem=%r " % [(hex(a), d.hex()) for a, d in mempatch]) if mempatch else "", machine.fmt_diff(diffs))
        res.fail(key, (note + " " if note else "") + detail,
                 {"type": "row", "cls": row.cls, "fields": f, "mode": mode, "regvals": regvals, "ver": ver, "it": it,
                  "cpsr_or": cpsr_or, "more": more or {}, "mempatch": [[a, d.hex()] for a, d in (mempatch or [])]})
        return False


def belongs(row, f):
    hit = _TABLE.lookup(row.iset, row.make(**f))
    return hit is not None and hit[0] is row


def wraps(kind, base, nbytes):
    lo = {"IA": base, "IB": base + 4, "DA": base - nbytes + 4, "DB": base - nbytes}[kind]
    fin = base + nbytes if kind in ("IA", "IB") else base - nbytes
    return lo < 0 or lo + nbytes > 2 ** 32 or not (0 <= fin < 2 ** 32)


def word_le(v):
    return (v & 0xFFFFFFFF).to_bytes(4, "little")


def modes_for(tier, full, li, ai, modes):
    """All modes for the lists that get the full product; otherwise one mode per list (the same for all addresses of
    the list, so that its mid-RAM case is the baseline of its wrap-around cases)."""
    if tier == "quick" or full:
        return modes
    return [modes[li % len(modes)]]


# ------------------------------------------------------------------------------------------------- (a) ordinary LDM/STM
def fields_ordinary(row, lm, n, W):
    cls = row.cls
    if row.iset == A32:
        return {"c": 14, "W": W, "n": n, "r": lm}
    if row.iset == T16:
        return {"n": n, "r": lm}
    if cls.startswith("Ldm"):
        return {"W": W, "n": n, "P": (lm >> 15) & 1, "M": (lm >> 14) & 1, "r": lm & 0x1FFF}
    return {"W": W, "n": n, "M": (lm >> 14) & 1, "r": lm & 0x1FFF}


def transfer_cases(run, f, n, kind, lm, load, li, full, tier, thumb):
    """Address x mode product (and the extra contexts) for one LDM/STM/PUSH/POP instance with base register n."""
    nbytes = 4 * bc(lm)
    haspc = bool(lm >> 15)
    breg = None if (load and (lm >> n) & 1) else n       # a base that is itself loaded is just a transferred register
    for ai, addr in enumerate(ADDRS):
        wrap = wraps(kind, addr, nbytes)
        mp = None
        if load and haspc:
            slot = (rb.first_address(kind, addr, nbytes) + nbytes - 4) & 0xFFFFFFFF
            mp = [(slot, word_le(TARGETS[(li + ai + n) % 4]))]
        for mode in modes_for(tier, full, li, ai, MODES5):
            regvals = dict(TAGS)
            regvals[n] = addr
            q = "wrap" if (wrap and run.mid_ok.get(mode, True)) else ""
            ok = run.case(f, mode, regvals, breg, mempatch=mp, qual=q, pc_loaded=load)
            if ai == 0:
                run.mid_ok[mode] = ok
            # extra contexts on the mid-RAM / svc baseline
            if ai == 0 and mode == "svc" and full and ok:
                if haspc and load:
                    for ver in (4, 5, 7):
                        run.case(f, mode, regvals, breg, ver=ver, mempatch=mp, qual=("v%d" % ver) if ok else "", pc_loaded=True)
                if haspc and not load:    # PCStoreValue() is fully specified from ARMv7 on
                    run.case(f, mode, regvals, breg, ver=7, qual="pc-store" if ok else "")
                if li % 8 == 3:
                    run.case(f, mode, regvals, breg, cpsr_or=0x200, mempatch=mp, qual="E=1" if ok else "", pc_loaded=load)
                if thumb and li % 4 == 1:
                    for it in (0xE8, 0xE4):
                        run.case(f, mode, regvals, breg, it=it, mempatch=mp, qual="it" if ok else "", pc_loaded=load)


def ordinary(res, row, k, K, tier):
    cls = row.cls
    kind = KIND[cls]
    load = cls.startswith("Ldm")
    run = Runner(res, row)
    if row.iset == T16:
        ls = list(range(1, 256))
        bases, ws = (0, 7, 3), (None,)
    elif row.iset == T32:
        ls = lists(tier, 0xDFFF if load else 0x5FFF)
        bases, ws = (0, 7, 13), (0, 1)
    else:
        ls = lists(tier)
        bases, ws = (0, 7, 13), (0, 1)
    thumb = row.iset != A32
    ninst = 0
    for li, lm in enumerate(ls):
        if li % K != k:
            continue
        full = tier == "quick" or lm in QSET or row.iset == T16
        for n in bases:
            for W in ws:
                f = fields_ordinary(row, lm, n, W)
                if not belongs(row, f):
                    continue
                if row.unpredictable(f, {"ver": 6, "in_it": False, "last_it": False, "C": 0}):
                    res.outcome("model-unpredictable-skipped")
                    continue
                ninst += 1
                transfer_cases(run, f, n, kind, lm, load, li, full, tier, thumb)
    res.sample({"row": cls, "pattern": row.pat, "lists": len(ls), "instances_in_shard": ninst})


# ------------------------------------------------------------------------------------------------- (a) PUSH / POP
def fields_stack(row, lm):
    cls = row.cls
    if row.iset == A32:
        return {"c": 14, "r": lm}
    if cls == "PushT1":
        return {"M": (lm >> 14) & 1, "r": lm & 0xFF}
    if cls == "PopThumbT1":
        return {"P": (lm >> 15) & 1, "r": lm & 0xFF}
    if cls == "PopThumbT2":
        return {"P": (lm >> 15) & 1, "M": (lm >> 14) & 1, "r": lm & 0x1FFF}
    return {"M": (lm >> 14) & 1, "r": lm & 0x1FFF}


def stack(res, row, k, K, tier):
    cls = row.cls
    load = cls.startswith("Pop")
    kind = "IA" if load else "DB"
    run = Runner(res, row)
    if cls == "PushT1":
        ls = [((x >> 8) << 14) | (x & 0xFF) for x in range(1, 512)]
    elif cls == "PopThumbT1":
        ls = [((x >> 8) << 15) | (x & 0xFF) for x in range(1, 512)]
    elif cls == "PopThumbT2":
        ls = lists(tier, 0xDFFF)
    elif cls == "PushT2":
        ls = lists(tier, 0x5FFF)
    else:
        ls = lists(tier)
    thumb = row.iset != A32
    narrow = row.iset == T16
    ninst = 0
    for li, lm in enumerate(ls):
        if li % K != k:
            continue
        f = fields_stack(row, lm)
        if not belongs(row, f):
            continue
        if row.unpredictable is not None and row.unpredictable(f, {"ver": 6, "in_it": False, "last_it": False, "C": 0}):
            res.outcome("model-unpredictable-skipped")
            continue
        ninst += 1
        full = tier == "quick" or lm in QSET or narrow
        transfer_cases(run, f, 13, kind, lm, load, li, full, tier, thumb)
    res.sample({"row": cls, "pattern": row.pat, "lists": len(ls), "instances_in_shard": ninst})


def stack1(res, row, tier):
    """Single-register forms (MemU): all 16 Rt, aligned and unaligned stack pointers."""
    cls = row.cls
    load = cls.startswith("Pop")
    kind = "IA" if load else "DB"
    run = Runner(res, row)
    thumb = row.iset != A32
    for t in range(16):
        f = {"c": 14, "t": t} if row.iset == A32 else {"t": t}
        for ai, addr in enumerate(ADDRS + [MID + 2, MID + 1, MID + 3, 0xFFFFFFFE, 0x2]):
            wrap = wraps(kind, addr, 4)
            una = addr & 3 != 0
            mp = [(addr & 0xFFFFFFFC, word_le(TARGETS[(t + ai) % 4]))] if (load and t == 15 and not una) else None
            for mode in MODES5:
                regvals = dict(TAGS)
                regvals[13] = addr
                base_ok = run.mid_ok.get(mode, True)
                q = ("wrap" if wrap else "unaligned" if una else "") if base_ok else ""
                ok = run.case(f, mode, regvals, 13, mempatch=mp, qual=q, pc_loaded=load)
                if ai == 0:
                    run.mid_ok[mode] = ok
                if ai == 0 and mode == "svc" and ok:
                    for ver in (4, 5, 7):
                        vq = "pc-store" if (not load and t == 15) else "v%d" % ver
                        run.case(f, mode, regvals, 13, ver=ver, mempatch=mp, qual=vq if ok else "", pc_loaded=load)
                    run.case(f, mode, regvals, 13, cpsr_or=0x200, mempatch=mp, qual="E=1" if ok else "", pc_loaded=load)
                    if thumb:
                        for it in (0xE8, 0xE4):
                            run.case(f, mode, regvals, 13, it=it, mempatch=mp, qual="it" if ok else "", pc_loaded=load)
                if ai == 3 and mode == "svc":
                    run.case(f, mode, regvals, 13, cpsr_or=0x200, mempatch=mp, qual="unaligned E=1" if ok and base_ok else "")
    res.sample({"row": cls, "pattern": row.pat, "instances": 16})


# ------------------------------------------------------------------------------------------------- (a) user-bank forms
def user_tags(modeval):
    """Distinct values in the User bank where it differs from the current mode's view."""
    more = {}
    for n in range(8, 15):
        un = phys(n, 0b10000)
        if un != phys(n, modeval):
            more[un] = 0x05E70000 + 0x101 * n
    return more


def userforms(res, row, k, K, tier):
    cls = row.cls
    load = cls.startswith("Ldm")
    run = Runner(res, row)
    ls = lists(tier, 0x7FFF if load else 0xFFFF)
    ninst = 0
    for li, lm in enumerate(ls):
        if li % K != k:
            continue
        full = tier == "quick" or lm in QSET
        nbytes = 4 * bc(lm)
        for P in (0, 1):
            for U in (0, 1):
                kind = rb.pu_kind(bool(U), P == U)
                for ni, n in enumerate((0, 7, 13)):
                    f = {"c": 14, "P": P, "U": U, "n": n, "r": lm}
                    ninst += 1
                    for ai, addr in enumerate(ADDRS):
                        if not full and ai and (li + ni + 2 * P + U) % 2 != ai - 1:
                            continue              # thorough, lists outside the quick set: mid RAM + one wrap address
                        wrap = wraps(kind, addr, nbytes)
                        for mode in modes_for(tier, full, li + ni, ai, PRIV):
                            regvals = dict(TAGS)
                            regvals[n] = addr
                            more = user_tags(M[mode])
                            q = "wrap" if (wrap and run.mid_ok.get(mode, True)) else ""
                            ok = run.case(f, mode, regvals, n, more=more, qual=q)
                            if ai == 0:
                                run.mid_ok[mode] = ok
                            if ai == 0 and mode == "svc" and full and ok:
                                if lm >> 15:
                                    run.case(f, mode, regvals, n, more=more, ver=7, qual="pc-store" if ok else "")
                                if li % 8 == 3:
                                    run.case(f, mode, regvals, n, more=more, cpsr_or=0x200, qual="E=1" if ok else "")
                    if li < 4:                    # User / System mode: UNPREDICTABLE, counted as skipped
                        for mode in ("usr", "sys"):
                            regvals = dict(TAGS)
                            regvals[n] = MID
                            run.case(f, mode, regvals, n)
    res.sample({"row": cls, "pattern": row.pat, "lists": len(ls), "instances_in_shard": ninst})


# ------------------------------------------------------------------------------------------------- (a) exception return
def psr_values(tier, thorough_misc):
    """Restored PSR alphabet: every mode number of interest x T x A,I,F x flag/GE/E/IT backgrounds."""
    out = []
    mnums = [0b10000, 0b10001, 0b10010, 0b10011, 0b10110, 0b10111, 0b11011, 0b11111, 0b11010, 0b00000]
    k = 0
    for m in mnums:
        for t in (0, 1):
            for aif in range(8):
                miscs = [(0, 0, 0, 0), (0b11111, 0xF, 1, 0xA5 if t else 0), (0b10101, 0x5, 0, 0x2E if t else 0)]
                if not thorough_misc:
                    miscs = [miscs[k % 3]]
                k += 1
                for flags, ge, e, it in miscs:
                    out.append(psr(m, t, aif, flags, ge, e, it))
    return out


BENIGN = [psr(0b10000, 0, 0, 0b01100, 0x3), psr(0b11111, 1, 5, 0b10011, 0xC, 0, 0x2C), psr(0b10001, 0, 7, 0b00001, 0, 1),
          psr(0b10011, 1, 2, 0b11110, 0x9, 1), psr(0b10010, 0, 3), psr(0b11011, 1, 6, 0, 0xF, 0, 0xA7)]


def prestates(tier, sctlr0, rich):
    """(cpsr A,I,F before, {scr, sctlr}) variants."""
    scrs = [0, 1, 1 | (1 << 5), 1 | (1 << 4), 1 | (1 << 5) | (1 << 4)]
    out = []
    for aif in (7, 0):
        for scr in scrs:
            for nmfi in (0, 1):
                out.append((aif, {"scr": scr, "sctlr": sctlr0 | (nmfi << 27)}))
    if not rich:
        out = [out[i] for i in (0, 3, 5, 8, 10, 12, 15, 17, 19)]
    return out


def excret(res, row, k, K, tier):
    run = Runner(res, row)
    e6 = env(6)
    ls = lists(tier, 0x7FFF, allow_empty=True)
    ninst = 0
    for li, lm in enumerate(ls):
        if li % K != k:
            continue
        full = tier == "quick" or lm in QSET
        length = 4 * bc(lm) + 4
        for P in (0, 1):
            for U in (0, 1):
                kind = rb.pu_kind(bool(U), P == U)
                for W in (0, 1):
                    for ni, n in enumerate((0, 7, 13)):
                        f = {"c": 14, "P": P, "U": U, "W": W, "n": n, "r": lm}
                        ninst += 1
                        for ai, addr in enumerate(ADDRS):
                            if not full and ai and (li + ni + 2 * P + U + W) % 2 != ai - 1:
                                continue              # thorough, other lists: mid RAM + one wrap address
                            wrap = wraps(kind, addr, length)
                            slot = (rb.first_address(kind, addr, length) + length - 4) & 0xFFFFFFFF
                            mp = [(slot, word_le(TARGETS[(li + ai + n) % 4]))]
                            modes = ["svc", "fiq", "irq"] if (tier == "quick" or full) else [["svc", "fiq", "irq"][(li + ni) % 3]]
                            for mode in modes:
                                regvals = dict(TAGS)
                                regvals[n] = addr
                                more = {spsr_name(M[mode]): BENIGN[(li + ai + ni + P + U + W) % len(BENIGN)]}
                                q = "wrap" if (wrap and run.mid_ok.get(mode, True)) else ""
                                ok = run.case(f, mode, regvals, None if (lm >> n) & 1 else n, more=more, mempatch=mp,
                                              qual=q, pc_loaded=True)
                                if ai == 0:
                                    run.mid_ok[mode] = ok
    # CPSRWriteByInstr sweep on LDMIA r0, {r1, pc}^ : shard 0 only
    if k == 0:
        f = {"c": 14, "P": 0, "U": 1, "W": 1, "n": 0, "r": 0x0002}
        psr_sweep(run, f, 0, "IA", 8, 4, ["svc", "fiq", "mon"], tier, e6.sctlr0, from_spsr=True, rich=tier != "quick")
    res.sample({"row": row.cls, "pattern": row.pat, "lists": len(ls), "instances_in_shard": ninst})


def psr_sweep(run, f, n, kind, length, pc_off, modes, tier, sctlr0, from_spsr, rich, it=0):
    """Restored-PSR alphabet x pre-state (A,I,F / SCR / NMFI) x current mode for one instruction instance."""
    vals = psr_values(tier, tier != "quick")
    first = rb.first_address(kind, MID, length)
    for vi, v in enumerate(vals):
        for pi, (aif, sysregs) in enumerate(prestates(tier, sctlr0, rich)):
            for mode in modes:
                if from_spsr and mode == "sys":
                    continue
                regvals = dict(TAGS)
                regvals[n] = MID
                thumb = run.row.iset != A32
                pre = (0b01010 << 27) | (aif << 6) | M[mode]
                if thumb:
                    pre |= 0x20 | ((it & 3) << 25) | ((it >> 2) << 10)
                more = dict(sysregs)
                more["cpsr"] = pre
                mp = [((first + pc_off) & 0xFFFFFFFF, word_le(TARGETS[(vi + pi) % 4]))]
                if from_spsr:
                    more[spsr_name(M[mode])] = v
                else:
                    mp.append(((first + 4) & 0xFFFFFFFF, word_le(v)))
                run.case(f, mode, regvals, n, it=it, more=more, mempatch=mp, qual="", pc_loaded=True)


def rfe(res, row, k, K, tier):
    run = Runner(res, row)
    e6 = env(6)
    arm = row.iset == A32
    pus = [(P, U) for P in (0, 1) for U in (0, 1)] if arm else [(None, None)]
    if k == 0:
        # geometry: P,U x W x base x address x mode x benign values
        for P, U in pus:
            if arm:
                kind = rb.pu_kind(bool(U), P == U)
            else:
                kind = "DB" if row.cls == "RfeT1" else "IA"
            for W in (0, 1):
                for n in (0, 7, 13, 14):
                    f = {"W": W, "n": n}
                    if arm:
                        f.update(P=P, U=U)
                    for ai, addr in enumerate(ADDRS):
                        wrap = wraps(kind, addr, 8)
                        first = rb.first_address(kind, addr, 8)
                        for mode in ("svc", "fiq", "irq", "sys", "usr"):
                            for bi, v in enumerate(BENIGN):
                                regvals = dict(TAGS)
                                regvals[n] = addr
                                mp = [(first, word_le(TARGETS[(bi + ai + n) % 4])), ((first + 4) & 0xFFFFFFFF, word_le(v))]
                                q = "wrap" if (wrap and run.mid_ok.get(mode, True)) else ""
                                ok = run.case(f, mode, regvals, n, mempatch=mp, qual=q, pc_loaded=True)
                                if ai == 0:
                                    run.mid_ok[mode] = run.mid_ok.get(mode, True) and ok if bi else ok
                                if not arm and ai == 0 and mode == "svc" and ok:
                                    for it in (0xE8, 0xE4):
                                        run.case(f, mode, regvals, n, it=it, mempatch=mp, qual="it" if ok else "",
                                                 pc_loaded=True)
    # CPSRWriteByInstr sweep (RFEIA r0! / the Thumb form with write-back), split over the shards by current mode
    f = {"W": 1, "n": 0}
    if arm:
        f.update(P=0, U=1)
        kind = "IA"
    else:
        kind = "DB" if row.cls == "RfeT1" else "IA"
    allmodes = ["svc", "fiq", "sys", "mon"]
    mine = [m for i, m in enumerate(allmodes) if i % K == k]
    psr_sweep(run, f, 0, kind, 8, 0, mine, tier, e6.sctlr0, from_spsr=False, rich=(arm or tier != "quick"))
    res.sample({"row": row.cls, "pattern": row.pat, "psr_values": len(psr_values(tier, tier != "quick"))})


# ------------------------------------------------------------------------------------------------- (a) SRS
def srs(res, row, k, K, tier):
    run = Runner(res, row)
    arm = row.iset == A32
    pus = [(P, U) for P in (0, 1) for U in (0, 1)] if arm else [(None, None)]
    curmodes = ["svc", "fiq", "irq", "abt", "und", "mon", "sys", "usr"]
    for P, U in pus:
        if arm:
            kind = rb.pu_kind(bool(U), P == U)
        else:
            kind = "DB" if row.cls == "SrsThumbT1" else "IA"
        for W in (0, 1):
            for tm in range(32):
                if tm % K != k:
                    continue
                f = {"W": W, "m": tm}
                if arm:
                    f.update(P=P, U=U)
                for mode in curmodes:
                    for scr in (0, 1):
                        if scr and mode not in ("svc", "fiq"):
                            continue
                        for ai, addr in enumerate(ADDRS):
                            regvals = dict(TAGS)
                            more = {"scr": scr} if scr else {}
                            tname = None
                            if tm in machine.MODE_NAMES and tm != 0b11010:
                                tname = phys(13, tm)
                                if tname == phys(13, M[mode]):
                                    regvals[13] = addr
                                else:
                                    more[tname] = addr
                            wrap = wraps(kind, addr, 8)
                            q = "wrap" if (wrap and run.mid_ok.get((mode, scr), True)) else ""
                            # the base is the target mode's SP
                            ok = run.case(f, mode, regvals, 13, base_mode=tm if tname else None, more=more, qual=q)
                            if ai == 0:
                                run.mid_ok[(mode, scr)] = ok
                            if ai == 0 and mode == "svc" and not scr and ok:
                                run.case(f, mode, regvals, 13, base_mode=tm if tname else None, more=more, cpsr_or=0x200,
                                         qual="E=1" if ok else "")
    res.sample({"row": row.cls, "pattern": row.pat, "target_modes": 32, "current_modes": curmodes})


# ------------------------------------------------------------------------------------------------- (b) pairs
def pair_fields(scls, lcls, lm, n):
    """(store fields, load fields) for one list / base, or None when the pair cannot encode it."""
    def one(cls):
        row = ROWS[cls]
        if cls in STACK1:
            if bc(lm) != 1:
                return None
            t = lm.bit_length() - 1
            return {"c": 14, "t": t} if row.iset == A32 else {"t": t}
        if cls in STACK:
            keep = {"PushA1": 0xFFFF, "PopArmA1": 0xFFFF, "PushT1": 0x40FF, "PopThumbT1": 0x80FF, "PushT2": 0x5FFF,
                    "PopThumbT2": 0xDFFF}[cls]
            if lm & ~keep:
                return None
            return fields_stack(row, lm)
        keep = 0xFFFF if row.iset == A32 else 0xFF if row.iset == T16 else (0xDFFF if cls.startswith("Ldm") else 0x5FFF)
        if lm & ~keep or (row.iset == T16 and n > 7):
            return None
        return fields_ordinary(row, lm, n, 1)
    fs, fl = one(scls), one(lcls)
    if fs is None or fl is None:
        return None
    for cls, f in ((scls, fs), (lcls, fl)):
        row = ROWS[cls]
        if not belongs(row, f):
            return None
        if row.unpredictable is not None and row.unpredictable(f, {"ver": 6, "in_it": False, "last_it": False, "C": 0}):
            return None
    if lcls == "LdmThumbT1" and (lm >> n) & 1:
        return None
    return fs, fl


def pairs(res, pi, k, K, tier):
    scls, lcls = PAIRS[pi]
    srow, lrow = ROWS[scls], ROWS[lcls]
    e = env(6)
    plan, cpu, ix = e.sem.plan, e.sem.cpu, e.ix
    stackpair = scls.startswith("Push")
    narrow = srow.iset == T16 or lrow.iset == T16
    if narrow:
        ls = [x for x in range(1, 0x8000) if not x & ~0x40FF]
    elif scls in STACK1:
        ls = [1 << i for i in range(15)]
    else:
        ls = [x for x in lists(tier, 0x7FFF)]
    kind = "DB" if stackpair else KIND[scls]
    thumb = srow.iset != A32
    ipc, icpsr = ix["R.PC"], ix["cpsr"]
    nprog = 0
    mid_ok = {}
    for li, lm in enumerate(ls):
        if li % K != k:
            continue
        full = tier == "quick" or lm in QSET or narrow
        for n in ((13,) if stackpair else (0, 7, 13, 3)):
            if (lm >> n) & 1:
                continue
            ff = pair_fields(scls, lcls, lm, n)
            if ff is None:
                continue
            fs, fl = ff
            ws, wl = srow.make(**fs), lrow.make(**fl)
            nbytes = 4 * bc(lm)
            nprog += 1
            for ai, addr in enumerate(ADDRS):
                wrap = wraps(kind, addr, nbytes)
                for mode in modes_for(tier, full, li, ai, MODES5):
                    modeval = M[mode]
                    regvals = dict(TAGS)
                    regvals[n] = addr
                    res.cases += 1
                    res.add_state(hash((pi, lm, n, addr, mode)))
                    pre = e.sem.install(ws, srow, modeval, {}, extra=e.named(modeval, regvals),
                                        nzcvq=0b01010)
                    out1 = machine.step(cpu)
                    mid = list(plan.regs())
                    listed = [i for i in range(15) if (lm >> i) & 1]
                    for i in listed:
                        mid[ix[phys(i, modeval)]] = CLOB[i]
                    mid = tuple(mid)
                    plan.restore_regs(mid)
                    machine.put_instr(cpu, mid[ipc], wl, thumb, lrow.width)
                    out2 = machine.step(cpu)
                    post = plan.regs()
                    res.transitions += 2
                    bad = []
                    if out1[0] != "ok" or out2[0] != "ok":
                        bad.append(("step-outcome", "ok", out1 if out1[0] != "ok" else out2))
                        cat = "host:%s@%s" % ((out1 if out1[0] != "ok" else out2)[1:3]) if bad[0][2][0] == "host" else "outcome"
                    else:
                        for i in listed:
                            j = ix[phys(i, modeval)]
                            if post[j] != pre[j]:
                                bad.append(("r%d" % i, pre[j], post[j]))
                        cat = "reg" if bad else None
                        j = ix[phys(n, modeval)]
                        if post[j] != pre[j]:
                            bad.append(("base r%d" % n, pre[j], post[j]))
                            cat = cat or "base"
                        want_pc = (CODE + (srow.width + lrow.width) // 8) & 0xFFFFFFFF
                        if post[ipc] != want_pc:
                            bad.append(("R.PC", want_pc, post[ipc]))
                            cat = cat or "PC"
                        skip = {ix[phys(i, modeval)] for i in listed} | {j, ipc}
                        for j2, (a, b) in enumerate(zip(mid, post)):
                            if a != b and j2 not in skip:
                                bad.append((e.names[j2], a, b))
                                cat = cat or "other-state"
                    res.outcome("pair-ok" if not bad else "pair-bad")
                    if ai == 0:
                        mid_ok[mode] = not bad
                    if bad:
                        q = " wrap" if (wrap and mid_ok.get(mode, True)) else ""
                        res.fail("pair %s;%s %s%s" % (scls, lcls, cat, q),
                                 "%s %#x ; clobber ; %s %#x list=%#06x base=r%d=%#x mode=%s | expected->got: %s" % (
                                     scls, ws, lcls, wl, lm, n, addr, mode, machine.fmt_diff(bad)),
                                 {"type": "pair", "pair": pi, "list": lm, "n": n, "addr": addr, "mode": mode})
    res.sample({"pair": "%s;%s" % (scls, lcls), "lists": len(ls), "programs_in_shard": nprog})


# ------------------------------------------------------------------------------------------------- driver
def run_shard(arg):
    res = Result()
    if arg[0] == "pair":
        pairs(res, arg[1], arg[2], arg[3], arg[4])
        return res.as_dict()
    _, cls, k, K, tier = arg
    row = ROWS[cls]
    if cls in ORDINARY:
        ordinary(res, row, k, K, tier)
    elif cls in STACK:
        stack(res, row, k, K, tier)
    elif cls in STACK1:
        stack1(res, row, tier)
    elif cls in USERF:
        userforms(res, row, k, K, tier)
    elif cls == "LdmExceptionReturnA1":
        excret(res, row, k, K, tier)
    elif cls in RFE:
        rfe(res, row, k, K, tier)
    elif cls in SRS:
        srs(res, row, k, K, tier)
    else:
        raise KeyError(cls)
    return res.as_dict()


def replay(doc):
    r = doc["replay"]
    if r.get("type") == "pair":
        scls, lcls = PAIRS[r["pair"]]
        e = env(6)
        srow, lrow = ROWS[scls], ROWS[lcls]
        ff = pair_fields(scls, lcls, r["list"], r["n"])
        fs, fl = ff
        modeval = M[r["mode"]]
        regvals = dict(TAGS)
        regvals[r["n"]] = r["addr"]
        plan, cpu, ix = e.sem.plan, e.sem.cpu, e.ix
        pre = e.sem.install(srow.make(**fs), srow, modeval, {}, extra=e.named(modeval, regvals), nzcvq=0b01010)
        o1 = machine.step(cpu)
        mid = list(plan.regs())
        for i in range(15):
            if (r["list"] >> i) & 1:
                mid[ix[phys(i, modeval)]] = CLOB[i]
        plan.restore_regs(tuple(mid))
        machine.put_instr(cpu, mid[ix["R.PC"]], lrow.make(**fl), srow.iset != A32, lrow.width)
        o2 = machine.step(cpu)
        post = plan.regs()
        d = [(n, a, b) for n, a, b in zip(e.names, pre, post) if a != b]
        return "%s;%s list=%#x base=r%d=%#x mode=%s -> %r %r\n pre->post: %s" % (
            scls, lcls, r["list"], r["n"], r["addr"], r["mode"], o1, o2, machine.fmt_diff(d, 40))
    row = ROWS[r["cls"]]
    e = env(r["ver"])
    f = {k: int(v) for k, v in r["fields"].items()}
    regvals = {int(k): v for k, v in r["regvals"].items()}
    modeval = M[r["mode"]]
    mp = [(a, bytes.fromhex(d)) for a, d in r["mempatch"]] or None
    word = row.make(**f)
    diffs, out, info = e.sem.run(word, row, f, modeval, {}, it=r["it"], extra=e.named(modeval, regvals, r["more"]),
                                 mempatch=mp, cpsr_or=r["cpsr_or"])
    return "%s word %#x -> %r %s\n model->impl: %s" % (r["cls"], word, out, info, machine.fmt_diff(diffs or [], 40))
