"""C14 - PMSA protection: MPU regions grant or deny access and report faults correctly.

(a) ArmV6.translate_address() swept over programmed region sets (2 regions, thorough: 3) at several region-number
    pairs: enable x size x relative placement (nested first/second/last eighth, adjacent, disjoint) x subregion-disable
    x AP, at every region / subregion boundary (both sides) and interior points, x read/write x privileged/user x SCTLR.M
    x SCTLR.BR.  Compared with ref.pmsa: returns vs DataAbortException (+ abort kind), DFSR[13:0], DFAR, the returned
    physical address, and every other location of the snapshot unchanged.
(b) load/store instructions stepped with emulate_cycle() on layouts where a privileged-only / read-only / no-access /
    disabled-subregion window starts in the middle of the transferred range (for multi-word transfers: at the k-th word,
    every k) or the address is misaligned.  On a fault the whole post-state is compared with
    pre-state + ref.exc.data_abort_record + ref.exc.take_data_abort (ARM ARM B1.9.8 "Effects of data-aborted
    instructions": base register restored, single loaded register unchanged, multiple loaded registers UNKNOWN, denied
    memory unchanged).  When the model permits every access the run must equal the same run with the MPU off."""
import itertools

from ..runner import Result
from .. import machine
from ..ref import pmsa, exc as rexc
from ..ref.state import St, phys, USR, FIQ, IRQ, SVC, MON, ABT, UND, SYS

ID = "C14"
M32 = 0xFFFFFFFF
G4 = 1 << 32
RSIZE = {"32B": 4, "128B": 6, "256B": 7, "4KB": 11, "4GB": 31}
RNAME = {v: k for k, v in RSIZE.items()}
SDS = [0x00, 0x01, 0x80, 0xAA, 0xFF]
APS = [0, 1, 2, 3, 5, 6]
IDX_PAIRS = [(0, 1), (0, 11), (3, 7), (7, 3)]            # (number of region A, number of region B)
IDX_TRIPLES = [(0, 1, 11), (3, 7, 5), (7, 3, 0)]         # (A, B, C): C highest / in the middle / lowest
RELS = ["first", "sub1", "last", "adjacent", "disjoint"]
X = 0x48000000          # anchor for regions smaller than 4 GB (not on an eighth of the 4 GB region)
HALF = 0x80000000       # boundary between eighths 3 and 4 of a 4 GB region
DREGION = 12


def size_of(rs):
    return 1 << (rs + 1)


# ================================================================================================ part (a)
def place(ra, rb, rel):
    """Base addresses (A, B) for the named relative placement; all bases are multiples of the region size."""
    sa, sb = size_of(ra), size_of(rb)
    if sa == G4 and sb == G4:
        return 0, 0
    if sa == G4 or sb == G4:
        s = sb if sa == G4 else sa
        sbase = {"first": 0, "sub1": 0x20000000, "last": G4 - s, "adjacent": HALF - s, "disjoint": HALF}[rel]
        return (0, sbase) if sa == G4 else (sbase, 0)
    if rel in ("first", "sub1", "last"):
        a_is_larger = sa >= sb
        big, small = (sa, sb) if a_is_larger else (sb, sa)
        off = {"first": 0, "sub1": max(big // 8, small), "last": big - small}[rel]
        return (X, X + off) if a_is_larger else (X + off, X)
    if rel == "adjacent":
        return X - sa, X
    return X - sa, X + sb


def placements(ra, rb):
    seen = []
    for rel in RELS:
        p = place(ra, rb, rel)
        if p not in [q for _, q in seen]:
            seen.append((rel, p))
    return seen


def addresses(regions, deltas):
    """Both sides of every region and subregion boundary of every programmed region (enabled or not), and two interior
    points (second and fifth eighth)."""
    out = set()
    for r in regions:
        size = size_of(r.rsize)
        pts = {r.base, r.base + size}
        if size >= 256:
            pts |= {r.base + k * (size // 8) for k in range(1, 8)}
        for p in pts:
            for d in deltas:
                out.add((p + d) & M32)
        out.add((r.base + 3 * size // 16) & M32)
        out.add((r.base + 9 * size // 16 + 1) & M32)
    return sorted(out)


def dracr_value(r):
    # TEX=001 C=0 B=0 (Normal, non-cacheable); XN = parity of the region number: must not matter for data accesses
    return (r.ap << 8) | ((r.index & 1) << 12) | (0b001 << 3)


def drsr_value(r):
    return (r.sd << 8) | (r.rsize << 1) | r.en


def program(cpu, regions, clear=()):
    regs = cpu.registers
    for i in clear:
        regs.drsrs[i].value = 0
        regs.drbars[i] = 0
        regs.dracrs[i].value = 0
    for r in regions:
        regs.drsrs[r.index].value = drsr_value(r)
        regs.drbars[r.index] = r.base
        regs.dracrs[r.index].value = dracr_value(r)


def situation(regions, va):
    """Short tag of the geometric situation, part of the violation key."""
    cont = [r for r in regions if r.en and r.base <= va < r.base + size_of(r.rsize)]
    hit = [r for r in cont if pmsa.contains(r, va)]
    tags = []
    if not cont:
        tags.append("no-region")
    if len(hit) > 1:
        tags.append("overlap")
    elif len(hit) == 1:
        tags.append("one-region")
    if len(cont) > len(hit):
        tags.append("disabled-subregion")
        if not hit:
            tags.append("falls-to-background")
    if any(size_of(r.rsize) < 256 and r.sd for r in cont):
        tags.append("SD-set-on-region<256B")
    if any(not r.en and r.base <= va < r.base + size_of(r.rsize) for r in regions):
        tags.append("inside-disabled-region")
    return ",".join(tags)


def fmt_regions(regions):
    return "; ".join("#%d %s %s @%#x SD=%#04x AP=%s" % (r.index, "en" if r.en else "DIS", RNAME.get(r.rsize, r.rsize), r.base,
                                                        r.sd, format(r.ap, "03b")) for r in regions)


class ApiEnv:
    def __init__(self):
        self.cpu = cpu = machine.new_cpu()
        cpu.take_reset()
        cpu.registers.mpuir.dregion = DREGION
        self.plan = machine.Plan(cpu)
        self.base = self.plan.snapshot()
        machine.activate(cpu)
        ix = self.plan.index
        self.i_dfsr = ix["dfsr"]
        self.i_dfar = ix["dfar"]


def api_case(env, regions, m, br, va, priv, write):
    """One translate_address() call.  Returns None or (manner, detail)."""
    from armulator.armv6.arm_exceptions import DataAbortException
    cpu = env.cpu
    regs = cpu.registers
    exp = pmsa.check(regions, m, br, va, priv, write)
    if exp == pmsa.UNPREDICTABLE:
        return "skip"
    # sentinels: DFSR[13:0] = complement of the value a fault must write, DFAR = complement of the address
    if exp == "ok":
        pre_dfsr = 0xA5A5EAAA
        new_dfsr, new_dfar = pre_dfsr, ~va & M32
    else:
        pre_dfsr = 0xA5A5C000 | (~pmsa.dfsr_bits(exp[1], write) & 0x3FFF)
        new_dfsr, new_dfar = pmsa.new_dfsr(pre_dfsr, exp[1], write), va
    regs.dfsr.value = pre_dfsr
    regs.dfar = ~va & M32
    basel = env.basel
    basel[env.i_dfsr] = pre_dfsr
    basel[env.i_dfar] = ~va & M32
    try:
        d = cpu.translate_address(va, priv, write, 4, True)
        got = "ok"
    except DataAbortException as e:
        got = ("fault", e.abort_type.name.lower())
        d = None
    except Exception as e:  # noqa
        return ("raises %s@%s" % (type(e).__name__, machine.site_of(e)), str(e)[:100])
    post = list(env.plan.regs())
    if got != exp:
        if exp == "ok":
            return ("spurious-%s-fault" % got[1], "model: access permitted")
        if got == "ok":
            return ("missing-%s-fault" % exp[1], "implementation returned a descriptor")
        return ("wrong-fault-kind", "model %s, implementation %s" % (exp[1], got[1]))
    if post[env.i_dfsr] != new_dfsr:
        return ("DFSR", "DFSR %#x -> %#x, expected %#x" % (pre_dfsr, post[env.i_dfsr], new_dfsr))
    if post[env.i_dfar] != new_dfar:
        return ("DFAR", "DFAR -> %#x, expected %#x" % (post[env.i_dfar], new_dfar))
    post[env.i_dfsr] = pre_dfsr
    post[env.i_dfar] = ~va & M32
    if post != basel:
        dd = [(n, a, b) for n, a, b in zip(env.plan.names, basel, post) if a != b]
        return ("changed %s" % dd[0][0], machine.fmt_diff(dd))
    if d is not None and d.paddress.physicaladdress != va:
        return ("physical-address", "returned %#x for %#x" % (d.paddress.physicaladdress, va))
    return None


def run_layout(res, env, regions, mbs, privs, writes, deltas, tag):
    """All (M, BR, address, privilege, direction) cases of one programmed region set."""
    cpu = env.cpu
    regs = cpu.registers
    program(cpu, regions)
    addrs = addresses(regions, deltas)
    n = 0
    for m, br in mbs:
        regs.sctlr.m = m
        regs.sctlr.br = br
        env.basel = list(env.plan.regs())
        for va in addrs:
            n += 1
            for priv in privs:
                # writes None: the direction alternates (period 6 in the address list, opposite for the two privileges)
                ws = ((n // 3 + priv) & 1,) if writes is None else writes
                for write in ws:
                    res.cases += 1
                    r = api_case(env, regions, m, br, va, bool(priv), bool(write))
                    if r == "skip":
                        continue
                    res.transitions += 1
                    if r is not None:
                        rp = {"part": "api", "regions": [list(x) for x in regions], "M": m, "BR": br, "va": va, "priv": priv,
                              "write": write}
                        res.fail("translate_address %s [%s]" % (r[0], situation(regions, va) if m else "MPU off"),
                                 "%s | regions: %s | M=%d BR=%d va=%#x %s %s" % (
                                     r[1], fmt_regions(regions), m, br, va, "priv" if priv else "user",
                                     "write" if write else "read"), rp)
        if env.plan.mem() != env.base[1]:
            res.fail("translate_address changed memory", fmt_regions(regions), {"part": "api", "regions": [list(x) for x in regions]})
    res.add_state(hash((tag, tuple(regions))))
    res.outcome(tag)


def alph_geo2(tier, idx, en_a, en_b):
    """(sd pairs, ap pairs, (M,BR) list, privs, writes, deltas) for one (region numbers, enables) combination."""
    mbs = [(1, 0), (1, 1)]
    if tier == "quick":
        deltas = (-1, 0)
        privs, writes = (1, 0), None                     # direction alternates with the case counter
        aps = [(3, 0), (0, 3)]
        if en_a and en_b:
            sds = list(itertools.product(SDS, SDS)) if idx == (3, 7) else list(itertools.product((0x00, 0xAA), repeat=2))
        elif en_a or en_b:
            if idx not in ((0, 11), (7, 3)):
                return None
            sds = [(s, 0x00) for s in SDS] if en_a else [(0x00, s) for s in SDS]
        else:
            sds = [(0x00, 0x00)]
            aps = [(3, 3)]
        return sds, aps, mbs, privs, writes, deltas
    deltas = (-1, 0, 1)
    privs, writes = (1, 0), (0, 1)
    if en_a and en_b:
        sds = list(itertools.product(SDS, SDS))
        aps = [(APS[i], APS[(i + k) % 6]) for k in (1, 3) for i in range(6)] if idx == (3, 7) else \
            [(3, 0), (0, 3), (1, 6), (5, 2)]
    elif en_a or en_b:
        sds = [(s, t) for s in SDS for t in (0x00, 0xFF)] if en_a else [(t, s) for s in SDS for t in (0x00, 0xFF)]
        aps = [(3, 0), (0, 3), (1, 6), (5, 2)]
    else:
        sds = [(0x00, 0x00), (0xAA, 0xFF)]
        aps = [(3, 3), (0, 1)]
    return sds, aps, mbs, privs, writes, deltas


def sizes_for(tier):
    return [4, 7, 11, 31] if tier == "quick" else [4, 6, 7, 11, 31]


def shard_geo2(res, tier, idx, en_a, en_b, ra):
    al = alph_geo2(tier, idx, en_a, en_b)
    if al is None:
        return
    sds, aps, mbs, privs, writes, deltas = al
    env = ApiEnv()
    ia, ib = idx
    for rb in sizes_for(tier):
        # the placement is the innermost dimension: consecutive layouts on this (reused) processor then differ in the base
        # address registers only, with unchanged size / enable / subregion registers (a region that is moved, not resized)
        for (sda, sdb), (apa, apb) in itertools.product(sds, aps):
            for rel, (ba, bb) in placements(ra, rb):
                regions = [pmsa.Region(ia, en_a, ra, ba, sda, apa), pmsa.Region(ib, en_b, rb, bb, sdb, apb)]
                run_layout(res, env, regions, mbs, privs, writes, deltas, "geo2")
    res.sample({"part": "api geo2", "numbers": idx, "enables": (en_a, en_b), "A": RNAME[ra], "example": fmt_regions(regions)})


def shard_aptab(res, tier, idx):
    """The complete AP x AP x privilege x direction x BR table on a few overlapping geometries."""
    env = ApiEnv()
    ia, ib = idx
    geos = [(11, 7, "sub1"), (7, 7, "first")]
    if tier != "quick":
        geos += [(7, 11, "last"), (31, 11, "sub1"), (4, 11, "first")]
    for (ra, rb, rel), (sda, sdb), apa, apb in itertools.product(geos, [(0x00, 0x00), (0xAA, 0xAA)], APS, APS):
        ba, bb = place(ra, rb, rel)
        regions = [pmsa.Region(ia, 1, ra, ba, sda, apa), pmsa.Region(ib, 1, rb, bb, sdb, apb)]
        run_layout(res, env, regions, [(1, 0), (1, 1)], (1, 0), (0, 1), (-1, 0), "aptab")
    res.sample({"part": "api aptab", "numbers": idx})


def shard_mpuoff(res, tier, idx):
    env = ApiEnv()
    ia, ib = idx
    for ra, rb in itertools.product(sizes_for(tier), repeat=2):
        for rel, (ba, bb) in placements(ra, rb):
            for apa, apb in [(0, 0), (3, 0)]:
                regions = [pmsa.Region(ia, 1, ra, ba, 0xAA, apa), pmsa.Region(ib, 1, rb, bb, 0x01, apb)]
                run_layout(res, env, regions, [(0, 0), (0, 1)], (1, 0), (0, 1), (-1, 0), "mpuoff")
    res.sample({"part": "api mpuoff", "numbers": idx})


def shard_ladder(res, tier, number):
    """One region of EVERY size 32 B .. 4 GB (RSize 4..31) at region number `number`, over a 4 GB region #0 with the
    opposite permission or over nothing: the size / subregion arithmetic for all sizes."""
    env = ApiEnv()
    for rs in range(4, 32):
        size = size_of(rs)
        base = (X // size) * size
        for sd, ap, under in itertools.product(SDS, (3, 0), (True, False)):
            regions = [pmsa.Region(number, 1, rs, base, sd, ap)]
            if under:
                regions.insert(0, pmsa.Region(0, 1, 31, 0, 0x00, 3 - ap))
            else:
                regions.insert(0, pmsa.Region(0, 0, 31, 0, 0x00, 3))
            run_layout(res, env, regions, [(1, 0), (1, 1)], (1, 0), None if tier == "quick" else (0, 1),
                       (-1, 0) if tier == "quick" else (-1, 0, 1), "ladder")
    res.sample({"part": "api ladder", "number": number, "example": fmt_regions(regions)})


def shard_geo3(res, tier, idx, ra, rb):
    """Three programmed regions (thorough)."""
    env = ApiEnv()
    ia, ib, ic = idx
    ens = [(1, 1, 1), (1, 0, 1), (0, 1, 1), (1, 1, 0)]
    apt = [(3, 0, 0), (0, 3, 0), (0, 0, 3), (1, 5, 6)]
    for rel, (ba, bb) in placements(ra, rb):
        for rc in (4, 7):
            sc = size_of(rc)
            cbases = []
            for b in (ba, bb, (bb + size_of(rb) - sc) & M32, (ba + (size_of(ra) // 8) * 5) & M32):
                b -= b % sc
                if b not in cbases:
                    cbases.append(b)
            for bc, (sda, sdb, sdc), en, ap in itertools.product(cbases, itertools.product((0x00, 0xAA), repeat=3), ens, apt):
                regions = [pmsa.Region(ia, en[0], ra, ba, sda, ap[0]), pmsa.Region(ib, en[1], rb, bb, sdb, ap[1]),
                           pmsa.Region(ic, en[2], rc, bc, sdc, ap[2])]
                run_layout(res, env, regions, [(1, 0), (1, 1)], (1, 0), None, (-1, 0), "geo3")
    res.sample({"part": "api geo3", "numbers": idx, "example": fmt_regions(regions)})


# ================================================================================================ part (b)
CODE = 0x10800
WB = 0x10200            # the denied window starts here in every layout
SP0 = 0x10F00


def _r(index, rsize, base, ap, sd=0, en=1):
    return pmsa.Region(index, en, rsize, base, sd, ap)


LAYOUTS = {
    # 4 GB full-access region below a 256-byte window with restricted AP
    "window-priv-only": [_r(0, 31, 0, 3), _r(5, 7, WB, 1)],
    "window-read-only": [_r(0, 31, 0, 3), _r(5, 7, WB, 6)],
    "window-priv-read-only": [_r(0, 31, 0, 3), _r(5, 7, WB, 5)],
    "window-user-read-only": [_r(0, 31, 0, 3), _r(5, 7, WB, 2)],
    "window-no-access": [_r(0, 31, 0, 3), _r(5, 7, WB, 0)],
    # 32-byte window: a 14-word transfer continues on permitted memory behind it
    "window32-no-access": [_r(0, 31, 0, 3), _r(5, 4, WB, 0)],
    # full-access 4 KB region #7 with its second eighth [0x10200,0x10400) disabled: falls to no-access region #3
    "subregion-hole-over-no-access": [_r(0, 31, 0, 3), _r(3, 11, 0x10000, 0), _r(7, 11, 0x10000, 3, sd=0x02)],
    # the same hole with nothing below: background fault unless SCTLR.BR and privileged
    "subregion-hole-over-background": [_r(2, 11, 0x10000, 3, sd=0x02)],
}


class Prog:
    """One instruction form.  cases: [(label, {reg: value}, [(address, size, is_write, kind)])], kind 'A' = MemA,
    'U' = MemU, 'T' = MemU_unpriv.  loads: registers the instruction loads."""

    def __init__(self, site, word, thumb, olen, n, loads, cases, it=0, flags=0):
        self.site, self.word, self.thumb, self.olen, self.n, self.loads, self.cases = site, word, thumb, olen, n, loads, cases
        self.it, self.flags = it, flags
        self.key = " ".join(site.split()[:2])         # violation keys name the encoding; the variant is in the detail


def single_targets(size, dual=False):
    if dual:
        return [("below", WB - 8), ("second-word-denied", WB - 4), ("first-word-denied", WB), ("unaligned-below", WB - 6),
                ("unaligned-inside", WB + 2)]
    if size == 4:
        return [("below", WB - 4), ("at-window", WB), ("straddling", WB - 2), ("unaligned-inside", WB + 1), ("inside", WB + 8)]
    if size == 2:
        return [("below", WB - 2), ("at-window", WB), ("straddling", WB - 1), ("unaligned-inside", WB + 3)]
    return [("below", WB - 1), ("at-window", WB), ("inside", WB + 5)]


def single(site, word, thumb, olen, size, load, mode, imm, n=1, t=2, kind="U", dual=False, offreg=None, executes=True, **kw):
    """mode: 'off' (no write-back), 'pre', 'post'."""
    cases = []
    for label, a in single_targets(size, dual):
        base = (a - imm) & M32 if mode in ("off", "pre") else a
        rv = {n: base}
        if offreg is not None:
            rv[offreg] = imm
        if not executes:
            acc = []
        elif dual:
            acc = [(a, 4, not load, "A"), ((a + 4) & M32, 4, not load, "A")]
        else:
            acc = [(a, size, not load, kind)]
        cases.append((label, rv, acc))
    loads = ([t, t + 1] if dual else [t]) if load else []
    return Prog(site, word, thumb, olen, n, loads, cases, **kw)


def multi(site, word, thumb, olen, amode, n, reglist, load, executes=True, **kw):
    """amode: IA / IB / DA / DB.  One case per k: the k-th transferred word is the first one inside the window."""
    cnt = len(reglist)
    cases = []
    lows = [("word%d-denied" % k if k < cnt else "below", WB - 4 * k) for k in range(cnt + 1)]
    lows += [("unaligned-below", WB - 4 * cnt - 2), ("unaligned-inside", WB + 2)]
    for label, low in lows:
        base = {"IA": low, "IB": low - 4, "DA": low + 4 * cnt - 4, "DB": low + 4 * cnt}[amode] & M32
        acc = [((low + 4 * i) & M32, 4, not load, "A") for i in range(cnt)] if executes else []
        cases.append((label, {n: base}, acc))
    return Prog(site, word, thumb, olen, n, list(reglist) if load else [], cases, **kw)


def arm_h(op, imm):
    return op | ((imm >> 4) << 8) | (imm & 0xF)


def arm_progs():
    p = []
    for name, size, load, off, pre, post in [
            ("LDR", 4, True, 0xE5912000, 0xE5B12000, 0xE4912000), ("STR", 4, False, 0xE5812000, 0xE5A12000, 0xE4812000),
            ("LDRB", 1, True, 0xE5D12000, 0xE5F12000, 0xE4D12000), ("STRB", 1, False, 0xE5C12000, 0xE5E12000, 0xE4C12000)]:
        p.append(single("%s(imm) A1 offset" % name, off | 4, False, 32, size, load, "off", 4))
        p.append(single("%s(imm) A1 pre-indexed" % name, pre | 4, False, 32, size, load, "pre", 4))
        p.append(single("%s(imm) A1 post-indexed" % name, post | 4, False, 32, size, load, "post", 4))
    for name, load, off, pre, post in [("LDRH", True, 0xE1D120B0, 0xE1F120B0, 0xE0D120B0),
                                       ("STRH", False, 0xE1C120B0, 0xE1E120B0, 0xE0C120B0)]:
        p.append(single("%s(imm) A1 offset" % name, arm_h(off, 4), False, 32, 2, load, "off", 4))
        p.append(single("%s(imm) A1 pre-indexed" % name, arm_h(pre, 4), False, 32, 2, load, "pre", 4))
        p.append(single("%s(imm) A1 post-indexed" % name, arm_h(post, 4), False, 32, 2, load, "post", 4))
    # register offset, pre-indexed with write-back: LDR/STR r2,[r1,r3]!
    p.append(single("LDR(reg) A1 pre-indexed", 0xE7B12003, False, 32, 4, True, "pre", 0x14, offreg=3))
    p.append(single("STR(reg) A1 pre-indexed", 0xE7A12003, False, 32, 4, False, "pre", 0x14, offreg=3))
    # unprivileged (post-indexed, always write back)
    p.append(single("LDRT A1", 0xE4B12004, False, 32, 4, True, "post", 4, kind="T"))
    p.append(single("STRT A1", 0xE4A12004, False, 32, 4, False, "post", 4, kind="T"))
    p.append(single("LDRBT A1", 0xE4F12004, False, 32, 1, True, "post", 4, kind="T"))
    p.append(single("STRBT A1", 0xE4E12004, False, 32, 1, False, "post", 4, kind="T"))
    # doubleword
    for name, load, lo in [("LDRD", True, 0xD0), ("STRD", False, 0xF0)]:
        p.append(single("%s(imm) A1 offset" % name, arm_h(0xE1C12000 | lo, 8), False, 32, 8, load, "off", 8, dual=True))
        p.append(single("%s(imm) A1 pre-indexed" % name, arm_h(0xE1E12000 | lo, 8), False, 32, 8, load, "pre", 8, dual=True))
        p.append(single("%s(imm) A1 post-indexed" % name, arm_h(0xE0C12000 | lo, 8), False, 32, 8, load, "post", 8, dual=True))
    p.append(single("LDRD(imm) A1 Rt==Rn", 0xE1C220D0, False, 32, 8, True, "off", 0, n=2, t=2, dual=True))
    p.append(single("LDRD(reg) A1 Rt==Rn", 0xE18220D4, False, 32, 8, True, "off", 0x10, n=2, t=2, dual=True, offreg=4))
    # condition fails: no access, no fault
    p.append(single("LDR(imm) A1 cond-fails", 0x05B12004, False, 32, 4, True, "pre", 4, executes=False))
    p.append(multi("STMIA A1 cond-fails", 0x08A1003C, False, 32, "IA", 1, [2, 3, 4, 5], False, executes=False))
    # block transfers
    L4 = [2, 3, 4, 5]
    for name, load, amode, wb0, wb1 in [
            ("LDMIA", True, "IA", 0xE8910000, 0xE8B10000), ("STMIA", False, "IA", 0xE8810000, 0xE8A10000),
            ("LDMDB", True, "DB", 0xE9110000, 0xE9310000), ("STMDB", False, "DB", 0xE9010000, 0xE9210000),
            ("LDMIB", True, "IB", 0xE9910000, 0xE9B10000), ("STMIB", False, "IB", 0xE9810000, 0xE9A10000),
            ("LDMDA", True, "DA", 0xE8110000, 0xE8310000), ("STMDA", False, "DA", 0xE8010000, 0xE8210000)]:
        p.append(multi("%s A1" % name, wb0 | 0x3C, False, 32, amode, 1, L4, load))
        p.append(multi("%s A1 write-back" % name, wb1 | 0x3C, False, 32, amode, 1, L4, load))
    p.append(multi("LDMIA A1 base-lowest-in-list", 0xE891001E, False, 32, "IA", 1, [1, 2, 3, 4], True))
    p.append(multi("LDMIA A1 base-mid-list", 0xE893003C, False, 32, "IA", 3, [2, 3, 4, 5], True))
    p.append(multi("LDMDB A1 base-lowest-in-list", 0xE911001E, False, 32, "DB", 1, [1, 2, 3, 4], True))
    p.append(multi("LDMIB A1 base-lowest-in-list", 0xE991001E, False, 32, "IB", 1, [1, 2, 3, 4], True))
    p.append(multi("LDMDA A1 base-lowest-in-list", 0xE811001E, False, 32, "DA", 1, [1, 2, 3, 4], True))
    p.append(multi("STMIA A1 write-back base-lowest-in-list", 0xE8A1000E, False, 32, "IA", 1, [1, 2, 3], False))
    p.append(multi("LDMIA A1 write-back pc-in-list", 0xE8B1800C, False, 32, "IA", 1, [2, 3, 15], True))
    p.append(multi("PUSH A1", 0xE92D403C, False, 32, "DB", 13, [2, 3, 4, 5, 14], False))
    p.append(multi("PUSH A1 14-registers", 0xE92D5FFF, False, 32, "DB", 13, list(range(13)) + [14], False))
    p.append(multi("POP A1", 0xE8BD003C, False, 32, "IA", 13, L4, True))
    p.append(multi("POP A1 pc-in-list", 0xE8BD800C, False, 32, "IA", 13, [2, 3, 15], True))
    p.append(multi("LDMIA A1 write-back 13-registers", 0xE8BE1FFF, False, 32, "IA", 14, list(range(13)), True))
    return p


def thumb_progs():
    p = []
    # 16-bit
    p.append(single("LDR(imm) T1", 0x684A, True, 16, 4, True, "off", 4))
    p.append(single("STR(imm) T1", 0x604A, True, 16, 4, False, "off", 4))
    p.append(single("LDRB(imm) T1", 0x790A, True, 16, 1, True, "off", 4))
    p.append(single("STRB(imm) T1", 0x710A, True, 16, 1, False, "off", 4))
    p.append(single("LDRH(imm) T1", 0x888A, True, 16, 2, True, "off", 4))
    p.append(single("STRH(imm) T1", 0x808A, True, 16, 2, False, "off", 4))
    p.append(single("LDR(imm) T2 sp-relative", 0x9A01, True, 16, 4, True, "off", 4, n=13))
    p.append(single("STR(imm) T2 sp-relative", 0x9201, True, 16, 4, False, "off", 4, n=13))
    p.append(single("LDR(imm) T1 in-IT-block(AL)", 0x684A, True, 16, 4, True, "off", 4, it=0xE8))
    p.append(single("STR(imm) T1 IT-cond-fails", 0x604A, True, 16, 4, False, "off", 4, it=0x08, executes=False))
    L4 = [2, 3, 4, 5]
    p.append(multi("LDMIA T1 write-back", 0xC93C, True, 16, "IA", 1, L4, True))
    p.append(multi("STMIA T1 write-back", 0xC13C, True, 16, "IA", 1, L4, False))
    p.append(multi("LDMIA T1 base-lowest-in-list", 0xC90E, True, 16, "IA", 1, [1, 2, 3], True))
    p.append(multi("PUSH T1", 0xB53C, True, 16, "DB", 13, [2, 3, 4, 5, 14], False))
    p.append(multi("POP T1", 0xBC3C, True, 16, "IA", 13, L4, True))
    p.append(multi("POP T1 pc-in-list", 0xBD0C, True, 16, "IA", 13, [2, 3, 15], True))
    # 32-bit
    p.append(single("LDR(imm) T4 pre-indexed", 0xF8512F04, True, 32, 4, True, "pre", 4))
    p.append(single("LDR(imm) T4 post-indexed", 0xF8512B04, True, 32, 4, True, "post", 4))
    p.append(single("STR(imm) T4 pre-indexed", 0xF8412F04, True, 32, 4, False, "pre", 4))
    p.append(single("STR(imm) T4 post-indexed", 0xF8412B04, True, 32, 4, False, "post", 4))
    p.append(single("LDRB(imm) T3 pre-indexed", 0xF8112F04, True, 32, 1, True, "pre", 4))
    p.append(single("STRB(imm) T3 pre-indexed", 0xF8012F04, True, 32, 1, False, "pre", 4))
    p.append(single("LDRT T1", 0xF8512E04, True, 32, 4, True, "off", 4, kind="T"))
    p.append(single("STRT T1", 0xF8412E04, True, 32, 4, False, "off", 4, kind="T"))
    for name, load, bit in [("LDRD", True, 0x00100000), ("STRD", False, 0)]:
        p.append(single("%s(imm) T1 offset" % name, 0xE9C12302 | bit, True, 32, 8, load, "off", 8, dual=True))
        p.append(single("%s(imm) T1 pre-indexed" % name, 0xE9E12302 | bit, True, 32, 8, load, "pre", 8, dual=True))
        p.append(single("%s(imm) T1 post-indexed" % name, 0xE8E12302 | bit, True, 32, 8, load, "post", 8, dual=True))
    p.append(multi("LDMIA T2 write-back", 0xE8B1003C, True, 32, "IA", 1, L4, True))
    p.append(multi("STMIA T2 write-back", 0xE8A1003C, True, 32, "IA", 1, L4, False))
    p.append(multi("LDMDB T1 write-back", 0xE931003C, True, 32, "DB", 1, L4, True))
    p.append(multi("STMDB T1 write-back", 0xE921003C, True, 32, "DB", 1, L4, False))
    p.append(multi("LDMIA T2 base-in-list", 0xE893003C, True, 32, "IA", 3, L4, True))
    p.append(multi("LDMDB T1 base-in-list", 0xE913003C, True, 32, "DB", 3, L4, True))
    p.append(single("LDRD(imm) T1 Rt==Rn", 0xE9D22300, True, 32, 8, True, "off", 0, n=2, t=2, dual=True))
    p.append(multi("PUSH T2", 0xE92D403C, True, 32, "DB", 13, [2, 3, 4, 5, 14], False))
    p.append(multi("POP T2", 0xE8BD003C, True, 32, "IA", 13, L4, True))
    return p


def model_instr(prog, acc, regions, m, br, priv, sctlr_a):
    """('ok',) | ('fault', kind, address, is_write, [byte addresses stored before the fault])"""
    stored = []
    for addr, size, write, kind in acc:
        r = pmsa.access(regions, m, br, addr, size, priv and kind != "T", write, must_be_aligned=(kind == "A"),
                        alignment_checked=bool(sctlr_a))
        if r[0] == pmsa.UNPREDICTABLE:
            return (pmsa.UNPREDICTABLE,)
        if r[0] == "fault":
            if write:
                stored += r[3]
            return ("fault", r[1], r[2], write, stored)
        if write:
            stored += r[1]
    return ("ok",)


def classify(loc, prog, mode):
    if loc == phys(prog.n, mode):
        return "base-register-not-restored"
    if loc == "dfsr":
        return "DFSR"
    if loc == "dfar":
        return "DFAR"
    if loc == "R.LRabt":
        return "LR_abt"
    if loc == "spsr_abt":
        return "SPSR_abt"
    if loc == "cpsr":
        return "CPSR"
    if loc == "R.PC":
        return "PC(vector)"
    if loc.startswith("mem["):
        return "memory-written"
    if loc.startswith("R."):
        return "register-written"
    return loc


INSTR_MODES_Q = [USR, SVC, ABT, SYS]
INSTR_MODES_T = [USR, FIQ, IRQ, SVC, MON, ABT, UND, SYS]


class InstrEnv:
    def __init__(self, ver, layout):
        self.cfg_ov = {"arch_version": ver}
        self.cpu = cpu = machine.new_cpu(**self.cfg_ov)
        cpu.take_reset()
        regs = cpu.registers
        regs.mpuir.dregion = DREGION
        regs.sctlr.u = 1
        self.regions = LAYOUTS[layout]
        program(cpu, self.regions)
        self.plan = machine.Plan(cpu)
        self.base = self.plan.snapshot()
        full = dict(machine.base_config())
        full.update(self.cfg_ov)
        self.cfg = full


def build_pre(env, prog, rv, mode, m, br, a, aif):
    ix = env.plan.index
    regs = list(env.base[0])
    for i in range(13):
        regs[ix[phys(i, mode)]] = (0xC0DE0000 + 0x01010101 * i * 3 + i) & M32
    regs[ix[phys(13, mode)]] = SP0
    regs[ix[phys(14, mode)]] = 0x55555554
    for r_, v in rv.items():
        regs[ix[phys(r_, mode)]] = v
    s = regs[ix["sctlr"]]
    s = (s & ~((1 << 0) | (1 << 1) | (1 << 17))) | m | (a << 1) | (br << 17)
    regs[ix["sctlr"]] = s
    cpsr = mode | (aif << 6) | (prog.flags << 28) | (0x5 << 16)
    if prog.thumb:
        cpsr |= 0x20 | ((prog.it & 3) << 25) | ((prog.it >> 2) << 10)
    regs[ix["cpsr"]] = cpsr
    regs[ix["R.PC"]] = CODE
    regs[ix["spsr_abt"]] = 0x0BADF00D & ~0x1F | 0x13
    return regs


def run_instr_case(env, prog, label, rv, acc, mode, m, br, a, aif, res, rpx):
    plan = env.plan
    ix = plan.index
    names = plan.names
    cpu = env.cpu
    priv = mode != USR
    regs = build_pre(env, prog, rv, mode, m, br, a, aif)
    mo = model_instr(prog, acc, env.regions, m, br, priv, a)
    if mo[0] == pmsa.UNPREDICTABLE:
        return
    if mo[0] == "fault":
        regs[ix["dfsr"]] = 0xA5A5C000 | (~pmsa.dfsr_bits(mo[1], mo[3]) & 0x3FFF)
        regs[ix["dfar"]] = ~mo[2] & M32
    else:
        regs[ix["dfsr"]] = 0xA5A5EAAA
        regs[ix["dfar"]] = 0xDFA0DFA0
    pre = tuple(regs)
    if mo[0] == "fault":
        # history: the processor first retires a post-indexed load (write-back to r9, MPU off); the case's state is then
        # re-created by assignment, so whatever the emulator keeps about the previous instruction outside the
        # architectural state (a saved base register, a cached opcode) is stale when the faulting instruction runs
        prime = list(pre)
        prime[ix["sctlr"]] &= ~1
        prime[ix["cpsr"]] = 0x1D3
        prime[ix["R.R9usr"]] = 0x10100
        plan.restore((tuple(prime), env.base[1]))
        machine.put_instr(cpu, CODE, 0xE4993004, False, 32)          # LDR r3,[r9],#4
        machine.step(cpu)
        res.transitions += 1
        plan.restore_regs(pre, scratch=False)
        for mc, (b_, e_, data) in zip(cpu.mem.memories, env.base[1]):
            mc.mem.memory_array[:] = data
    else:
        plan.restore((pre, env.base[1]))
    machine.put_instr(cpu, CODE, prog.word, prog.thumb, prog.olen)
    pre_mem = plan.mem()
    res.cases += 1
    out = machine.step(cpu)
    res.transitions += 1
    post = plan.regs()
    post_mem = plan.mem()
    rp = dict(rpx, site=prog.site, word=prog.word, case=label, mode=mode, M=m, BR=br, A=a, aif=aif)
    ctx = "%s word=%#x case=%s regs={%s} mode=%s M=%d BR=%d SCTLR.A=%d | layout %s: %s" % (
        prog.site, prog.word, label, ", ".join("r%d=%#x" % kv for kv in sorted(rv.items())), machine.MODE_NAMES[mode], m, br, a,
        rpx["layout"], fmt_regions(env.regions))
    if out[0] != "ok":
        res.fail("%s step-%s %s" % (prog.key, out[0], " ".join(map(str, out[1:3]))), ctx + " | %r" % (out,), rp)
        return
    aborted = post[ix["cpsr"]] & 0x1F == ABT and (post[ix["dfar"]] != pre[ix["dfar"]] or post[ix["dfsr"]] != pre[ix["dfsr"]]
                                                   or post[ix["spsr_abt"]] != pre[ix["spsr_abt"]])
    if mo[0] == "fault":
        _, kind, faddr, write, stored = mo
        res.outcome("instr %s-fault" % kind)
        fs = post[ix["dfsr"]] & 0x40F
        if not aborted or fs != pmsa.dfsr_bits(kind, False):
            res.fail("%s missing-%s-fault" % (prog.key, kind), ctx + " | model: %s fault at %#x; implementation: %s" % (
                kind, faddr, "abort with DFSR=%#x DFAR=%#x" % (post[ix["dfsr"]], post[ix["dfar"]]) if aborted else
                "no abort"), rp)
            return
        st = St(names, pre, pre_mem, env.cfg)
        rexc.data_abort_record(st, kind, faddr, write)
        rexc.take_data_abort(st, alignment=(kind == "alignment"))
        if len(prog.loads) > 1:
            for r_ in prog.loads:
                if r_ != 15 and r_ != prog.n:
                    loc = phys(r_, mode)
                    if loc != "R.LRabt":
                        st.unknown.add(loc)
        for b in stored:                   # permitted locations written before the faulting access: UNKNOWN
            st.mem_unknown.add(b)
        d = st.compare(names, post, post_mem)
        if d:
            res.fail("%s faulting-access %s" % (prog.key, classify(d[0][0], prog, mode)),
                     ctx + " | fault at %#x | model->impl: %s" % (faddr, machine.fmt_diff(d)), rp)
        return
    res.outcome("instr permitted")
    if aborted:
        res.fail("%s spurious-abort" % prog.key, ctx + " | DFSR=%#x DFAR=%#x" % (post[ix["dfsr"]], post[ix["dfar"]]), rp)
        return
    if not m:
        return
    # metamorphic: identical to the run with the MPU disabled
    flat = list(pre)
    flat[ix["sctlr"]] &= ~1
    plan.restore((tuple(flat), env.base[1]))
    machine.put_instr(cpu, CODE, prog.word, prog.thumb, prog.olen)
    out2 = machine.step(cpu)
    res.transitions += 1
    fregs = list(plan.regs())
    fmem = plan.mem()
    fregs[ix["sctlr"]] |= 1
    if out2[0] != "ok" or fregs[ix["dfar"]] != pre[ix["dfar"]]:
        res.fail("%s MPU-off-run-aborts" % prog.key, ctx + " | %r" % (out2,), rp)
        return
    d = plan.diff((tuple(fregs), fmem), (post, post_mem))
    if d:
        res.fail("%s permitted-run-differs-from-MPU-off" % prog.key, ctx + " | flat->mpu: %s" % machine.fmt_diff(d), rp)


def shard_instr(res, tier, ver, thumb, layout):
    env = InstrEnv(ver, layout)
    progs = thumb_progs() if thumb else arm_progs()
    modes = INSTR_MODES_Q if tier == "quick" else INSTR_MODES_T
    aifs = (0,) if tier == "quick" else (0, 7)
    rpx = {"part": "instr", "ver": ver, "thumb": thumb, "layout": layout}
    for prog in progs:
        for (label, rv, acc), mode, a, br, aif in itertools.product(prog.cases, modes, (0, 1), (0, 1), aifs):
            ms = (1, 0) if layout == "window-no-access" else (1,)
            for m in ms:
                res.add_state(hash((ver, layout, prog.site, label, mode, a, br, aif, m)))
                run_instr_case(env, prog, label, rv, acc, mode, m, br, a, aif, res, rpx)
    res.sample({"part": "instr", "version": ver, "thumb": thumb, "layout": layout, "regions": fmt_regions(env.regions),
                "programs": len(progs)})


# ================================================================================================ plan / dispatch
def plan(tier):
    shards = []
    for idx in IDX_PAIRS:
        for en_a, en_b in itertools.product((1, 0), repeat=2):
            if alph_geo2(tier, idx, en_a, en_b) is None:
                continue
            for ra in sizes_for(tier):
                shards.append(("geo2", tier, idx, en_a, en_b, ra))
    for idx in IDX_PAIRS:
        shards.append(("aptab", tier, idx))
    for idx in (IDX_PAIRS if tier != "quick" else [(0, 11)]):
        shards.append(("mpuoff", tier, idx))
    for number in ((11,) if tier == "quick" else (1, 5, 11)):
        shards.append(("ladder", tier, number))
    if tier != "quick":
        for idx in IDX_TRIPLES:
            for ra, rb in itertools.product((7, 11, 31), repeat=2):
                shards.append(("geo3", tier, idx, ra, rb))
    for ver in (6, 7):
        for thumb in (False, True):
            for layout in LAYOUTS:
                shards.append(("instr", tier, ver, thumb, layout))
    # long shards first
    order = {"geo3": 0, "geo2": 1, "ladder": 2, "instr": 3, "aptab": 4, "mpuoff": 5}
    shards.sort(key=lambda s: order[s[0]])
    return {
        "shards": shards,
        "rule": "(a) translate_address(va, priv, write) for every programmed region set {A, B[, C]}: region numbers x enable "
                "x size x placement (B in first / second / last eighth of A or vice versa, coincident, adjacent, disjoint) "
                "x SD x AP (plus one region of every RSize 4..31 over a 4 GB region / over nothing), every address at base / end / each eighth boundary (-1, +0[, +1]) and two interior points of "
                "every programmed region x privileged/user x read/write x SCTLR.BR, SCTLR.M=1; the complete AP x AP "
                "table; SCTLR.M=0; outcome, abort kind, DFSR[13:0], DFAR, physical address and all other state compared "
                "with ref.pmsa.  (b) every listed load/store form x every position of the denied window in the transfer "
                "x misaligned addresses x mode x SCTLR.A x SCTLR.BR x layout x version, full post-state against "
                "pre-state + ref.exc data-abort entry; permitted runs against the MPU-off run",
        "bounds": {
            "region_numbers": IDX_PAIRS, "region_triples": IDX_TRIPLES if tier != "quick" else "thorough only",
            "sizes": [RNAME[s] for s in sizes_for(tier)], "SD": [hex(s) for s in SDS], "AP": [format(a, "03b") for a in APS],
            "placements": RELS, "dregion": DREGION,
            "quick_reductions": "SD x SD full at numbers (3,7), {0x00,0xAA}^2 elsewhere; AP pairs (011,000),(000,011) in the "
                                "geometry sweep (all 36 pairs in the AP-table sweep); direction alternates with the case "
                                "counter; one region disabled only at numbers (0,11),(7,3)" if tier == "quick" else
                                "AP pairs: 12 cyclic pairs at numbers (3,7), 4 pairs elsewhere; three regions: SD in {0x00,0xAA}, "
                                "4 AP triples, direction alternates",
            "instruction_layouts": {k: fmt_regions(v) for k, v in LAYOUTS.items()},
            "instruction_forms": [p.site for p in arm_progs()] + [p.site for p in thumb_progs()],
            "instr_modes": [machine.MODE_NAMES[m] for m in (INSTR_MODES_Q if tier == "quick" else INSTR_MODES_T)],
        },
        "exhaustive": True,
        "assumptions": [
            "AP encodings 100 / 111, RSize < 4 and misaligned region bases are UNPREDICTABLE and not generated",
            "instruction regions (IRSR/IRBAR/IRACR) are not consulted by the emulator's fetch (it reads through the data "
            "regions); instruction-side protection is not checked here",
            "block transfers access ascending addresses in order (pseudocode order): DFAR = lowest denied address; words "
            "stored before the faulting word are don't-care, words after it must be unchanged",
            "SCTLR.U = 1 throughout part (b); unaligned MemU accesses with SCTLR.A = 0 are performed byte by byte",
        ],
    }


def run_shard(arg):
    res = Result()
    kind = arg[0]
    if kind == "geo2":
        shard_geo2(res, *arg[1:])
    elif kind == "aptab":
        shard_aptab(res, *arg[1:])
    elif kind == "mpuoff":
        shard_mpuoff(res, *arg[1:])
    elif kind == "geo3":
        shard_geo3(res, *arg[1:])
    elif kind == "ladder":
        shard_ladder(res, *arg[1:])
    else:
        shard_instr(res, *arg[1:])
    res.count("cases " + kind, res.cases)
    return res.as_dict()


def replay(doc):
    r = doc["replay"]
    res = Result()
    if r.get("part") == "api":
        env = ApiEnv()
        regions = [pmsa.Region(*x) for x in r["regions"]]
        program(env.cpu, regions)
        env.cpu.registers.sctlr.m = r["M"]
        env.cpu.registers.sctlr.br = r["BR"]
        env.basel = list(env.plan.regs())
        out = api_case(env, regions, r["M"], r["BR"], r["va"], bool(r["priv"]), bool(r["write"]))
        return "regions: %s\nM=%d BR=%d va=%#x priv=%s write=%s\nmodel: %r\nresult: %r" % (
            fmt_regions(regions), r["M"], r["BR"], r["va"], r["priv"], r["write"],
            pmsa.check(regions, r["M"], r["BR"], r["va"], bool(r["priv"]), bool(r["write"])), out or "agrees with the model")
    if r.get("part") == "instr":
        env = InstrEnv(r["ver"], r["layout"])
        for prog in (thumb_progs() if r["thumb"] else arm_progs()):
            if prog.site != r["site"]:
                continue
            for label, rv, acc in prog.cases:
                if label == r["case"]:
                    run_instr_case(env, prog, label, rv, acc, r["mode"], r["M"], r["BR"], r["A"], r["aif"], res,
                                   {"part": "instr", "ver": r["ver"], "thumb": r["thumb"], "layout": r["layout"]})
        return "\n".join("%s: %s" % (k, v["detail"]) for k, v in res.violations.items()) or "agrees with the model"
    return "nothing to replay: %r" % (r,)
