"""C19 - privilege confinement.  Invariant oracle over the C18 enumeration restricted to User mode: after one step the
processor is either still in User mode with A/I/F, every other mode's banked registers, all SPSRs, every system /
protection / translation register and all privileged-only memory unchanged, or it has taken an architectural exception
(mode, vector, SPSR.M = User) having changed nothing privileged but that exception's own bookkeeping.
Plus: unprivileged load/store forms executed in privileged modes are permission-checked as User."""
from ..runner import Result
from .. import machine, isa, sweep, lazyword

ID = "C19"
USR = 0b10000
USER_OWN = {"R.R%dusr" % n for n in range(13)} | {"R.SPusr", "R.LRusr", "R.PC", "cpsr", "event_register",
                                                   "cpu.is_wait_for_event", "cpu.is_wait_for_interrupt"}
# exception bookkeeping a User-mode instruction may legitimately cause, per target mode
ENTRY = {
    0b10011: ({"R.LRsvc", "spsr_svc"}, 0x08),
    0b11011: ({"R.LRund", "spsr_und"}, 0x04),
    0b10111: ({"R.LRabt", "spsr_abt", "dfsr", "dfar"}, 0x10),
    0b11010: ({"elr_hyp", "spsr_hyp", "hsr", "hdfar", "hpfar"}, None),
}
IT_CTX = [("no-it", 0x00), ("it-last", 0x08), ("it-fail", 0x16)]
PRIV_WINDOW = (isa.DATA, isa.DATA + 0x100)


def plan(tier):
    shards = [("t16", blk) for blk in range(64)]
    cap = 10 if tier == "quick" else 14
    for cube in sweep.arm_shards():
        shards.append(("a32", cube, cap, tier))
    for cube in sweep.thumb32_shards():
        shards.append(("t32", cube, cap, tier))
    for i in range(16):
        shards.append(("pairs", i, 60 if tier == "quick" else 10 ** 6))
    shards.append(("unpriv", 0))
    return {
        "shards": shards,
        "rule": "User-mode confinement invariant on: all 2^16 Thumb-16 words x 3 IT contexts x {MPU off, MPU on with a "
                "privileged-only window} x {secure, non-secure} x 2 register files; every decode leaf of the ARM and "
                "Thumb-32 spaces (pattern members, 2 contexts); two-instruction User programs; every unprivileged "
                "load/store encoding in every privileged mode against privileged-only / read-only / full-access regions",
        "bounds": {"wide_observation_cap": cap, "it_contexts": IT_CTX},
        "exhaustive": False,
        "assumptions": ["32-bit spaces are covered per decode leaf by pattern members (as C18)",
                        "other modes' banked registers and SPSRs carry distinct tags; system registers keep their "
                        "configured values and must not change"],
        "deadline_s": 400 if tier == "quick" else 1700,
    }


class UEnv:
    """Env + tags + index lists for the confinement oracle."""

    def __init__(self, memsys, secure, regfile, masks=False):
        self.env = env = sweep.Env(memsys, None, secure)
        self.memsys = memsys
        self.label = "%s/%s/%s%s" % (memsys, "secure" if secure else "non-secure", regfile, "/AW+FW+NMFI" if masks else "")
        regs = env.cpu.registers
        if masks:
            # the bits that gate mask writes for PRIVILEGED code must not open anything to User mode
            regs.scr.aw = 1
            regs.scr.fw = 1
            regs.sctlr.nmfi = 1
            env.bases.clear()
        base = env.base("usr", regfile)
        env.plan.restore(base)
        # distinct tags in every other bank and SPSR
        for k, name in enumerate(n for n in env.plan.names if n.startswith("R.") and n not in USER_OWN):
            env.plan.set_loc(name, 0xA0000000 | (k << 8) | 0x5C)
        for k, name in enumerate(n for n in env.plan.names if n.startswith("spsr_")):
            env.plan.set_loc(name, 0x1D3 ^ (k << 20))
        env.plan.set_loc("elr_hyp", 0xE1E1E1E0)
        self.base = env.plan.snapshot()
        names = env.plan.names
        self.priv_idx = [i for i, n in enumerate(names) if n not in USER_OWN]
        self.icpsr = env.plan.index["cpsr"]
        self.ipc = env.plan.index["R.PC"]
        self.entry_idx = {m: [i for i, n in enumerate(names) if n not in USER_OWN and n not in allowed]
                          for m, (allowed, off) in ENTRY.items()}
        self.spsr_i = {0b10011: env.plan.index["spsr_svc"], 0b11011: env.plan.index["spsr_und"],
                       0b10111: env.plan.index["spsr_abt"], 0b11010: env.plan.index["spsr_hyp"]}
        # privileged-only window inside the mid RAM (only meaningful with the MPU on)
        self.win = None
        if memsys == "mpu-on":
            for di, mc in enumerate(env.cpu.mem.memories):
                if mc.beginning <= PRIV_WINDOW[0] < mc.end:
                    self.win = (di, PRIV_WINDOW[0] - mc.beginning, PRIV_WINDOW[1] - mc.beginning)
            self.win_bytes = bytes(self.base[1][self.win[0]][2][self.win[1]:self.win[2]])


def confinement(res, ue, label, rp, pre_regs=None):
    """Evaluates the invariant on ue.env after a step that started in User mode from pre_regs (default: ue.base)."""
    env = ue.env
    pre = pre_regs if pre_regs is not None else ue.base[0]
    after = env.plan.regs()
    cpsr = after[ue.icpsr]
    m = cpsr & 0x1F
    names = env.plan.names
    if m == USR:
        res.outcome("still-user")
        bad = [(names[i], pre[i], after[i]) for i in ue.priv_idx if after[i] != pre[i]]
        if (cpsr ^ pre[ue.icpsr]) & 0x1DF:
            bad.append(("cpsr.AIFM", pre[ue.icpsr] & 0x1DF, cpsr & 0x1DF))
        if bad:
            res.fail("user-mode-changed %s" % bad[0][0].split("[")[0], "%s: %s" % (label, machine.fmt_diff(bad)), rp)
    elif m in ENTRY:
        res.outcome("exception-%s" % machine.MODE_NAMES[m])
        allowed, off = ENTRY[m]
        bad = [(names[i], pre[i], after[i]) for i in ue.entry_idx[m] if after[i] != pre[i]]
        regs = env.cpu.registers
        if off is not None:
            vec = (regs.exc_vector_base() + off) & 0xFFFFFFFF
            if after[ue.ipc] != vec:
                bad.append(("R.PC(vector)", vec, after[ue.ipc]))
        if after[ue.spsr_i[m]] & 0x1F != USR:
            bad.append(("SPSR.M", USR, after[ue.spsr_i[m]] & 0x1F))
        if bad:
            res.fail("exception-entry-from-user %s" % bad[0][0].split("[")[0], "%s: %s" % (label, machine.fmt_diff(bad)), rp)
    else:
        res.outcome("ESCALATED")
        res.fail("user-mode-reached-mode %s" % machine.MODE_NAMES.get(m, bin(m)),
                 "%s: CPSR %#x -> %#x without an architectural exception" % (label, pre[ue.icpsr], cpsr), rp)
    if ue.win is not None:
        di, a, b = ue.win
        if bytes(env.cpu.mem.memories[di].mem.memory_array[a:b]) != ue.win_bytes:
            res.fail("user-mode-wrote-privileged-memory", label, rp)


def run_shard(arg):
    kind = arg[0]
    res = Result()
    if kind == "t16":
        t16(res, arg[1])
    elif kind in ("a32", "t32"):
        lazy32(res, kind, arg[1], arg[2], arg[3])
    elif kind == "pairs":
        pairs(res, arg[1], arg[2])
    else:
        unpriv(res)
    return res.as_dict()


def one(res, ue, word, thumb, olen, it, what):
    res.cases += 1
    out = sweep.step_word(ue.env, ue.base, word, thumb, olen, it)
    res.transitions += 1
    rp = {"thumb": thumb, "olen": olen, "word": word, "it": it, "ctx": ue.label}
    if out[0] == "host":
        res.outcome("host-error (C18)")
        return      # crash: C18's finding, nothing to judge here
    # step_word modified T/IT/flags/PC on top of base: rebuild the pre-image of cpsr / pc for the comparison
    pre = list(ue.base[0])
    v = pre[ue.icpsr] & 0x01FF03DF | (0b0110 << 28)
    if thumb:
        v |= 0x20 | ((it & 3) << 25) | ((it >> 2) << 10)
    pre[ue.icpsr] = v
    confinement(res, ue, "%s %#x it=%#x %s" % (what, word, it, ue.label), rp, pre)


def t16(res, blk):
    ues = [UEnv(ms, sec, rf) for ms in ("mpu-off", "mpu-on") for sec in (True, False) for rf in ("ram", "wild")]
    ues += [UEnv("mpu-off", True, "ram", True), UEnv("mpu-on", False, "ram", True)]
    for ue in ues:
        for w in range(blk * 1024, (blk + 1) * 1024):
            if (w >> 11) in (0b11101, 0b11110, 0b11111):
                continue
            for itname, it in IT_CTX:
                one(res, ue, w, True, 16, it, "thumb16")
    res.states = set(range(blk * 1024, (blk + 1) * 1024))
    res.sample({"thumb16_block": [hex(blk * 1024), hex((blk + 1) * 1024 - 1)], "contexts": len(ues) * len(IT_CTX)})


def lazy32(res, kind, cube, cap, tier):
    thumb = kind == "t32"
    ues = [UEnv("mpu-off", True, "ram"), UEnv("mpu-on", False, "wild", True)]
    cpu = ues[0].env.cpu
    its = [0] if not thumb else [0, 0x08]
    for it in its:
        f = sweep.decode_fn(cpu, 1 if thumb else 0, 32, it)
        leaves = []
        ues[0].env.plan.restore(ues[0].base)
        t = lazyword.explore(f, 32, cube[0], cube[1], lambda m, v, r, e: leaves.append((m, v)), wide_cap=cap)
        res.count("leaves", t.leaves)
        res.count("words_in_leaves", t.words)
        res.count("words_outside_cap", t.capped_words)
        for mask, val in leaves:
            res.add_state(hash((mask, val, it)))
            cond_resolved = thumb or ((mask >> 28) == 0xF and (val >> 28) >= 0xE)
            mem = lazyword.members(mask, val, 32, tier != "quick") if cond_resolved else [val]
            for w in mem:
                for ue in ues:
                    one(res, ue, w, thumb, 32, it, kind)
    res.sample({"cube": [hex(cube[0]), hex(cube[1])], "leaves": len(leaves)})


def pairs(res, idx, nfirst):
    ue = UEnv("mpu-on", True, "ram")
    env = ue.env
    for thumb in (False, True):
        words = isa.harvest_words(thumb)
        stride = max(1, len(words) // nfirst)
        firsts = words[::stride]
        for fi, (t1, ol1, w1, c1) in enumerate(firsts):
            if fi % 16 != idx:
                continue
            for t2, ol2, w2, c2 in words:
                env.plan.restore(ue.base)
                cpu = env.cpu
                machine.put_instr(cpu, isa.CODE, w1, thumb, ol1)
                machine.put_instr(cpu, isa.CODE + ol1 // 8, w2, thumb, ol2)
                cpu.registers.cpsr.t = int(thumb)
                cpu.registers.branch_to(isa.CODE)
                env.plan.reset_scratch()
                res.cases += 1
                res.add_state(hash((thumb, w1, w2)))
                pre = env.plan.regs()
                for k in range(2):
                    out = machine.step(cpu)
                    res.transitions += 1
                    if out[0] == "host":
                        break
                    rp = {"thumb": thumb, "program": [[ol1, w1], [ol2, w2]], "step": k}
                    confinement(res, ue, "program [%s %#x; %s %#x] step %d" % (c1, w1, c2, w2, k), rp, pre)
                    if cpu.registers.cpsr.m != USR:
                        break
                    pre = env.plan.regs()
    res.sample({"pairs_shard": idx})


UNPRIV = ("Ldrt", "Ldrbt", "Ldrht", "Ldrsbt", "Ldrsht", "Strt", "Strbt", "Strht")


def unpriv(res):
    """LDRT/STRT... executed in each privileged mode: permission-checked as User."""
    env = sweep.Env("mpu-on")
    cpu = env.cpu
    regs = cpu.registers
    words = [w for w in isa.harvest_words() if w[3].startswith(UNPRIV)]
    for ap, load_ok, store_ok in ((0b001, False, False), (0b010, True, False), (0b011, True, True), (0b110, True, False),
                                  (None, False, False)):
        if ap is None:
            # no region at all, SCTLR.BR = 1: the background region serves privileged accesses only, so the
            # unprivileged forms take a Background fault also when executed in a privileged mode
            regs.drsrs[0].value = 0
            regs.drsrs[1].value = 0
            regs.sctlr.value |= 1 << 17
            ap = 0b1000
        else:
            regs.dracrs[1].ap = ap
        env.bases.clear()
        for mode in ("svc", "fiq", "irq", "abt", "und", "sys", "mon"):
          for off in (0, 1, 2, 3):
            env.plan.restore(env.base(mode, "ram"))
            for n in range(15):
                # every base register points into the protected window; unaligned bases exercise the byte-wise path
                regs.set(n, isa.DATA + 0x40 + 8 * n + off)
            env.plan.reset_scratch()
            base = env.plan.snapshot()
            for t, olen, w, cname in words:
                for it in ([0] if not t else [0, 0x08]):
                    res.cases += 1
                    res.add_state(hash((ap, mode, w, it, off)))
                    out = sweep.step_word(env, base, w, bool(t), olen, it)
                    res.transitions += 1
                    if out[0] != "ok":
                        continue
                    is_load = cname.startswith("Ldr")
                    aborted = regs.cpsr.m == 0b10111 and mode != "abt" or (mode == "abt" and regs.pc_store_value() == regs.exc_vector_base() + 0x10)
                    expect_abort = not (load_ok if is_load else store_ok)
                    res.outcome("unpriv-%s" % ("abort" if aborted else "ok"))
                    if aborted != expect_abort:
                        res.fail("%s in privileged mode %s with user permissions" % (
                            cname, "not checked" if expect_abort else "wrongly denied"),
                            "%s %#x in %s, region AP=%s: aborted=%s expected %s" % (cname, w, mode, bin(ap), aborted, expect_abort),
                            {"word": w, "thumb": t, "olen": olen, "mode": mode, "ap": ap, "it": it})
    res.sample({"unprivileged_forms": sorted({w[3] for w in words})})


def replay(doc):
    r = doc["replay"]
    return "re-run ./check C19; case: %r\n%s" % (r, doc["detail"])
