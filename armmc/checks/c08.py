"""C08 - IT blocks.  (a) ITAdvance on all 256 ITSTATE values; (b)+(c) co-simulation of IT programs: every legal
(firstcond, mask) x every NZCV x every sequence over an instruction menu (16-bit flag-setting ALU op, 32-bit ALU op,
CMP that changes the flags mid-block, 32-bit MSR APSR (miscellaneous-control space), branch as last instruction, SVC, UDF,
alignment-faulting load), with exception
handlers that return into the block; the reference stepper (ref.model) and the emulator are compared after EVERY step
on the whole snapshot (which slots executed, flags untouched by 16-bit ALU ops inside the block, ITSTATE after each
instruction and empty after the last, IT saved/cleared on exception entry and restored on return)."""
import itertools

from ..runner import Result
from .. import machine, sweep
from ..ref import model, bv
from ..ref.state import St, Unpredictable

ID = "C08"
CODE = 0x10800
VBASE = 0x10400


# eight flag states under which every condition code both passes and fails at least once
NZCV8 = (0b0000, 0b0100, 0b0010, 0b1000, 0b0001, 0b1001, 0b0110, 0b1111)


def menu(slot):
    """Instruction menu for block slot `slot` (distinct destination register per slot)."""
    d = slot
    return [
        ("alu16", 16, 0x3001 | (d << 8)),                      # ADDS Rd,#1 (no flags inside the block)
        ("alu32", 32, 0xF1000001 | (d << 16) | (d << 8)),      # ADD.W Rd,Rd,#1
        ("cmp", 16, 0x2F00),                                   # CMP r7,#0  -> Z=1,C=1: flips EQ/NE mid-block
        ("svc", 16, 0xDF00 | slot),
        ("udf", 16, 0xDE00 | slot),
        ("ldr-fault", 16, 0x682E),                             # LDR r6,[r5] with r5 unaligned, SCTLR.A=1
        ("smc", 32, 0xF7F08000),                               # SMC (only legal as the last instruction of the block)
        ("branch", 16, 0xE000),                                # B .+4 (only legal as the last instruction)
        # 32-bit miscellaneous-control space (hw1 = 11110x111xxx, next to B<c>.W which carries its own condition)
        ("msr32", 32, 0xF3808800 | ((1 + slot % 4) << 16)),    # MSR APSR_nzcvq,Rn: rewrites the flags mid-block
        ("bx-arm", 16, 0x4720),                                # BX r4 (even address: to ARM state; last instruction only)
    ]


def legal_it():
    out = []
    for fc in range(15):
        for mask in range(1, 16):
            if fc == 14 and bv.bit_count(mask) != 1:
                continue
            out.append((fc, mask))
    return out


def block_len(mask):
    return 4 - bv.lowest_set_bit(mask, 4)


def plan(tier):
    its = legal_it()
    shards = [("advance",)]
    for i, (fc, mask) in enumerate(its):
        # quick: the exception-raising menu items on blocks of length <= 2, the three ALU items on longer blocks
        per = 6 if (tier != "quick" or block_len(mask) <= 2) else 3
        shards.append(("prog", fc, mask, per, tier))
    shards.sort(key=lambda a: -block_len(a[2]) if a[0] == "prog" else 0)      # long shards first
    return {
        "shards": shards,
        "rule": "for every legal (firstcond, mask) [%d pairs] x all 16 NZCV x every instruction sequence of length "
                "block length + 1 over the menu: co-simulate ref.model.step and emulate_cycle, compare the whole snapshot "
                "after every step (handlers at the vectors return with SUBS PC,LR); state = (itstate, nzcv, sequence, step)" % len(its),
        "bounds": {"menu": [m[0] for m in menu(0)][:6] + ["msr32", "branch / smc / bx to ARM state (last slot only)"], "quick_menu": "all 7 items for block length <= 2, first 3 for longer blocks", "thorough_menu": "7 items for block length <= 3, 6 (no msr32 / bx-arm) for four-instruction blocks", "it_pairs": len(its), "nzcv": "8 values on which every condition takes both outcomes (quick), all 16 (thorough)",
                   "steps_per_program": "block length + 1 instruction after the block + handler returns (cap 12)",
                   "after_block_slot": "all menu items for block length <= 3; {alu16, alu32, svc} after a 4-instruction block"},
        "exhaustive": True,
        "assumptions": ["the menu instructions' own semantics are those of the C01/C02/C12 models"],
        "security_state": "Secure for NZCV values with V = 0, Non-secure (SCR.AW = SCR.FW = 0) for those with V = 1",
    }


def run_shard(arg):
    res = Result()
    if arg[0] == "advance":
        advance(res)
    else:
        programs(res, *arg[1:])
    return res.as_dict()


def advance(res):
    env = sweep.Env("mpu-off", {"arch_version": 7})
    regs = env.cpu.registers
    plan = env.plan
    base = env.base("svc", "ram")
    full = dict(machine.base_config())
    for it in range(256):
        for bg in (0x000001F3, 0xF90F03FF & ~0x0600FC00):
            plan.restore(base)
            regs.cpsr.value = bg
            regs.cpsr.it = it
            pre = plan.regs()
            res.cases += 1
            res.add_state(hash((it, bg)))
            out = machine.call(regs.it_advance)
            res.transitions += 1
            st = St(plan.names, pre, (), full)
            st.it_advance()
            d = st.compare(plan.names, plan.regs(), ())
            res.outcome("advance")
            if out[0] != "ok" or d:
                res.fail("it_advance", "ITSTATE %#04x: %r %s" % (it, out, machine.fmt_diff(d)), {"itstate": it, "bg": bg})
    res.sample({"it_advance": "all 256 ITSTATE values x 2 CPSR backgrounds"})


def programs(res, fc, mask, per, tier="quick"):
    cfg = {"arch_version": 7}
    env = sweep.Env("mpu-off", cfg)
    cpu = env.cpu
    plan = env.plan
    ix = plan.index
    names = plan.names
    full = dict(machine.base_config())
    full.update(cfg)
    n = block_len(mask)
    itword = 0xBF00 | (fc << 4) | mask
    have_branch = any(r.cls == "BT2" for r in model.table().rows["T16"])
    base = list(env.base("svc", "ram")[0])
    base[ix["sctlr"]] = (base[ix["sctlr"]] | (1 << 30) | 2) & ~1          # TE=1 (Thumb handlers), A=1, MPU off
    base[ix["vbar"]] = VBASE
    base[ix["mvbar"]] = VBASE + 0x40
    for k in range(8):
        base[ix["R.R%dusr" % k]] = 0x100 * k
    base[ix["R.R5usr"]] = 0x10101
    base[ix["R.R7usr"]] = 0
    base[ix["R.PC"]] = CODE
    mem0 = env.base("svc", "ram")[1]
    slots = []
    for s in range(n + 1):
        m = menu(s)[:min(per, 6)]
        if per > 3 and n <= 3:
            m = m + [menu(s)[8]]            # (four-instruction blocks keep the six-item menu: budget of the thorough tier)
        if s == n - 1 and have_branch and per >= 3:
            m = m + [menu(s)[7], menu(s)[6]] + ([menu(s)[9]] if n <= 3 or per == 3 else [])
        if s == n == 4 and per > 3:
            m = [m[0], m[1], m[3]]          # after a 4-instruction block: ALU16 (sets flags again), ALU32, SVC
        slots.append(m)
    for seq in itertools.product(*slots):
        for nzcv in (NZCV8 if tier == "quick" else range(16)):
            regs = list(base)
            regs[ix["cpsr"]] = 0x000001F3 | (nzcv << 28)
            # Non-secure state (SCR.NS = 1, SCR.AW = SCR.FW = 0) for the flag values with V set, Secure for the others:
            # the exception entries inside the block then also run through their Non-secure mask rules
            regs[ix["scr"]] = nzcv & 1
            pre = tuple(regs)
            plan.restore((pre, mem0))
            addr = CODE
            machine.put_instr(cpu, addr, itword, True, 16)
            addr += 2
            for nm, olen, w in seq:
                machine.put_instr(cpu, addr, w, True, olen)
                addr += olen // 8
            for a in range(addr, addr + 8, 2):
                machine.put_instr(cpu, a, 0xBF00, True, 16)           # NOPs after the program
            # handlers: SVC -> MOVS pc,lr equivalent; UNDEF -> return after the UDF; abort -> skip the faulting load
            machine.put_instr(cpu, VBASE + 0x04, 0xF3DE8F00, True, 32)
            machine.put_instr(cpu, VBASE + 0x08, 0xF3DE8F00, True, 32)
            machine.put_instr(cpu, VBASE + 0x10, 0xF3DE8F06, True, 32)
            machine.put_instr(cpu, VBASE + 0x48, 0xF3DE8F00, True, 32)          # Monitor-mode SMC vector: return
            st = St(names, pre, plan.mem(), full)
            res.cases += 1
            res.add_state(hash((fc, mask, nzcv, tuple(s[0] for s in seq))))
            steps = 0
            while steps < 12 and (CODE <= st.pc < addr + 2 or VBASE <= st.pc < VBASE + 0x60):
                try:
                    label = model.step(st)
                except Unpredictable:
                    res.outcome("model-unpredictable-stop")
                    break
                out = machine.step(cpu)
                steps += 1
                res.transitions += 1
                if out[0] != "ok":
                    res.fail("IT program step %s" % " ".join(map(str, out[:3])), "it=%#x seq=%r nzcv=%d step %d (%s)" % (
                        (fc << 4) | mask, [s[0] for s in seq], nzcv, steps, label),
                        {"firstcond": fc, "mask": mask, "nzcv": nzcv, "seq": [list(s) for s in seq]})
                    break
                post = plan.regs()
                d = st.compare(names, post, plan.mem())
                if d:
                    what = "ITSTATE/flags" if d[0][0] == "cpsr" else ("slot-executed" if d[0][0].startswith("R.R") else d[0][0])
                    res.fail("IT block %s after %s" % (what, label.split("->")[0] if "->" not in label else "exception " + label.split("->")[1]),
                             "IT firstcond=%d mask=%s NZCV=%s program=%r: step %d (%s) model->impl: %s" % (
                                 fc, format(mask, "04b"), format(nzcv, "04b"), [s[0] for s in seq], steps, label, machine.fmt_diff(d)),
                             {"firstcond": fc, "mask": mask, "nzcv": nzcv, "seq": [list(s) for s in seq], "step": steps})
                    break
                for loc in st.unknown:
                    st.loc[loc] = post[ix[loc]]
                st.unknown.clear()
                res.outcome(label.split("->")[-1] if "->" in label else "step")
    res.sample({"firstcond": fc, "mask": format(mask, "04b"), "block_length": n, "sequences": len(list(itertools.product(*slots)))})


def replay(doc):
    return "re-run ./check C08; case: %r\n%s" % (doc["replay"], doc["detail"])
