"""C06 - ARM decode: all 2^32 words.  Joint lazy-word exploration of the real decoder + from_bitarray and the reference
encoding table (armmc/decodecheck.py); the joint leaves tile the space."""
from ..runner import Result
from .. import sweep, decodecheck
from ..ref.enc import A32

ID = "C06"


def plan(tier):
    shards = []
    cap = 10 if tier == "quick" else 12
    for cube in sweep.arm_shards():
        op = (cube[1] >> 20) & 0xFF
        if tier == "quick":
            # conditions AL, NV (the unconditional space) and EQ; the other 13 condition values are thorough-only
            cubes = [(cube[0] | 0xF0000000, cube[1] | (c << 28)) for c in (0xE, 0xF, 0x0)]
        else:
            cubes = [cube]
        for cb in cubes:
            shards.append((cb, 7, 0, cap))
            if 0x20 <= op <= 0x3F and (tier != "quick" or (cb[1] >> 28) == 0xE):
                shards.append((cb, 7, 1, cap))          # carry flag is an input of the modified-immediate forms
            if tier != "quick" or (cb[1] >> 28) == 0xE:
                # architecture versions 6 and 5 (several from_bitarray() bodies consult the version): the whole space in
                # the thorough tier, the cond = AL sixteenth in the quick tier
                shards.append((cb, 6, 0, cap))
                shards.append((cb, 5, 0, cap))
    return {
        "shards": shards,
        "rule": "joint cube partition of w -> (decode_instruction(w) + from_bitarray(w), encoding-table verdict) over the "
                "ARM word space; class selection compared at every leaf, operands exactly / by bit provenance / by concrete "
                "enumeration of the bits they depend on; state = one leaf cube",
        "bounds": {"wide_observation_cap": cap, "arch_versions": "7 (AL, NV, EQ); 6 and 5 (AL)" if tier == "quick" else [7, 6, 5],
                   "conditions": "AL, NV, EQ (3/16 of the space)" if tier == "quick" else "all 16 (all 2^32 words)",
                   "carry": "both values on the modified-immediate space"},
        "exhaustive": tier != "quick",
        "assumptions": ["an observation of more than `cap` unresolved bits at once (register lists) is resolved from a "
                        "pattern alphabet; the evidence reports words_outside_cap",
                        "UNPREDICTABLE instances may be accepted or rejected, but not decoded as a different instruction"],
        "deadline_s": 400 if tier == "quick" else 1700,
    }


def run_shard(arg):
    cube, ver, carry, cap = arg
    res = Result()
    dec = decodecheck.Decoder(A32, {"arch_version": ver}, 0, carry)
    t = decodecheck.explore_cube(dec, cube, res, "ARM", cap)
    res.count("leaves", t.leaves)
    res.count("words_in_leaves", t.words)
    res.count("words_outside_cap", t.capped_words)
    if t.words + t.capped_words != 1 << (32 - bin(cube[0]).count("1")):
        res.fail("engine: tiling", "leaves of cube %r do not add up: %d + %d" % (cube, t.words, t.capped_words))
    res.sample({"cube": [hex(cube[0]), hex(cube[1])], "version": ver, "carry": carry, "leaves": t.leaves})
    return res.as_dict()


def replay(doc):
    r = doc["replay"]
    dec = decodecheck.Decoder(A32, {"arch_version": r["ver"]}, 0, r["carry"])
    w = r["example_word"]
    return "word %#010x: implementation %r, table %r\n%s" % (w, dec.impl(w)[0], dec.ref_verdict(w, dec.rows)[0], doc["detail"])
