"""C17 - bit-vector primitives and register field views vs. the pseudocode (ref.bv / ref.regfields).

Complete enumeration at widths 1..8, all 2^12 x 2 modified immediates, all (type, imm5); boundary alphabets at
32/64 bits with every shift amount 0..255; every register class x field x in-range value x 4 backgrounds."""
import importlib
import inspect
import itertools
import pkgutil

from ..runner import Result
from ..ref import bv, regfields

ID = "C17"
V32 = [0, 1, 2, 0x7F, 0x80, 0xFF, 0x7FFF, 0x8000, 0xFFFF, 0x10000, 0x7FFFFFFF, 0x80000000, 0x80000001, 0xFFFFFFFE,
       0xFFFFFFFF, 0x55555555, 0xAAAAAAAA, 0x12345678]
V64 = [0, 1, 0xFF, 0x7FFFFFFF, 0x80000000, 0xFFFFFFFF, 0x100000000, 0x7FFFFFFFFFFFFFFF, 0x8000000000000000,
       0xFFFFFFFFFFFFFFFF, 0x5555555555555555, 0xAAAAAAAAAAAAAAAA, 0x0123456789ABCDEF]
GROUPS = ["awc_small", "awc_big", "shifts_small", "shifts_big", "shift_c_small", "shift_c_big", "extend_sat",
          "bitfield", "reverse", "immshift", "armimm", "thumbimm", "regviews_a", "regviews_b"]


def plan(tier):
    return {
        "shards": GROUPS if tier == "quick" else [g + "@thorough" for g in GROUPS],
        "rule": "every primitive called on every operand tuple of its bounded domain and compared with ref.bv; "
                "every register field getter/setter compared with the architectural bit positions; "
                "state = one distinct input tuple",
        "bounds": {"widths": "1..8 complete" if tier == "quick" else "1..8 complete (shifts, saturation, extension: 1..10)",
                   "V32": [hex(v) for v in V32] + ([] if tier == "quick" else ["every 1<<i", "every ~(1<<i)"]),
                   "V64": [hex(v) for v in V64] + ([] if tier == "quick" else ["every 1<<i", "every ~(1<<i)"]),
                   "shift_amounts_32_64": "0..255", "modified_immediates": "all 2^12 x carry 0/1",
                   "register_backgrounds": ["0", "0xFFFFFFFF", "0x55555555", "0xAAAAAAAA"]},
        "exhaustive": True,
        "assumptions": ["32/64-bit operands are covered on the boundary alphabet only",
                        "ThumbExpandImm inputs the manual calls UNPREDICTABLE (replicated zero byte) are not compared"],
    }


class Cmp:
    def __init__(self, res):
        self.res = res

    def __call__(self, fn, got, exp, args, part=""):
        self.res.cases += 1
        self.res.transitions += 1
        self.res.add_state(hash((fn, args)))
        if got != exp:
            self.res.fail("%s%s" % (fn, (" " + part) if part else ""),
                          "%s%r returned %r, pseudocode gives %r" % (fn, args, got, exp),
                          {"call": fn, "args": list(args), "expected": repr(exp), "observed": repr(got)})
        else:
            self.res.outcome(fn)

    def call(self, fn, f, args, exp, part=""):
        try:
            got = f(*args)
        except Exception as e:  # noqa
            got = "raised %s" % type(e).__name__
        if isinstance(got, tuple):
            got = tuple(int(g) if isinstance(g, (bool, int)) else g for g in got)
        elif isinstance(got, bool):
            got = int(got)
        self(fn, got, exp, args, part)


def tup(*a):
    return tuple(int(x) if isinstance(x, bool) else x for x in a)


def run_shard(group):
    from armulator.armv6 import bits_ops as B, shift as S
    global V32, V64
    thorough = group.endswith("@thorough")
    group = group.split("@")[0]
    WMAX = 11 if thorough else 9
    if thorough and len(V32) < 40:
        V32 = V32 + [1 << i for i in range(32)] + [0xFFFFFFFF ^ (1 << i) for i in range(32)]
        V64 = V64 + [1 << i for i in range(64)] + [0xFFFFFFFFFFFFFFFF ^ (1 << i) for i in range(64)]
    res = Result()
    c = Cmp(res)
    T = {n: S.SRType[n] for n in ("LSL", "LSR", "ASR", "ROR", "RRX")}
    if group in ("awc_small", "awc_big"):
        if group == "awc_small":
            dom = ((x, y, ci, w) for w in range(1, 9) for x in range(1 << w) for y in range(1 << w) for ci in (0, 1))
        else:
            dom = itertools.chain(((x, y, ci, 32) for x in V32 for y in V32 for ci in (0, 1)),
                                  ((x, y, ci, 64) for x in V64 for y in V64 for ci in (0, 1)))
        for x, y, ci, w in dom:
            c.call("bits_ops.add_with_carry", B.add_with_carry, (x, y, ci, w), bv.add_with_carry(x, y, ci, w))
            if ci == 0:
                c.call("bits_ops.add", B.add, (x, y, w), (x + y) & bv.mask(w))
                c.call("bits_ops.sub", B.sub, (x, y, w), (x - y) & bv.mask(w))
        if group == "awc_big":
            for x in V32:
                for y in V32:
                    c.call("bits_ops.add_with_carry(default size)", B.add_with_carry, (x, y, 1),
                           bv.add_with_carry(x, y, 1, 32))
    elif group in ("shifts_small", "shifts_big"):
        if group == "shifts_small":
            dom = [(x, w, sh) for w in range(1, WMAX) for x in range(1 << w) for sh in range(0, 2 * w + 3)]
        else:
            dom = [(x, 32, sh) for x in V32 for sh in range(256)] + [(x, 64, sh) for x in V64 for sh in range(256)]
        for x, w, sh in dom:
            if sh > 0:
                c.call("shift.lsl_c", S.lsl_c, (x, w, sh), bv.lsl_c(x, w, sh))
                c.call("shift.lsr_c", S.lsr_c, (x, w, sh), bv.lsr_c(x, w, sh))
                c.call("shift.asr_c", S.asr_c, (x, w, sh), bv.asr_c(x, w, sh))
                c.call("shift.ror_c", S.ror_c, (x, w, sh), bv.ror_c(x, w, sh))
            c.call("shift.lsl", S.lsl, (x, w, sh), bv.lsl_c(x, w, sh)[0] if sh else x)
            c.call("shift.lsr", S.lsr, (x, w, sh), bv.lsr_c(x, w, sh)[0] if sh else x)
            c.call("shift.asr", S.asr, (x, w, sh), bv.asr_c(x, w, sh)[0] if sh else x)
            c.call("shift.ror", S.ror, (x, w, sh), bv.ror_c(x, w, sh)[0] if sh else x)
            if sh < 2:
                c.call("shift.rrx_c", S.rrx_c, (x, w, sh), bv.rrx_c(x, w, sh))
                c.call("shift.rrx", S.rrx, (x, w, sh), bv.rrx_c(x, w, sh)[0])
    elif group in ("shift_c_small", "shift_c_big"):
        if group == "shift_c_small":
            dom = [(x, w, am) for w in range(1, WMAX) for x in range(1 << w) for am in range(0, 2 * w + 3)]
        else:
            dom = [(x, 32, am) for x in V32 for am in range(256)] + [(x, 64, am) for x in V64 for am in range(256)]
        for x, w, am in dom:
            for ci in (0, 1):
                for t in ("LSL", "LSR", "ASR", "ROR", "RRX"):
                    if t == "RRX" and am != 1:
                        continue
                    exp = bv.shift_c(x, w, t, am, ci)
                    c.call("shift.shift_c", S.shift_c, (x, w, T[t], am, ci), exp, t)
                    c.call("shift.shift", S.shift, (x, w, T[t], am, ci), exp[0], t)
                    # carry passed as bool, as opcodes do
                    c.call("shift.shift_c(bool carry)", S.shift_c, (x, w, T[t], am, bool(ci)), exp, t)
    elif group == "extend_sat":
        for src in range(1, WMAX):
            for x in range(1 << src):
                c.call("bits_ops.to_signed", B.to_signed, (x, src), bv.sint(x, src))
                for dst in range(src, src + 9):
                    c.call("bits_ops.sign_extend", B.sign_extend, (x, src, dst), bv.sign_extend(x, src, dst))
            for i in range(-(1 << (src + 1)), (1 << (src + 1)) + 1):
                c.call("bits_ops.to_unsigned", B.to_unsigned, (i, src), i & bv.mask(src))
                s = bv.signed_sat_q(i, src)
                u = bv.unsigned_sat_q(i, src)
                c.call("bits_ops.signed_sat_q", B.signed_sat_q, (i, src), tup(*s))
                c.call("bits_ops.unsigned_sat_q", B.unsigned_sat_q, (i, src), tup(*u))
                c.call("bits_ops.signed_sat", B.signed_sat, (i, src), s[0])
                c.call("bits_ops.unsigned_sat", B.unsigned_sat, (i, src), u[0])
                c.call("bits_ops.sat_q", B.sat_q, (i, src, True), tup(*u), "unsigned")
                c.call("bits_ops.sat_q", B.sat_q, (i, src, False), tup(*s), "signed")
                c.call("bits_ops.sat", B.sat, (i, src, True), u[0], "unsigned")
                c.call("bits_ops.sat", B.sat, (i, src, False), s[0], "signed")
        for x in V32:
            c.call("bits_ops.to_signed", B.to_signed, (x, 32), bv.sint(x, 32))
            c.call("bits_ops.sign_extend", B.sign_extend, (x & 0xFFFF, 16, 32), bv.sign_extend(x & 0xFFFF, 16, 32))
            c.call("bits_ops.sign_extend", B.sign_extend, (x & 0xFF, 8, 32), bv.sign_extend(x & 0xFF, 8, 32))
            c.call("bits_ops.sign_extend", B.sign_extend, (x, 32, 64), bv.sign_extend(x, 32, 64))
        for n in (8, 16, 32):
            for i in [-(1 << n), -(1 << (n - 1)) - 1, -(1 << (n - 1)), -1, 0, 1, (1 << (n - 1)) - 1, 1 << (n - 1),
                      (1 << n) - 1, 1 << n, (1 << 40) + 5, -(1 << 40) - 5]:
                c.call("bits_ops.signed_sat_q", B.signed_sat_q, (i, n), tup(*bv.signed_sat_q(i, n)))
                c.call("bits_ops.unsigned_sat_q", B.unsigned_sat_q, (i, n), tup(*bv.unsigned_sat_q(i, n)))
    elif group == "bitfield":
        W = 8
        for x in range(1 << W):
            c.call("bits_ops.bit_count", B.bit_count, (x, 1, W), bv.bit_count(x), "ones")
            c.call("bits_ops.bit_count", B.bit_count, (x, 0, W), W - bv.bit_count(x), "zeros")
            c.call("bits_ops.lowest_set_bit_ref", B.lowest_set_bit_ref, (x, W), bv.lowest_set_bit(x, W))
            c.call("bits_ops.is_ones", B.is_ones, (x, W), int(x == 0xFF))
            c.call("bits_ops.bit_not", B.bit_not, (x, W), x ^ 0xFF)
            c.call("bits_ops.lower_chunk", B.lower_chunk, (x, 3), x & 7)
            for y in (1, 2, 4, 8):
                c.call("bits_ops.align", B.align, (x, y), bv.align(x, y))
            for i in range(W):
                c.call("bits_ops.bit_at", B.bit_at, (x, i), bv.bit(x, i))
                for v in (0, 1):
                    c.call("bits_ops.set_bit_at", B.set_bit_at, (x, i, v), (x & ~(1 << i)) | (v << i))
            for msb in range(W):
                for lsb in range(msb + 1):
                    c.call("bits_ops.substring", B.substring, (x, msb, lsb), bv.bits(x, msb, lsb))
        for x in (0, 0xFF, 0x55, 0xAA, 0x81):
            for msb in range(W):
                for lsb in range(msb + 1):
                    m = bv.mask(msb - lsb + 1)
                    for v in range(m + 1):
                        c.call("bits_ops.set_substring", B.set_substring, (x, msb, lsb, v),
                               (x & ~(m << lsb)) | (v << lsb))
        for hi in range(16):
            for lo in range(16):
                c.call("bits_ops.chain", B.chain, (hi, lo, 4), (hi << 4) | lo)
        for x in V64:
            for msb, lsb in ((63, 0), (63, 56), (39, 32), (47, 40), (55, 48), (31, 24), (40, 24), (63, 63), (32, 32)):
                c.call("bits_ops.substring", B.substring, (x, msb, lsb), bv.bits(x, msb, lsb), "64-bit")
                m = bv.mask(msb - lsb + 1)
                for v in {0, 1, m, m >> 1}:
                    c.call("bits_ops.set_substring", B.set_substring, (x, msb, lsb, v),
                           (x & ~(m << lsb)) | (v << lsb), "64-bit")
        for x in V32:
            c.call("bits_ops.bit_count", B.bit_count, (x, 1, 32), bv.bit_count(x), "ones")
            c.call("bits_ops.lowest_set_bit_ref", B.lowest_set_bit_ref, (x,), bv.lowest_set_bit(x, 32), "default")
            c.call("bits_ops.is_ones", B.is_ones, (x, 32), int(x == 0xFFFFFFFF))
            for y in (1, 2, 4, 8):
                c.call("bits_ops.align", B.align, (x, y), bv.align(x, y))
            for msb, lsb in ((31, 0), (31, 28), (27, 20), (15, 0), (11, 7), (0, 0), (31, 31), (19, 16), (6, 5)):
                c.call("bits_ops.substring", B.substring, (x, msb, lsb), bv.bits(x, msb, lsb))
                m = bv.mask(msb - lsb + 1)
                for v in {0, 1, m, m >> 1}:
                    c.call("bits_ops.set_substring", B.set_substring, (x, msb, lsb, v),
                           (x & ~(m << lsb)) | (v << lsb))
    elif group == "reverse":
        for x in range(256):
            c.call("bits_ops.big_endian_reverse", B.big_endian_reverse, (x, 1), x)
        for x in range(1 << 16):
            c.call("bits_ops.big_endian_reverse", B.big_endian_reverse, (x, 2), bv.big_endian_reverse(x, 2))
        for x in V32 + [0x01020304, 0x80FF7F01, 0xA1B2C3D4]:
            c.call("bits_ops.big_endian_reverse", B.big_endian_reverse, (x, 4), bv.big_endian_reverse(x, 4))
        for x in V64 + [0x0102030405060708, 0x80FF7F01A1B2C3D4]:
            c.call("bits_ops.big_endian_reverse", B.big_endian_reverse, (x, 8), bv.big_endian_reverse(x, 8))
    elif group == "immshift":
        for t in range(4):
            c.call("shift.decode_reg_shift", lambda t_: S.decode_reg_shift(t_).name, (t,), bv.decode_reg_shift(t))
            for imm5 in range(32):
                def f(t_, i_):
                    a, b = S.decode_imm_shift(t_, i_)
                    return a.name, b
                c.call("shift.decode_imm_shift", f, (t, imm5), bv.decode_imm_shift(t, imm5))
    elif group == "armimm":
        for imm12 in range(1 << 12):
            for ci in (0, 1):
                exp = bv.arm_expand_imm_c(imm12, ci)
                c.call("shift.arm_expand_imm_c", S.arm_expand_imm_c, (imm12, ci), exp)
            c.call("shift.arm_expand_imm", S.arm_expand_imm, (imm12,), exp[0])
    elif group == "thumbimm":
        for imm12 in range(1 << 12):
            for ci in (0, 1):
                v, co, unp = bv.thumb_expand_imm_c(imm12, ci)
                if unp:
                    res.outcome("unpredictable-skipped")
                    continue
                c.call("shift.thumb_expand_imm_c", S.thumb_expand_imm_c, (imm12, ci), (v, co))
            if not unp:
                c.call("shift.thumb_expand_imm", S.thumb_expand_imm, (imm12,), v)
    elif group in ("regviews_a", "regviews_b"):
        regviews(res, c, 0 if group == "regviews_a" else 1)
    return res.as_dict()


BGS = (0, 0xFFFFFFFF, 0x55555555, 0xAAAAAAAA)


def field_values(width):
    if width <= 8:
        return range(1 << width)
    m = (1 << width) - 1
    return sorted({0, 1, m, m >> 1, (m >> 1) + 1, 0x5555555555 & m, 0xAAAAAAAAAA & m} |
                  {1 << i for i in range(width)} | {m ^ (1 << i) for i in range(width)})


def gather(v, pos):
    return sum(((v >> p) & 1) << i for i, p in enumerate(pos))


def scatter(bg, pos, val):
    for i, p in enumerate(pos):
        bg = (bg & ~(1 << p)) | (((val >> i) & 1) << p)
    return bg


def regviews(res, c, half):
    import armulator.armv6.all_registers as pkg
    from armulator.armv6.all_registers.abstract_register import AbstractRegister
    from armulator.armv6.configurations import configurations
    from armulator.armv6.arm_v6 import ArmV6
    ArmV6()   # loads the default configuration so that register constructors find reset_values
    classes = {}
    for mi in pkgutil.iter_modules(pkg.__path__):
        m = importlib.import_module(pkg.__name__ + "." + mi.name)
        for name, obj in vars(m).items():
            if inspect.isclass(obj) and issubclass(obj, AbstractRegister) and obj is not AbstractRegister:
                classes[name] = obj
    names = sorted(classes)
    for idx, cname in enumerate(names):
        if idx % 2 != half:
            continue
        cls = classes[cname]
        try:
            reg = cls() if cname != "RGNR" else cls(12)
        except TypeError:
            res.count("classes_not_constructible")
            continue
        table = regfields.FIELDS.get(cname)
        props = [n for n, o in inspect.getmembers(cls) if isinstance(o, property)]
        for pname in props:
            prop = getattr(cls, pname)
            pos = table.get(pname) if table is not None else None
            if pname == "apsr" and cname == "CPSR":
                for bg in BGS + (0x12345678,):
                    reg.value = bg
                    c("CPSR.apsr get", reg.apsr, bg & 0xF80F0000, (hex(bg),))
                continue
            if pos is None:
                # a field the table does not know: only the generic view laws can be checked
                res.count("fields_without_architectural_entry")
                generic_field(res, c, reg, cname, pname, prop)
                continue
            for bg in BGS:
                reg.value = bg
                c("%s.%s get" % (cname, pname), int(prop.fget(reg)), gather(bg, pos), (hex(bg),))
                if prop.fset is None:
                    continue
                for v in field_values(len(pos)):
                    reg.value = bg
                    prop.fset(reg, v)
                    c("%s.%s set" % (cname, pname), reg.value, scatter(bg, pos, v), (hex(bg), v))
                if len(pos) == 1:
                    for v in (True, False):
                        reg.value = bg
                        prop.fset(reg, v)
                        c("%s.%s set(bool)" % (cname, pname), reg.value, scatter(bg, pos, int(v)), (hex(bg), v))
        # view histories: read every field (a view that memoises what it read is now primed), write one field, read
        # every field again - each must show the new register value, also the views that overlap the written one
        if table is not None:
            known = [(pn, getattr(cls, pn), table[pn]) for pn in props if table.get(pn) is not None]
            for wn, wprop, wpos in known:
                if wprop.fset is None:
                    continue
                for bg in BGS[:2]:
                    for v in (0, (1 << len(wpos)) - 1):
                        reg.value = bg
                        for rn, rprop, rpos in known:
                            rprop.fget(reg)
                        wprop.fset(reg, v)
                        now = scatter(bg, wpos, v)
                        for rn, rprop, rpos in known:
                            c("%s.%s get after %s set" % (cname, rn, wn), int(rprop.fget(reg)), gather(now, rpos), (hex(bg), v))
                        # ... and after the whole register is assigned again
                        reg.value = bg ^ 0xFFFFFFFF
                        for rn, rprop, rpos in known:
                            c("%s.%s get after value set" % (cname, rn), int(rprop.fget(reg)), gather(bg ^ 0xFFFFFFFF, rpos), (hex(bg),))
        for getter, setter, rng, posf in regfields.INDEXED.get(cname, []):
            if not hasattr(reg, getter):
                res.fail("%s.%s missing" % (cname, getter), "accessor not found")
                continue
            for n in rng:
                pos = posf(n)
                for bg in BGS:
                    reg.value = bg
                    c("%s.%s" % (cname, getter), int(getattr(reg, getter)(n)), gather(bg, pos), (n, hex(bg)))
                    for v in field_values(len(pos)):
                        reg.value = bg
                        getattr(reg, setter)(n, v)
                        c("%s.%s" % (cname, setter), reg.value, scatter(bg, pos, v), (n, hex(bg), v))
        for getter, setter, pos in regfields.WHOLE.get(cname, []):
            for bg in BGS:
                reg.value = bg
                c("%s.%s" % (cname, getter), int(getattr(reg, getter)()), gather(bg, pos), (hex(bg),))
                for v in field_values(len(pos)):
                    reg.value = bg
                    getattr(reg, setter)(v)
                    c("%s.%s" % (cname, setter), reg.value, scatter(bg, pos, v), (hex(bg), v))
        if cname == "RGNR":
            for nreg in (1, 2, 4, 8, 12, 16):
                rg = cls(nreg)
                width = max(1, (nreg - 1).bit_length())
                for bg in (0, 0xFFFFFFFF):
                    for v in range(nreg):
                        rg.value = bg
                        rg.set_region(v)
                        c("RGNR.set_region", rg.value & ((1 << width) - 1), v, (nreg, hex(bg), v))
                        c("RGNR.get_region", rg.get_region() & ((1 << width) - 1), v, (nreg, hex(bg), v))
                        c("RGNR.set_region other bits", rg.value >> 8, bg >> 8, (nreg, hex(bg), v))
        # item access laws of the base class on this instance
        for bg in BGS:
            reg.value = bg
            for i in (0, 1, 5, 15, 16, 30, 31):
                c("%s[i]" % cname, reg[i], (bg >> i) & 1, (hex(bg), i))
            for msb, lsb in ((31, 0), (31, 28), (15, 8), (4, 0)):
                c("%s[msb:lsb]" % cname, reg[msb:lsb], bv.bits(bg, msb, lsb), (hex(bg), msb, lsb))
    res.count("register_classes", len([n for i, n in enumerate(names) if i % 2 == half]))


def generic_field(res, c, reg, cname, pname, prop):
    """View laws for a field with no architectural table entry: the setter changes a fixed set of bits, the getter
    reads back what was written, independent of the background."""
    if prop.fset is None:
        return
    reg.value = 0
    try:
        prop.fset(reg, 1)
    except Exception:  # noqa
        return
    low = reg.value
    if low == 0:
        return
    for bg in BGS:
        reg.value = bg
        prop.fset(reg, 1)
        c("%s.%s set/get (no table entry)" % (cname, pname), int(prop.fget(reg)) & 1, 1, (hex(bg),))


def replay(doc):
    import armulator.armv6.bits_ops as B
    import armulator.armv6.shift as S
    r = doc["replay"]
    return "call %s%r expected %s observed %s" % (r.get("call"), tuple(r.get("args", [])), r.get("expected"),
                                                    r.get("observed"))
