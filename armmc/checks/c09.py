"""C09 - multiply / divide / saturating / packed-SIMD / extend / bit-field / pack / reverse instructions are bit-exact.

For every row of ref.rows_media (one per A1 / T1 / T2 encoding): register patterns (Rd=Rn, Rd=Rm, Ra=Rd, RdHi=Rn ...; the
ones the model classes UNPREDICTABLE are counted and skipped) x every option field (S, x/y halves, swap, round, every
rotation, every saturation position, every legal (lsb,width), shift amounts {0,1,15,31} both shift types) x operand
tuples over the lane alphabet (pairs; accumulator values from a sub-alphabet plus the accumulator that makes the result
an exact multiple of 2^32 / 2^64) x prior Q x prior GE x NZCV background x IT position x mode x architecture version.
Each instance is stepped on the real emulator and the WHOLE post-state compared with the model's prediction
(destination(s), N/Z, sticky Q, GE lanes, PC; everything else unchanged).  Divide-by-zero is also run on an ARMv7-R
configuration with SCTLR.DZ = 0 / 1 (Undefined Instruction exception expected when trapping is enabled)."""
import itertools

from ..runner import Result
from .. import machine, semcheck
from ..ref import rows_media
from ..ref.enc import A32, T16, T32, Table
from .c01 import V32

ID = "C09"
M32 = 0xFFFFFFFF
M64 = (1 << 64) - 1
LANE = list(V32) + [v for v in (0x7F7F7F7F, 0x80808080, 0x80008000, 0x007F0080, 0x7FFF8000, 0x80007FFF, 0x00010001, 0xFFFF0001,
                                0x0000FFFF, 0xFFFF0000) if v not in V32]
LANEQ = [0, 1, 0x10000, 0x7FFFFFFF, 0x80000000, 0xFFFFFFFF, 0x7FFF8000, 0x80007FFF, 0x80008000, 0x80808080, 0x7F7F7F7F, 0xFFFF0001,
         0x007F0080]
ACC32 = {"quick": [0, 1, 0x7FFFFFFF, 0x80000000, 0xFFFFFFFF],
         "thorough": [0, 1, 0x7FFFFFFF, 0x80000000, 0xFFFFFFFF, 0x10000, 0xFFFF0001, 0x7FFF8000]}
ACC64 = {"quick": [(0, 0), (0, 1), (0, 0xFFFFFFFF), (0x7FFFFFFF, 0xFFFFFFFF), (0x80000000, 0), (0xFFFFFFFF, 0xFFFFFFFF)],
         "thorough": [(h, l) for h in (0, 1, 0x7FFFFFFF, 0x80000000, 0xFFFFFFFF) for l in (0, 1, 0x7FFFFFFF, 0x80000000, 0xFFFFFFFF)]}
BACKGROUNDS = [(q, ge) for q in (0, 1) for ge in (0b0000, 0b1111, 0b1010)]
SHIFT_IMM5 = [0, 1, 15, 31]
TAGS = {n: 0x0BAD0000 + 0x111 * n for n in range(15)}
V4_ROWS = ("MulA1", "MlaA1", "UmullA1", "UmlalA1", "SmullA1", "SmlalA1", "MulT1")
DIV_ROWS = ("SdivA1", "SdivT1", "UdivA1", "UdivT1")
SCTLR_DZ = 1 << 19
PART = 24000        # approximate cases per shard (rows with many option combinations / operand tuples are split)

# (d, n, m, a): distinct / Rd=Rn / Rd=Rm / Rd=Ra / Rn=Rm / Ra=Rn / Ra=Rm / all equal / high / banked / SP / LR / PC
REGPATS = [(0, 1, 2, 3), (1, 1, 2, 3), (2, 1, 2, 3), (3, 1, 2, 3), (0, 1, 1, 3), (0, 1, 2, 1), (0, 1, 2, 2), (4, 4, 4, 4),
           (8, 9, 10, 11), (12, 14, 11, 10), (7, 6, 5, 4), (13, 1, 2, 3), (0, 13, 2, 3), (0, 1, 13, 3), (0, 1, 2, 13),
           (14, 1, 2, 3), (15, 1, 2, 3), (0, 15, 2, 3), (0, 1, 15, 3), (0, 1, 2, 15)]
# (h, l, n, m): distinct / RdHi=Rn / RdLo=Rn / RdHi=Rm / RdLo=Rm / Rn=Rm / RdHi=RdLo / ...
REGPATS_LONG = [(0, 1, 2, 3), (2, 1, 2, 3), (0, 2, 2, 3), (3, 1, 2, 3), (0, 3, 2, 3), (0, 1, 2, 2), (1, 1, 2, 3),
                (4, 5, 4, 5), (5, 4, 4, 4), (8, 9, 10, 11), (14, 12, 11, 10), (13, 1, 2, 3), (0, 13, 2, 3), (0, 1, 13, 3),
                (0, 1, 2, 13), (15, 1, 2, 3), (0, 15, 2, 3), (0, 1, 15, 3), (0, 1, 2, 15)]

_TABLE = None
_ENVS = {}


def table():
    global _TABLE
    if _TABLE is None:
        _TABLE = Table()
        _TABLE.add(*rows_media.ROWS)
    return _TABLE


def env(ver, r_profile=False):
    k = (ver, r_profile)
    if k not in _ENVS:
        cfg = {"arch_version": ver}
        if r_profile:
            cfg["is_armv7r_profile"] = True
        _ENVS[k] = semcheck.SemEnv(cfg)
    return _ENVS[k]


def plan(tier):
    rows = rows_media.ROWS
    shards = []
    for i, row in enumerate(rows):
        nparts = max(1, -(-estimate(row, tier) // PART))
        shards += [(i, tier, part, nparts) for part in range(nparts)]
    # heavy rows first (better packing on the worker pool); results are merged in shard order anyway
    shards.sort(key=lambda s: (-s[3], s[0], s[2]))
    return {
        "shards": shards,
        "rule": "for each of the %d multiply/divide/saturating/SIMD/extend/bit-field encoding rows: register patterns x "
                "option fields (S, halves, swap, round, rotation, saturation position, lsb/width, shift) x operand tuples "
                "x prior Q x prior GE x NZCV background x IT position x mode x arch version; state = (word, registers, "
                "flags, GE, mode, version)" % len(rows),
        "bounds": {"rows": len(rows), "operand_alphabet": [hex(v) for v in (LANEQ if tier == "quick" else LANE)],
                   "single_operand_alphabet": [hex(v) for v in LANE],
                   "accumulator_alphabet_32": [hex(v) for v in ACC32[tier]] + ["-(product) mod 2^32"],
                   "accumulator_alphabet_64": ["%#x:%08x" % hl for hl in ACC64[tier]] + ["-(product) mod 2^64"],
                   "prior_q_ge": ["Q=%d GE=%s" % (q, format(ge, "04b")) for q, ge in BACKGROUNDS],
                   "sel_ge": "all 16", "rotations": [0, 8, 16, 24], "saturation_positions": "all",
                   "bitfield": "boundary (lsb,width) subset" if tier == "quick" else "all 528 legal (lsb,width)",
                   "shift_imm5": SHIFT_IMM5, "versions": [6, 7], "versions_mul_flag_rule": [4, 5, 6, 7],
                   "divide": "ARMv7-R profile with SCTLR.DZ in {0,1} in addition",
                   "modes": ["svc", "usr", "fiq"] if tier == "quick" else ["svc", "usr", "fiq", "irq", "abt", "und", "sys"]},
        "exhaustive": True,
        "assumptions": ["32-bit operand values come from the lane/boundary alphabet", "cond = AL (conditions are C05)",
                        "instances the model classes UNPREDICTABLE are not executed",
                        "secondary register patterns are run on a diagonal of the operand alphabet"],
    }


def backgrounds(info):
    """prior Q x prior GE: the dimension the instruction can touch is enumerated in full for every operand tuple, the
    other one (frame condition only) rides along on a diagonal."""
    if info["uses_ge"]:
        return [(ge & 1, ge) for ge in range(16)]
    if "GE" in info["sets"]:
        return [(0, 0b0000), (1, 0b1111), (0, 0b1010)]
    if "Q" in info["sets"]:
        return [(0, 0b1010), (1, 0b0000), (0, 0b1111), (1, 0b1010)]
    return None


def estimate(row, tier):
    """Rough number of cases of the primary register pattern (used only to split heavy rows into several shards)."""
    info = rows_media.INFO[row.cls]
    nv = len(LANEQ if tier == "quick" else LANE)
    if len(info["reads"]) == 1 and not info["acc"]:
        nt = len(LANE)
    else:
        nt = nv ** len(info["reads"])
        if info["acc"] == "a":
            nt *= len(ACC32[tier]) + 1
        elif info["acc"]:
            nt *= len(ACC64[tier]) + 1
    bg = backgrounds(info)
    return len(option_combos(row, tier)) * nt * (len(bg) if bg else 1) * 2 * (3 if row.iset == T16 else 1)


# ------------------------------------------------------------------------------------------------- instance generation
def bitfield_pairs(tier, msb_form):
    """Legal (lsb, widthm1) or (lsb, msb) pairs."""
    out = []
    for lsb in range(32):
        for width in range(1, 33 - lsb):
            if tier == "quick":
                if lsb not in (0, 1, 15, 16, 30, 31):
                    continue
                if width not in (1, 2, 16, 31 - lsb, 32 - lsb):
                    continue
            out.append((lsb, lsb + width - 1) if msb_form else (lsb, width - 1))
    return out


def option_combos(row, tier):
    """List of dicts over the non-register fields."""
    letters = [l for l in row.fields if l not in "dnmahlc"]
    if "p" in row.fields:          # bit-field rows: 'l' is never RdLo there
        second = "b" if "b" in row.fields else "w"
        return [{"p": p, second: x} for p, x in bitfield_pairs(tier, second == "b")]
    choices = []
    for l in letters:
        w = row.field_width(l)
        if l in "SNMRTH":
            choices.append([0, 1])
        elif l in "rs":
            choices.append(list(range(1 << w)))
        elif l == "i":
            choices.append(SHIFT_IMM5)
        else:
            raise KeyError((row.cls, l))
    return [dict(zip(letters, c)) for c in itertools.product(*choices)]


def reg_patterns(row, info):
    longrow = "h" in row.fields
    pats = REGPATS_LONG if longrow else REGPATS
    order = "hlnm" if longrow else "dnma"
    letters = [l for l in order if l in row.fields]
    dup_n = "n" in row.fields and "n" not in info["reads"] and not longrow and "a" not in row.fields and \
        row.cls[:3] in ("Rev", "Rbi", "Clz")
    seen = set()
    out = []
    for pat in pats:
        regs = {}
        for l in letters:
            v = pat[order.index(l)]
            if row.field_width(l) == 3:
                v &= 7
            regs[l] = v
        if dup_n:
            regs["n"] = regs["m"]
        key = tuple(sorted(regs.items()))
        if key not in seen:
            seen.add(key)
            out.append(regs)
    if dup_n:
        out.append({"d": 0, "n": 1, "m": 2})        # inconsistent Rm copies: UNPREDICTABLE
    return out


def complement_acc(info, ops, x, y):
    """Accumulator value(s) making the accumulated result an exact multiple of 2^32 / 2^64 (zero after truncation)."""
    core, w = info["core"], info["accw"]
    if core is None or not w:
        return []
    p = core(ops, x, y)
    if w == 32:
        return [(p if info["accsub"] else -p) & M32]
    if w == 48:
        return [(-(p >> 16)) & M32]
    v = (-p) & M64
    return [(v >> 32, v & M32)]


def value_tuples(row, info, ops, tier, vals):
    """Full operand tuples for the primary register pattern: [(role letters, values)]."""
    reads = info["reads"]
    acc = info["acc"]
    if len(reads) == 1 and not acc:
        return reads, [(v,) for v in LANE]
    pairs = list(itertools.product(vals, vals)) if len(reads) == 2 else [(v,) for v in vals]
    if not acc:
        return reads, pairs
    out = []
    for pr in pairs:
        x, y = pr if len(pr) == 2 else (pr[0], pr[0])
        extra = complement_acc(info, ops, x, y)
        if acc == "a":
            accs = list(ACC32[tier])
            accs += [e for e in extra if e not in accs]
            out += [pr + (a,) for a in accs]
        else:
            accs = list(ACC64[tier])
            accs += [e for e in extra if e not in accs]
            out += [pr + hl for hl in accs]
    return reads + acc, out


def classify(diffs):
    name, model, impl = diffs[0]
    what = name.split("[")[0]
    if what == "R.PC":
        return "PC"
    if what == "cpsr" and isinstance(model, int) and isinstance(impl, int):
        x = model ^ impl
        if x & 0xF0000000:
            return "flags"
        if x & 0x08000000:
            return "Q"
        if x & 0x000F0000:
            return "GE"
        return "cpsr"
    if what.startswith("R."):
        return "result"
    return what


def run_case(e, word, row, f, mode, regvals, nzcvq, ge, it, extra):
    """SemEnv.run plus the finer comparison of the CPSR when the model marked it UNKNOWN as a whole but named the bits
    that really are UNKNOWN (ARMv4 flag-setting multiplies: C, and V for the long forms)."""
    holder = []
    diffs, out, inf = e.run(word, row, f, mode, regvals, nzcvq=nzcvq, ge=ge, it=it, extra=extra, model_hook=holder.append)
    if diffs is None:
        return diffs, out, inf
    st = holder[0]
    umask = getattr(st, "cpsr_unknown_mask", None)
    if umask is not None and not diffs and out[0] == "ok":
        impl_cpsr = e.cpu.registers.cpsr.value
        if (st.loc["cpsr"] ^ impl_cpsr) & ~umask & M32:
            # the UNKNOWN bits are shown with the implementation's value so that only real differences are visible
            diffs = [("cpsr", (st.loc["cpsr"] & ~umask) | (impl_cpsr & umask), impl_cpsr)]
    return diffs, out, inf


def run_shard(arg):
    idx, tier, part, nparts = arg
    res = Result()
    row = rows_media.ROWS[idx]
    info = rows_media.INFO[row.cls]
    vals = LANEQ if tier == "quick" else LANE
    modes = [machine.MODES[m] for m in (("svc", "usr", "fiq") if tier == "quick" else
                                         ("svc", "usr", "fiq", "irq", "abt", "und", "sys"))]
    thumb16 = row.iset == T16
    combos = option_combos(row, tier)
    pats = reg_patterns(row, info)
    bgs_full = backgrounds(info)
    flag_relevant = bgs_full is not None
    vers_all = (6, 7, 4, 5) if row.cls in V4_ROWS else (6, 7)     # ARMv4: C (and V) UNKNOWN after MULS / MLAS / long multiplies; ARMv5 and later: unchanged
    its_all = (0x00, 0xE8, 0xE4) if thumb16 else ((0x00, 0xE8) if row.iset == T32 else (0,))
    sec_budget = 300 if tier == "quick" else 3000
    tab = table()
    ninst = 0
    work = [0]

    def one(e, word, f, roles, values, q, ge, it, ver, extra=None, tag=""):
        mode = modes[(res.cases // 3) % len(modes)]
        regvals = dict(TAGS)
        regvals[13] = 0x10400
        regvals[14] = 0x10A00
        for l, v in zip(roles, values):
            r = f[l]
            if r != 15:
                regvals[r] = v & M32
        nzcv = 0b1001 if (res.cases & 1) else 0b0110
        if res.cases % 5 == 4:
            nzcv ^= 0b1111 if (res.cases & 2) else 0b0101
        nzcvq = (nzcv << 1) | q
        res.cases += 1
        res.add_state(hash((word, values, q, ge, nzcv, it, mode, ver, tag)))
        diffs, out, inf = run_case(e, word, row, f, mode, regvals, nzcvq, ge, it, extra)
        if diffs is None:
            res.outcome("model-unpredictable-skipped")
            return
        res.transitions += 1
        res.outcome(inf + tag)
        if diffs:
            used = {f[l] for l in "dnmahl" if l in f}
            res.fail("%s %s%s%s" % (row.cls, classify(diffs), tag, known_signature(row, f, regvals, diffs)),
                     semcheck.describe(row, f, word, mode, {k: v for k, v in regvals.items() if k in used},
                                       "nzcvq=%s ge=%s it=%#x v%d%s" % (format(nzcvq, "05b"), format(ge, "04b"), it, ver, tag)) +
                     " | model->impl: " + machine.fmt_diff(diffs),
                     {"cls": row.cls, "word": word, "fields": f, "mode": mode, "regvals": regvals, "nzcvq": nzcvq, "ge": ge,
                      "it": it, "ver": ver, "extra": extra, "r_profile": bool(tag)})

    for pi, regs in enumerate(pats):
        primary = pi == 0
        for ci, combo in enumerate(combos):
            f = dict(regs)
            f.update(combo)
            if row.cond:
                f["c"] = 0xE
            word = row.make(**f)
            hit = tab.lookup(row.iset, word)
            if hit is None or hit[0] is not row:
                res.outcome("other-encoding-skipped")
                continue          # the instance belongs to a more specific encoding listed earlier
            ctxs = [(ver, it) for ver in vers_all for it in its_all
                    if not (row.unpredictable is not None and row.unpredictable(
                        f, {"ver": ver, "in_it": bool(it & 0xF), "last_it": it & 0xF == 8, "C": 0}))]
            if not ctxs:
                res.outcome("model-unpredictable-skipped")
                continue
            ninst += 1
            ops = row.operands(f, {"ver": 6, "in_it": False, "last_it": False, "C": 0})
            roles, tuples = value_tuples(row, info, ops, tier, vals)
            if primary:
                for ver, it in ctxs:
                    e = env(ver)
                    full_ctx = (ver != 4 and it == 0) or thumb16
                    if full_ctx:
                        tl = tuples
                    else:                   # v4 / inside an IT block (32-bit Thumb): a stride of the tuples
                        tl = tuples[(ci % 7)::7] if len(tuples) > 40 else tuples
                    for ti, values in enumerate(tl):
                        work[0] += 1
                        if work[0] % nparts != part:
                            continue
                        if flag_relevant and full_ctx:
                            for q, ge in bgs_full:
                                one(e, word, f, roles, values, q, ge, it, ver)
                        else:
                            q, ge = BACKGROUNDS[(ti + ci) % len(BACKGROUNDS)]
                            one(e, word, f, roles, values, q, ge, it, ver)
            else:
                k = max(1, min(len(vals), sec_budget // max(1, len(combos))))
                n = len(tuples)
                step = max(1, n // k)
                start = (ci * 5 + pi) % step if step > 1 else 0
                sel = tuples[start::step][:k + 1]
                ver, it = ctxs[(ci + pi) % len(ctxs)]
                e = env(ver)
                for ti, values in enumerate(sel):
                    work[0] += 1
                    if work[0] % nparts != part:
                        continue
                    q, ge = BACKGROUNDS[(ti + ci + pi) % len(BACKGROUNDS)]
                    one(e, word, f, roles, values, q, ge, it, ver)
            # ---- divide: zero divisor with and without trapping on an ARMv7-R configuration
            if row.cls in DIV_ROWS and part == 0:
                e = env(7, True)
                base_sctlr = e.base[0][e.index["sctlr"]]
                for dz in (0, 1):
                    sctlr = (base_sctlr | SCTLR_DZ) if dz else (base_sctlr & ~SCTLR_DZ)
                    for x in vals:
                        for y in (0, 1, 0xFFFFFFFF):
                            for it in its_all:
                                q, ge = BACKGROUNDS[(res.cases) % len(BACKGROUNDS)]
                                one(e, word, f, "nm", (x, y), q, ge, it, 7, extra={"sctlr": sctlr}, tag=" v7R DZ=%d" % dz)
                # on a non-R configuration SCTLR bit 19 is WXN, not DZ: a zero divisor must never trap there
                e = env(7)
                base_sctlr = e.base[0][e.index["sctlr"]]
                for x in vals:
                    for it in its_all:
                        q, ge = BACKGROUNDS[(res.cases) % len(BACKGROUNDS)]
                        one(e, word, f, "nm", (x, 0), q, ge, it, 7, extra={"sctlr": base_sctlr | SCTLR_DZ}, tag=" non-R bit19=1")
    if part == 0:
        res.sample({"row": row.cls, "pattern": row.pat, "instances": ninst, "option_combos": len(combos),
                    "register_patterns": len(pats)})
    return res.as_dict()


def known_signature(row, f, regvals, diffs):
    """Narrows the key of a recorded finding to its exact manner, so that any OTHER wrong result of the same
    instruction is still reported under the plain key."""
    if row.cls in ("BfiA1", "BfiT1") and len(diffs) == 1 and diffs[0][0].startswith("R."):
        msb, lsb, d, n = f["b"], f["p"], f["d"], f["n"]
        if msb >= lsb and d != 15 and n != 15:
            width = msb - lsb + 1
            fm = ((1 << width) - 1) << lsb
            wrong = (regvals[d] & ~fm & 0xFFFFFFFF) | (regvals[n] & fm)      # Rn<msb:lsb> copied in place
            if diffs[0][2] == wrong:
                return " (inserts Rn<msb:lsb> instead of Rn<msb-lsb:0>)"
    return ""


def replay(doc):
    r = doc["replay"]
    e = env(r["ver"], bool(r.get("r_profile")))
    row = [x for x in rows_media.ROWS if x.cls == r["cls"]][0]
    f = {k: int(v) for k, v in r["fields"].items()}
    regvals = {int(k): v for k, v in r["regvals"].items()}
    extra = r.get("extra") or None
    diffs, out, info = run_case(e, r["word"], row, f, r["mode"], regvals, r["nzcvq"], r.get("ge", 0), r["it"], extra)
    return "%s word %#x -> %r %s\n model->impl: %s" % (r["cls"], r["word"], out, info, machine.fmt_diff(diffs or [], 40))
