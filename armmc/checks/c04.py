"""C04 - control flow: PC advance, PC reads, branch targets, link values and interworking, against the reference model.

(a) every branch row of ref.rows_branch (B A1/T1/T2/T3/T4, BL/BLX immediate A1/A2/T1/T2, BLX register, BX, BXJ, CBZ/CBNZ,
    TBB/TBH):
      B T1      all 2^8 offsets x 14 conditions x {flags that pass, flags that fail}
      B T2      all 2^11 offsets (outside an IT block; the offset alphabet also as last instruction of an IT block)
      CBZ/CBNZ  op x all 2^6 offsets x all 8 Rn x Rn {zero, non-zero}
      B T3 (20 offset bits), B T4 / BL T1 / BLX T2 / B A1 / BL A1 / BLX A2 (23..25 offset bits):
                quick    the offset alphabet: every walking-1, walking-0, +-2^k, +-2^k -+ 1, 0, -1, mixed patterns
                         (B T3: x the 14 conditions on a rotating diagonal, all 14 x pass/fail for eight offsets)
                thorough in addition ALL 2^20 / 2^24 encodings at address 0x10800, version 7, svc (register-file
                         comparison on every case, memory compared at the end of each shard of 2^16 encodings and in
                         full on every 256th case)
      BX / BLX (register) / BXJ   Rm x target {32-bit alphabet} x target<1:0> {00, 01, 10 (model: UNPREDICTABLE), 11}
      TBB / TBH  table entry {0, 1, 0x7F, 0xFF / 0x7FFF, 0xFFFF} x index x table placement (register base, unaligned,
                 wrapping through 2^32, Rn = PC) x CPSR.E
    x instruction address {0, 2/4, 0x10800, 0x10802, the last two slots below 2^32} (RAM exists at all three places)
    x architecture version 4..7 (only the versions the encoding exists in) x mode {svc, usr}.
(b) PC advance / PC read: one predictable instance that does not write the PC of EVERY row of every row module that
    exists (rows_dp, rows_media, rows_ldst, rows_block, rows_branch; branch rows with a failing condition), generated
    with small distinct low registers and S = 0, at each instruction address: the PC must have advanced by exactly 2 or
    4 modulo 2^32 and the whole post-state must agree with the model; and for every row that can name the PC as a
    source (Rn / Rm / Ra / Rs = PC, STR PC, STM/PUSH {..pc}; ADR and the literal loads read it anyway) the instances
    the model classes predictable: the value observed must be the instruction's own address + 8 (ARM) / + 4 (Thumb).
(c) ALU and load writes to the PC (MOV/ADD pc, LDR pc, POP/LDM {..pc}) x target alphabet x target<1:0> x version 4..7.

Keys: "<class> <what>[ negative-offset]" - the qualifier is attached when only backward offsets disagree."""
import itertools

from ..runner import Result
from .. import machine, semcheck, isa
from ..ref import bv, rows_branch
from ..ref import exc as rexc
from ..ref.enc import A32, T16, T32, Table
from ..ref.state import St, ModelStop, Unpredictable, phys

ID = "C04"
M32 = 0xFFFFFFFF
CODE = isa.CODE
SVC, USR = machine.MODES["svc"], machine.MODES["usr"]
MODES = (SVC, USR)
ADDRS = {
    # 0xFFFFFFC0: short FORWARD offsets (CBZ, B<c> T1) cross 2^32 from here (from 0xFFFFFFFC the PC value read is already 0)
    A32: [0x0, 0x4, 0x10800, 0xFFFFFFC0, 0xFFFFFFF8, 0xFFFFFFFC],
    T16: [0x0, 0x2, 0x10800, 0x10802, 0xFFFFFFC0, 0xFFFFFFFC, 0xFFFFFFFE],
    T32: [0x0, 0x2, 0x10800, 0x10802, 0xFFFFFFC0, 0xFFFFFFFA, 0xFFFFFFFC],
}
TAGS = {n: 0x0BAD0000 + 0x111 * n for n in range(13)}
TAGS[13] = 0x10400
TAGS[14] = 0x0BAD0EEE
BR = {r.cls: r for r in rows_branch.ROWS}
IMM_ROWS = ["BA1", "BlBlxImmediateA1", "BlBlxImmediateA2", "BT1", "BT2", "BT3", "BT4", "BlBlxImmediateT1",
            "BlBlxImmediateT2", "CbzT1"]
REG_ROWS = ["BxA1", "BxT1", "BlxRegisterA1", "BlxRegisterT1", "BxjA1", "BxjT1"]
WIDE = ["BA1", "BlBlxImmediateA1", "BlBlxImmediateA2", "BT3", "BT4", "BlBlxImmediateT1", "BlBlxImmediateT2"]
TARGET_BASES = [0x10900, 0x0, 0x4, 0xFFFC, 0x7FFFFFFC, 0x80000000, 0xFFFFF000, 0xFFFFFFFC, 0x55555554, 0xAAAAAAA8,
                0x12345678, 0xFFFF0000]
BLOCK = 1 << 16         # thorough: encodings per shard

_ENVS = {}
_TABLES = {}


def env(ver):
    if ver not in _ENVS:
        _ENVS[ver] = semcheck.SemEnv({"arch_version": ver})
    return _ENVS[ver]


def modules():
    """[(group name, module)] of every row module that exists."""
    import importlib
    out = []
    # rows_sys (MSR/MRS/CPS/SVC/hints/coprocessor ...) is exercised by C12 with its own generator: its rows mostly change
    # mode, take exceptions or have no reference semantics, and the generic instance builder below does not fit them
    for name in ("rows_dp", "rows_media", "rows_ldst", "rows_block", "rows_branch"):
        try:
            out.append((name, importlib.import_module("armmc.ref." + name)))
        except ImportError:
            pass
    return out


def table(modname, mod):
    if modname not in _TABLES:
        t = Table()
        t.add(*mod.ROWS)
        _TABLES[modname] = t
    return _TABLES[modname]


def versions(cls):
    return list(range(max(4, rows_branch.EXISTS_FROM[cls]), 8))


# ------------------------------------------------------------------------------------------------- offset encodings
def nbits(cls):
    """Number of encoding bits that make up the (logical, two's complement) offset of an immediate branch."""
    return {"BA1": 24, "BlBlxImmediateA1": 24, "BlBlxImmediateA2": 25, "BT1": 8, "BT2": 11, "BT3": 20, "BT4": 24,
            "BlBlxImmediateT1": 24, "BlBlxImmediateT2": 23, "CbzT1": 6}[cls]


def offset_fields(cls, v):
    """Fields of the instance whose logical offset (before scaling) is the nbits(cls)-bit value v.  Generator side
    only: a bijection between logical values and encodings, so enumerating all v enumerates all encodings."""
    if cls in ("BA1", "BlBlxImmediateA1", "BT1", "BT2", "CbzT1"):
        return {"i": v}
    if cls == "BlBlxImmediateA2":
        return {"i": v >> 1, "H": v & 1}
    if cls == "BT3":
        return {"S": v >> 19, "K": (v >> 18) & 1, "J": (v >> 17) & 1, "i": v & 0x1FFFF}
    if cls in ("BT4", "BlBlxImmediateT1"):
        s, i1, i2 = v >> 23, (v >> 22) & 1, (v >> 21) & 1
        return {"S": s, "J": (i1 ^ 1) ^ s, "K": (i2 ^ 1) ^ s, "i": v & 0x1FFFFF}
    if cls == "BlBlxImmediateT2":
        s, i1, i2 = v >> 22, (v >> 21) & 1, (v >> 20) & 1
        return {"S": s, "J": (i1 ^ 1) ^ s, "K": (i2 ^ 1) ^ s, "i": v & 0xFFFFF, "H": 0}
    raise KeyError(cls)


def alphabet(n):
    """Boundary alphabet over n-bit two's complement values: 0, -1, walking 1, walking 0, +-2^k, +-2^k -+ 1, mixed."""
    full = (1 << n) - 1
    out = [0, full]
    out += [1 << k for k in range(n)]
    out += [full ^ (1 << k) for k in range(n)]
    for k in range(n - 1):
        p = 1 << k
        out += [p - 1, (-p) & full, (-p - 1) & full, (p + 1) & full, (1 - p) & full]
    out += [0x555555 & full, 0xAAAAAAA & full, 0x123456 & full, 0xEDCBA9 & full, 0x00FF00 & full, 0xFF00FF & full]
    seen, res = set(), []
    for v in out:
        if v not in seen:
            seen.add(v)
            res.append(v)
    return res


def offsets_quick(cls):
    n = nbits(cls)
    out = alphabet(n)
    if cls in ("BlBlxImmediateT1", "BlBlxImmediateT2"):
        # offsets reachable with J1 = J2 = 1 (the only form before ARMv6T2): the (n-2)-bit alphabet, sign-extended
        out = out + [bv.sign_extend(v, n - 2, n) for v in alphabet(n - 2) if bv.sign_extend(v, n - 2, n) not in set(out)]
    return out


def flags_for(cond, want):
    """First NZCV value (fixed order) for which the condition holds / does not hold."""
    for nzcv in (0b0000, 0b0100, 0b1000, 0b0010, 0b0001, 0b1001, 0b0110, 0b1111, 0b1010, 0b0101, 0b0011, 0b1100):
        if bv.cond_holds(cond, nzcv >> 3, (nzcv >> 2) & 1, (nzcv >> 1) & 1, nzcv & 1) == want:
            return nzcv
    return None


# ------------------------------------------------------------------------------------------------- plan
def plan(tier):
    shards = [("a", "BxjA1", 6, 0, tier)]
    for cls in IMM_ROWS + REG_ROWS + ["TbbTbhT1"]:
        for ver in versions(cls):
            for ai in range(len(ADDRS[BR[cls].iset])):
                if (cls, ver, ai) != ("BxjA1", 6, 0):
                    shards.append(("a", cls, ver, ai, tier))
    nb = 0
    for modname, mod in modules():
        nb += len(mod.ROWS)
        for k in range(0, len(mod.ROWS), 12):
            shards.append(("b", modname, k, min(k + 12, len(mod.ROWS)), tier))
    for ver in (4, 5, 6, 7):
        shards.append(("c", ver, tier))
    shards.append(("seq", "arm", tier))
    shards.append(("seq", "thumb", tier))
    if tier != "quick":
        heavy = []
        for cls in WIDE:
            heavy += [("x", cls, j, tier) for j in range(sweep_total(cls) // BLOCK)]
        shards = heavy + shards
        shards.insert(0, shards.pop(len(heavy)))          # the small shard stays first (it is executed twice)
    return {
        "shards": shards,
        "rule": "(a) each of the 17 branch rows: offset encodings (B T1 2^8 x 14 cond x pass/fail, B T2 2^11, CBZ 2^6 x 8 Rn x "
                "zero/non-zero, 20..25-bit offsets: boundary alphabet%s) | register targets x target<1:0> | table entries, "
                "x instruction address x arch version x mode; (b) one non-PC-writing predictable instance of each of the "
                "%d rows of all row modules + PC-as-source variants, at each instruction address x version {6,7} x mode: "
                "PC advance by 2/4 modulo 2^32, PC reads as own address + 8/+ 4; (c) ALU / load writes to the PC x "
                "targets x versions 4..7; every case stepped on the emulator and the whole post-state compared with the "
                "model; state = (word, registers, flags, IT, mode, address, version, memory patch)" % (
                    " and ALL 2^20 / 2^24 encodings at one address and version" if tier != "quick" else "", nb),
        "bounds": {"branch_rows": len(BR), "rows_pc_advance": nb,
                   "addresses": {k: [hex(a) for a in v] for k, v in ADDRS.items()},
                   "versions": "4..7 where the encoding exists (rows_branch.EXISTS_FROM)", "modes": ["svc", "usr"],
                   "offset_alphabet_sizes": {c: len(offsets_quick(c)) for c in WIDE},
                   "exhaustive_offsets": ["BT1 2^8", "BT2 2^11", "CbzT1 2^6"] +
                   (["%s 2^%d" % (c, 20 if c == "BT3" else 24) for c in WIDE] if tier != "quick" else []),
                   "target_bases": [hex(t) for t in TARGET_BASES], "target_low_bits": ["00", "01", "10", "11"],
                   "table_entries": {"TBB": [0, 1, 0x7F, 0xFF], "TBH": [0, 1, 0x7F, 0xFF, 0x7FFF, 0xFFFF]}},
        "exhaustive": True,
        "assumptions": ["conditions: B T1 / B T3 all 14 x pass/fail; other rows AL plus one failing condition (C05 owns "
                        "conditional execution)", "MPU off, flat memory", "JMCR.JE = 0 (Jazelle not implemented)",
                        "instances the model classes UNPREDICTABLE (BXWritePC to address<1:0> = '10', branches inside IT "
                        "blocks other than last, BL/BLX halves with J1/J2 != 1 before version 6) are executed but not "
                        "compared", "thorough all-encodings sweep: one address (0x10800), version 7, svc, outside IT "
                        "blocks; BLX A2 takes H from imm24 (bit 0 xor bit 12) there"],
        "deadline_s": 300 if tier == "quick" else 2400,
    }


# ------------------------------------------------------------------------------------------------- case execution
class Agg:
    """Collects disagreements per (class, manner) within a shard so that the key can say whether only backward
    offsets are affected."""

    def __init__(self, res):
        self.res = res
        self.fails = {}          # (cls, what) -> [count, all_negative, detail, replay]
        self.pass_pos = set()    # classes with an agreeing non-negative offset

    def ok(self, cls, neg):
        if neg is False:
            self.pass_pos.add(cls)

    def fail(self, cls, what, neg, detail, replay):
        k = (cls, what)
        v = self.fails.get(k)
        if v is None:
            self.fails[k] = [1, neg is True, detail, replay]
        else:
            v[0] += 1
            v[1] = v[1] and neg is True

    def flush(self):
        for (cls, what), (n, allneg, detail, replay) in self.fails.items():
            key = "%s %s%s" % (cls, what, " negative-offset" if allneg and cls in self.pass_pos else "")
            self.res.fail(key, detail, replay)
            self.res.violations[key]["count"] += n - 1


def classify(diffs, out, mode):
    names = [d[0] for d in diffs]
    if names[0] == "step-outcome":
        return "raises %s@%s" % (out[1], out[2]) if out[0] == "host" else "step-" + str(out[0])
    d = {l: (m, i) for l, m, i in diffs}
    if "cpsr" in d:
        m, i = d["cpsr"]
        if isinstance(m, int) and isinstance(i, int):
            if (m ^ i) & 0x1F and i & 0x1F == 0x1B:
                return "takes-undefined"
            if (m ^ i) & 0x1F and m & 0x1F == 0x1B:
                return "misses-undefined"
            if (m ^ i) & 0x1F:
                return "mode"
    if "R.PC" in d:
        return "PC"
    if phys(14, mode) in d:
        return "LR"
    if "cpsr" in d:
        m, i = d["cpsr"]
        if isinstance(m, int) and isinstance(i, int) and (m ^ i) & 0x01000020:
            return "instr-set"
        if isinstance(m, int) and isinstance(i, int) and (m ^ i) & 0x0600FC00:
            return "ITSTATE"
        return "cpsr"
    if names[0].startswith("mem["):
        return "memory"
    if names[0].startswith("R."):
        return "other-register"
    return names[0]


def pc_hook(st):
    """Counts the model's reads of the PC (evidence for the PC-read half of (b))."""
    orig = st.R
    st.pc_reads = 0

    def R(n):
        if n == 15:
            st.pc_reads += 1
        return orig(n)
    st.R = R


def do_case(res, agg, sect, row, f, word, mode, regvals, nzcv, it, addr, ver, neg=None, mempatch=None, cpsr_or=0,
            note="", excl=False):
    """One case through SemEnv.run.  Returns the captured model state (or None when not compared)."""
    e = env(ver)
    res.cases += 1
    res.add_state(hash((sect, row.cls, word, mode, tuple(sorted(regvals.items())), nzcv, it, addr, ver, cpsr_or,
                        tuple(mempatch or ()))))
    cap = []

    def hook(st):
        cap.append(st)
        pc_hook(st)
        if excl:
            st.excl_pass = False
    diffs, out, info = e.run(word, row, f, mode, regvals, nzcvq=nzcv << 1, it=it, addr=addr, mempatch=mempatch,
                             cpsr_or=cpsr_or, model_hook=hook)
    if diffs and excl:
        cap2 = []

        def hook2(st):
            cap2.append(st)
            pc_hook(st)
            st.excl_pass = True
        d2, out2, info2 = e.run(word, row, f, mode, regvals, nzcvq=nzcv << 1, it=it, addr=addr, mempatch=mempatch,
                                cpsr_or=cpsr_or, model_hook=hook2)
        if d2 == []:
            diffs, out, info, cap = d2, out2, info2, cap2
    if diffs is None:
        res.outcome("%s model-unpredictable-skipped" % sect)
        return None
    res.transitions += 1
    st = cap[0]
    res.outcome("%s %s%s" % (sect, info, "" if st.pc_written or info != "ok" else " sequential"))
    if st.pc_reads:
        res.count("cases_reading_pc")
    if diffs:
        what = classify(diffs, out, mode)
        if row.cls == "CbzT1" and what == "PC" and len(diffs) == 1:
            # narrows the recorded finding to its exact manner: target = PC + 2 * architectural offset
            off = ((f["i"] << 5) | f["m"]) << 1 if "m" in f else None
            for cand in ([off] if off is not None else [(a << 1) for a in range(64)]):
                if diffs[0][2] == (addr + 4 + 2 * cand) & 0xFFFFFFFF and diffs[0][1] == (addr + 4 + cand) & 0xFFFFFFFF:
                    what = "PC (offset scaled by 4 instead of 2)"
                    break
        detail = semcheck.describe(row, f, word, mode, {k: v for k, v in regvals.items() if k in f.values() or k == 14},
                                   "addr=%#x nzcv=%s it=%#x v%d %s" % (addr, format(nzcv, "04b"), it, ver, note)) + \
            " | model->impl: " + machine.fmt_diff(diffs)
        agg.fail(row.cls, what, neg, detail,
                 {"sect": sect, "cls": row.cls, "group": row.group, "word": word, "fields": f, "mode": mode,
                  "regvals": regvals, "nzcv": nzcv, "it": it, "addr": addr, "ver": ver, "cpsr_or": cpsr_or,
                  "excl": excl, "mempatch": [(a, list(b)) for a, b in (mempatch or [])]})
    else:
        agg.ok(row.cls, neg)
    return st


# ------------------------------------------------------------------------------------------------- (a) immediate rows
def imm_cases(cls, tier):
    """Yields (fields, nzcv, it, neg, note) for one immediate-branch row."""
    n = nbits(cls)
    top = n - 1
    if cls == "BT1":
        for c in range(14):
            for want in (True, False):
                nzcv = flags_for(c, want)
                for v in range(256):
                    yield dict(offset_fields(cls, v), c=c), nzcv, 0, bool(v >> top), "cond=%d %s" % (c, "pass" if want else "fail")
        return
    if cls == "BT2":
        for v in range(1 << 11):
            yield offset_fields(cls, v), 0b0110 if v & 1 else 0b1001, 0, bool(v >> top), ""
        for v in alphabet(11):
            yield offset_fields(cls, v), 0b0000, 0xE8, bool(v >> top), "last-in-IT"
            yield offset_fields(cls, v), 0b0000, 0x08, bool(v >> top), "last-in-IT cond fails"
        return
    if cls == "CbzT1":
        nz = (1, 0x80000000, 0xFFFFFFFF, 0x100)
        for o in (0, 1):
            for v in range(64):
                for rn in range(8):
                    for val in (0, nz[(v + rn) % 4]):
                        yield dict(offset_fields(cls, v), o=o, n=rn, _val=val), 0b0100 if val else 0b0000, 0, None, "Rn=%#x" % val
        return
    offs = offsets_quick(cls)
    thumb = BR[cls].iset != A32
    for k, v in enumerate(offs):
        f = offset_fields(cls, v)
        neg = bool(v >> top)
        if cls == "BT3":
            c = k % 14
            yield dict(f, c=c), flags_for(c, True), 0, neg, "cond=%d pass" % c
            if k % 16 == 3:
                for c in range(14):
                    for want in (True, False):
                        yield dict(f, c=c), flags_for(c, want), 0, neg, "cond=%d %s" % (c, "pass" if want else "fail")
            continue
        if "c" in BR[cls].fields:
            f["c"] = 0xE
        yield f, 0b0110 if k & 1 else 0b1001, 0, neg, ""
        if thumb:
            yield f, 0b0000, 0xE8, neg, "last-in-IT"
        if k % 8 == 5:
            if thumb:
                yield f, 0b0000, 0x08, neg, "last-in-IT cond fails"
            elif "c" in f:
                yield dict(f, c=0x0), 0b0000, 0, neg, "cond fails"
                yield dict(f, c=0x1), 0b0000, 0, neg, "cond NE passes"
        if cls == "BlBlxImmediateT2" and k % 4 == 1:
            yield dict(f, H=1), 0b0000, 0, neg, "H=1 UNDEFINED"


def run_imm(res, agg, cls, ver, ai, tier):
    row = BR[cls]
    addr = ADDRS[row.iset][ai]
    n = 0
    for f, nzcv, it, neg, note in imm_cases(cls, tier):
        f = dict(f)
        regvals = dict(TAGS)
        val = f.pop("_val", None)
        if val is not None:
            regvals[f["n"]] = val
        word = row.make(**f)
        n += 1
        for mode in MODES:
            do_case(res, agg, "a", row, f, word, mode, regvals, nzcv, it, addr, ver, neg=neg, note=note)
    return n


# ------------------------------------------------------------------------------------------------- (a) register rows
def run_reg(res, agg, cls, ver, ai, tier):
    row = BR[cls]
    addr = ADDRS[row.iset][ai]
    thumb = row.iset != A32
    regs_full = [1, 14]
    regs_diag = [0, 7, 8, 12, 13] + ([15] if cls in ("BxA1", "BxT1") else [])
    targets = [(b, low) for b in TARGET_BASES for low in range(4)]
    its = (0, 0xE8) if thumb else (0,)
    n = 0

    def one(m, tv, it, nzcv, extra_f=None, note=""):
        f = {"m": m}
        if "c" in row.fields:
            f["c"] = 0xE
        if extra_f:
            f.update(extra_f)
        regvals = dict(TAGS)
        if m != 15:
            regvals[m] = tv
        word = row.make(**f)
        for mode in MODES:
            do_case(res, agg, "a", row, f, word, mode, regvals, nzcv, it, addr, ver,
                    note="target=%#x %s" % (tv if m != 15 else 0, note))

    for m in regs_full:
        for (b, low), it in itertools.product(targets, its):
            n += 1
            one(m, (b & ~3) | low, it, 0b0110 if low & 1 else 0b1001)
    for j, m in enumerate(regs_diag):
        if m == 15:
            for it in its:
                n += 1
                one(15, 0, it, 0)
            continue
        for k in range(8):
            b, low = targets[(5 * k + 7 * j) % len(targets)]
            n += 1
            one(m, (b & ~3) | low, its[(k + j) % len(its)], 0b0000)
    # a failing condition (NOP: PC advances, LR unchanged) and its passing counterpart
    for low in range(4):
        tv = 0x10900 | low
        if thumb:
            one(1, tv, 0x08, 0b0000, note="last-in-IT cond fails")
            one(1, tv, 0x08, 0b0100, note="last-in-IT cond EQ passes")
        else:
            one(1, tv, 0, 0b0000, {"c": 0}, note="cond fails")
            one(1, tv, 0, 0b0100, {"c": 0}, note="cond EQ passes")
        n += 2
    return n


# ------------------------------------------------------------------------------------------------- (a) table branch
def patch_bytes(addr, value, size, big):
    data = value.to_bytes(size, "big" if big else "little")
    return [((addr + i) & M32, bytes([data[i]])) for i in range(size)]


def run_tbb(res, agg, ver, ai, tier):
    row = BR["TbbTbhT1"]
    addr = ADDRS[T32][ai]
    n = 0
    for H in (0, 1):
        entries = [0, 1, 0x7F, 0xFF] + ([0x7FFF, 0xFFFF] if H else [])
        size = 2 if H else 1
        # (Rn, Rm, base value or None for Rn = PC, index values)
        places = [(1, 2, 0x10100, (0, 1, 5)), (14, 0, 0x10101, (0, 3)), (1, 2, 0xFFFFFFFE, (0, 1)), (15, 2, None, (0, 1, 5)),
                  (3, 3, 0x40, (0x40,))]
        for (rn, rm, base, idxs), entry, E in itertools.product(places, entries, (0, 1)):
            if E and not H:
                continue
            for idx in idxs:
                f = {"n": rn, "m": rm, "H": H}
                regvals = dict(TAGS)
                if base is None:
                    b = (addr + 4) & M32
                else:
                    b = base
                    regvals[rn] = base
                regvals[rm] = idx
                if rn == rm:
                    b = idx
                ea = (b + idx * size) & M32
                # entry placed where the model is expected to read it (generator side); never over the instruction
                patch = patch_bytes(ea, entry, size, E)
                if any(((a - addr) & M32) < 4 for a, _ in patch):
                    continue
                word = row.make(**f)
                n += 1
                for mode, it in ((SVC, 0), (USR, 0xE8)):
                    do_case(res, agg, "a", row, f, word, mode, regvals, 0b0110, it, addr, ver, mempatch=patch, cpsr_or=E << 9,
                            note="entry=%#x at %#x E=%d" % (entry, ea, E))
        f = {"n": 1, "m": 2, "H": H}
        regvals = dict(TAGS)
        regvals[1], regvals[2] = 0x10100, 1
        do_case(res, agg, "a", row, f, row.make(**f), SVC, regvals, 0b0000, 0x08, addr, ver,
                mempatch=patch_bytes(0x10100 + size, 0x10, size, 0), note="last-in-IT cond fails")
    return n


# ------------------------------------------------------------------------------------------------- thorough: all encodings
class RecDict(dict):
    """Location dict that records which locations the model wrote."""
    __slots__ = ("touched",)

    def __setitem__(self, k, v):
        self.touched.add(k)
        dict.__setitem__(self, k, v)


def sweep_total(cls):
    return 1 << (20 if cls == "BT3" else 24)


def raw_fields(cls, x):
    """Fields for raw encoding number x of the all-encodings sweep."""
    if cls == "BlBlxImmediateT2":
        return dict(offset_fields(cls, x >> 1), H=x & 1), bool(x >> 23)
    if cls == "BlBlxImmediateA2":
        return {"i": x, "H": (x ^ (x >> 12)) & 1}, bool(x >> 23)
    f = offset_fields(cls, x)
    return f, bool(x >> (nbits(cls) - 1))


def run_all_encodings(res, agg, cls, j, tier):
    """Shard j of the all-encodings sweep of one wide immediate branch at CODE, version 7, svc: the encodings
    x = j + k * (total / BLOCK), k = 0 .. BLOCK-1 (a stride, so that every shard sees both signs and all sizes).
    Light path: only the registers are restored and compared per case (the model's own register writes are undone
    selectively); the memory image is compared at the end of the shard, and every 256th case takes the full path."""
    nsh = sweep_total(cls) // BLOCK
    lo = j
    ver = 7
    e = env(ver)
    row = BR[cls]
    plan, cpu, names, index = e.plan, e.cpu, e.names, e.index
    thumb = row.iset != A32
    cond = {"c": 0xE} if (row.iset == A32 and "c" in row.fields) else {}
    f0, _ = raw_fields(cls, lo)
    f0.update(cond)
    if cls == "BT3":
        f0["c"] = 0
    mode = SVC
    nzcv = 0b0100               # B T3 takes its condition from the encoding number: some pass, some fail
    pre = e.install(row.make(**f0), row, mode, dict(TAGS), nzcv << 1, 0, 0, CODE)
    pre_mem = plan.mem()
    base_loc = dict(zip(names, pre))
    setters = {}
    for k in plan.rkeys:
        setters["R." + k.name] = (lambda R, kk: (lambda v: R.__setitem__(kk, v)))(plan.R, k)
    for nme in plan.objs:
        setters[nme] = (lambda o: (lambda v: setattr(o, "value", v)))(plan.regs_dict[nme])
    ctx = {"ver": ver, "in_it": False, "last_it": False, "C": (nzcv >> 1) & 1}
    cfg = e.fullcfg
    for k in range(BLOCK):
        x = j + k * nsh
        f, neg = raw_fields(cls, x)
        if cond:
            f.update(cond)
        if cls == "BT3":
            c = (x ^ (x >> 7)) % 14
            f["c"] = c
        word = row.make(**f)
        if k & 0xFF == 0x5A:
            do_case(res, agg, "x", row, f, word, mode, dict(TAGS), nzcv, 0, CODE, ver, neg=neg, note="full path")
            plan.restore((pre, pre_mem))
            continue
        res.cases += 1
        res.add_state(hash(("x", cls, word)))
        machine.put_instr(cpu, CODE, word, thumb, row.width)
        out = machine.step(cpu)
        post = plan.regs()
        # ---- model
        st = St.__new__(St)
        loc = RecDict(base_loc)
        loc.touched = set()
        st.loc = loc
        st.mem = None
        st.cfg = cfg
        st.ver = ver
        st.unknown = set()
        st.mem_unknown = set()
        st.pc_written = False
        st.ilen = row.width // 8
        st.hooks = []
        stop = None
        try:
            if row.unpredictable(f, ctx):
                raise Unpredictable("row")
            ops = row.operands(f, ctx)
            try:
                row.sem(st, ops, f)
                st.finish()
            except ModelStop as ms:
                stop = ms
                rexc.take(st, ms)
        except Unpredictable:
            res.outcome("x model-unpredictable-skipped")
            plan.restore_regs(pre)
            continue
        res.transitions += 1
        exp = list(pre)
        for k in loc.touched:
            exp[index[k]] = loc[k]
        if out[0] == "ok" and tuple(exp) == post:
            res.outcome("x " + (stop.kind if stop else "ok"))
            agg.ok(cls, neg)
            try:
                for k in loc.touched:
                    setters[k](base_loc[k])
                plan.reset_scratch()
            except KeyError:
                plan.restore_regs(pre)
            continue
        if out[0] != "ok":
            diffs = [("step-outcome", "completes" if stop is None else stop.kind, out)]
        else:
            diffs = [(nme, a, b) for nme, a, b in zip(names, exp, post) if a != b]
        what = classify(diffs, out, mode)
        agg.fail(cls, what, neg, semcheck.describe(row, f, word, mode, {}, "addr=%#x nzcv=%s v%d all-encodings sweep" % (
            CODE, format(nzcv, "04b"), ver)) + " | model->impl: " + machine.fmt_diff(diffs),
            {"sect": "a", "cls": cls, "group": row.group, "word": word, "fields": f, "mode": mode, "regvals": dict(TAGS),
             "nzcv": nzcv, "it": 0, "addr": CODE, "ver": ver, "cpsr_or": 0, "excl": False, "mempatch": []})
        plan.restore_regs(pre)
    # memory must be what it was, apart from the instruction slot
    machine.put_instr(cpu, CODE, row.make(**f0), thumb, row.width)
    if plan.mem() != pre_mem:
        res.fail("%s memory (all-encodings sweep)" % cls, "memory image changed while sweeping encodings %#x + k * %#x" % (j, nsh),
                 {"sect": "xmem", "cls": cls, "lo": j})


# ------------------------------------------------------------------------------------------------- (b) PC advance / read
REGSETS = [
    dict(d=0, n=1, m=2, t=3, T=4, a=5, h=6, l=7, s=3),
    dict(d=0, n=1, m=2, t=4, T=5, a=3, h=6, l=7, s=3),          # even Rt (ARM doubleword forms)
    dict(d=0, n=2, m=2, t=4, T=5, a=3, h=6, l=7, s=3),          # duplicated Rm field (REV / CLZ / RBIT T2 ...)
    dict(d=0, n=1, m=8, t=3, T=4, a=5, h=6, l=7, s=3),          # high Rm (CMP T2)
]
PUWS = [(1, 1, 0), (1, 0, 0), (0, 1, 1), (1, 1, 1)]


def lookup(tab, row, word):
    """Row the module's table maps the word to.  The ARM cond = 1111 space is a separate table (A5.1): conditional
    rows do not match there (some row modules list unconditional rows after conditional ones they overlap with)."""
    if row.iset == A32 and (word >> 28) == 0xF:
        for r in tab.rows[A32]:
            if not r.cond and (word & r.mask) == r.value and (r.guard is None or r.guard(r.extract(word))):
                return r
        return None
    hit = tab.lookup(row.iset, word)
    return hit[0] if hit else None


EXCEPTION_RETURNS = ("RfeA1", "RfeT1", "RfeT2", "LdmExceptionReturnA1")     # end in an unconditional write of the PC


def base_fields(row, regs, puw, fail, imm=0):
    f = {}
    fl = row.fields
    for l, pos in fl.items():
        w = len(pos)
        if l == "c":
            f[l] = 0xE if (row.iset == A32 and not fail) else 0x0      # B T1 / T3: EQ, the flags (Z = 0) make it fail
        elif row.group == "block" and l == "r":
            f[l] = 0b1100 & ((1 << w) - 1)
        elif row.group == "block" and l == "m" and w == 5:
            f[l] = SVC
        elif l in regs and w >= 3:
            f[l] = regs[l] & ((1 << w) - 1)
        elif l == "P" and w == 1:
            f[l] = puw[0] if "U" in fl else 0
        elif l == "U" and w == 1:
            f[l] = puw[1] if "P" in fl else 1
        elif l == "W" and w == 1:
            f[l] = puw[2] if "P" in fl else 0
        elif l in "ij" and row.group != "branch":
            f[l] = imm                # immediates: 0 first, then 1 (LSL / ROR #0 are MOV / RRX, other rows)
        else:
            f[l] = 0
    return f


def attempts(row):
    """(fields, it, nzcv) candidates for a predictable instance, plain ones first, failing-condition ones last."""
    seen = set()
    for fail in ((False, True) if row.group == "branch" else (False,)):     # only the branch model evaluates conditions
        for regs, imm in [(r, 0) for r in REGSETS] + [(REGSETS[0], 1)]:
            for puw in (PUWS if "P" in row.fields and "U" in row.fields else PUWS[:1]):
                f = base_fields(row, regs, puw, fail, imm)
                it = 0
                if fail and row.iset != A32 and "c" not in row.fields:
                    it = 0x08
                if fail and row.iset == A32 and "c" not in row.fields:
                    continue
                key = (tuple(sorted(f.items())), it)
                if key in seen:
                    continue
                seen.add(key)
                yield f, it, 0b0000           # Z = 0: EQ fails
            if row.group == "branch":
                break


def b_regvals(f, row):
    """Registers keep the base file (pointers into RAM at 0x10100 + 0x40 n); offsets / shift amounts are small."""
    rv = {}
    if "m" in f and len(row.fields["m"]) >= 3 and not (row.group == "block"):
        if f["m"] != 15 and f["m"] != f.get("n"):
            rv[f["m"]] = 8
    if "s" in f and len(row.fields["s"]) == 4 and row.group == "dp":
        rv[f["s"]] = 1
    return rv


def find_instance(res, row, tab, ver):
    """First attempt the table maps to this row, the model classes predictable and that does not write the PC."""
    wrote_pc = False
    ntry = 0
    for f, it, nzcv in attempts(row):
        word = row.make(**f)
        if lookup(tab, row, word) is not row:
            continue
        ctx = {"ver": ver, "in_it": bool(it & 0xF), "last_it": it & 0xF == 8, "C": 0}
        if row.unpredictable is not None and row.unpredictable(f, ctx):
            continue
        ntry += 1
        if ntry > 10:
            break
        st = model_only(row, f, word, it, nzcv, ver)
        if st is None:
            continue
        if st == "stop" or st.pc_written:
            wrote_pc = True
            continue
        return (f, word, it, nzcv), False
    return None, wrote_pc


def model_only(row, f, word, it, nzcv, ver):
    """Runs only the reference model at CODE in svc (selection of instances must not depend on the implementation)."""
    e = env(ver)
    pre = e.install(word, row, SVC, b_regvals(f, row), nzcv << 1, 0, it, CODE)
    st = St(e.names, pre, e.plan.mem(), e.fullcfg)
    st.ilen = row.width // 8
    ctx = {"ver": ver, "in_it": st.in_it_block(), "last_it": st.last_in_it_block(), "C": st.C}
    try:
        ops = row.operands(f, ctx)
        row.sem(st, ops, f)
        st.finish()
    except ModelStop as ms:
        return None if ms.kind == "notimpl" else "stop"
    except Unpredictable:
        return None
    return st


def pc_source_variants(row, tab, f, ver):
    """Field dicts naming the PC as a source register, where the table still maps to this row and the row's
    predicate does not class the instance UNPREDICTABLE."""
    out = []
    cands = []
    for l in ("n", "m", "a", "s"):
        if l in row.fields and len(row.fields[l]) == 4 and not (row.group == "block" and l == "m") and \
                not (row.group == "media" and l == "s"):
            cands.append({l: 15})
    if "t" in row.fields and len(row.fields["t"]) == 4 and ((row.cls.startswith("Str") and row.group == "ldst") or
                                                            (row.cls.startswith("Push") and row.group == "block")):
        cands.append({"t": 15})
    if row.group == "block" and "r" in row.fields and len(row.fields["r"]) == 16 and row.cls.startswith(("Stm", "Push")):
        cands.append({"r": f["r"] | 0x8000})
    if "D" in row.fields and "d" in row.fields and row.iset == T16 and "m" in row.fields and len(row.fields["m"]) == 4:
        pass            # Rm = PC is covered by the 'm' candidate; Rdn = PC would write the PC
    for c in cands:
        f2 = dict(f)
        f2.update(c)
        word = row.make(**f2)
        if lookup(tab, row, word) is not row:
            continue
        if row.unpredictable is not None and row.unpredictable(f2, {"ver": ver, "in_it": False, "last_it": False, "C": 0}):
            continue
        out.append((f2, word, list(c)[0]))
    return out


def run_b(res, agg, modname, k0, k1, tier):
    mod = dict(modules())[modname]
    tab = table(modname, mod)
    for row in mod.ROWS[k0:k1]:
        excl = row.cls.startswith("Strex")
        if row.operands is None or row.sem is None or row.notimpl:
            res.count("b_rows_without_reference_semantics")
            res.count("b_no_semantics:" + row.cls)
            continue
        inst, wrote_pc = find_instance(res, row, tab, 7)
        if inst is None:
            wrote_pc = wrote_pc or row.cls in EXCEPTION_RETURNS
            res.count("b_rows_always_writing_pc" if wrote_pc else "b_rows_skipped_no_predictable_instance")
            res.count(("b_always_writes_pc:" if wrote_pc else "b_skipped:") + row.cls)
            continue
        res.count("b_rows_with_instance")
        f, word, it, nzcv = inst
        addrs = ADDRS[row.iset]
        seq = 0
        for ver in (7, 6):
            for addr, mode in itertools.product(addrs, MODES):
                st = do_case(res, agg, "b", row, f, word, mode, b_regvals(f, row), nzcv, it, addr, ver, excl=excl, note="PC advance")
                if st is not None and not st.pc_written:
                    seq += 1
                    # the advance itself, stated explicitly (the model's finish() is addr + length modulo 2^32)
                    if st.loc["R.PC"] != (addr + row.width // 8) & M32:
                        res.fail("model self-check: sequential PC", "%s at %#x" % (row.cls, addr))
        if seq:
            res.count("b_rows_pc_advance_compared")
        res.sample({"row": row.cls, "word": hex(word), "it": it, "sequential_cases": seq}, 3)
        # ---- PC as a source
        if it:
            continue
        nsrc = 0
        for f2, word2, letter in pc_source_variants(row, tab, f, 7):
            st = model_only(row, f2, word2, 0, nzcv, 7)
            if st is None or st == "stop":
                continue
            nsrc += 1
            for ver in (7, 6):
                for addr, mode in itertools.product(addrs, MODES):
                    do_case(res, agg, "b", row, f2, word2, mode, b_regvals(f2, row), nzcv, 0, addr, ver, excl=excl,
                            note="PC as source (%s)" % letter)
        if nsrc:
            res.count("b_rows_with_pc_source_variant")
            res.count("b_pc_source_instances", nsrc)


# ------------------------------------------------------------------------------------------------- (c) ALU / load PC writes
def c_specs():
    """(module name, class, fields, setup(addr, target) -> (regvals, mempatch))."""
    def word_patch(a, v):
        return [(a, v.to_bytes(4, "little"))]
    S = []
    S.append(("rows_dp", "MovRegisterArmA1", dict(c=14, S=0, d=15, m=1), lambda a, t: ({1: t}, None)))
    S.append(("rows_dp", "AddRegisterArmA1", dict(c=14, S=0, d=15, n=1, m=2, i=0, t=0),
              lambda a, t: ({1: (t - 4) & M32, 2: 4}, None)))
    S.append(("rows_dp", "AddRegisterArmA1", dict(c=14, S=0, d=15, n=15, m=2, i=0, t=0),
              lambda a, t: ({2: (t - a - 8) & M32}, None)))
    S.append(("rows_dp", "MovRegisterThumbT1", dict(D=1, d=7, m=1), lambda a, t: ({1: t}, None)))
    S.append(("rows_dp", "AddRegisterThumbT2", dict(D=1, d=7, m=1), lambda a, t: ({1: (t - a - 4) & M32}, None)))
    # ADD pc,sp,pc (ADD (SP plus register) T1 with Rdm = PC) and the ARM SP-plus-register / immediate forms
    S.append(("rows_dp", "AddSpPlusRegisterThumbT1", dict(D=1, d=7), lambda a, t: ({13: (t - a - 4) & M32}, None)))
    S.append(("rows_dp", "AddSpPlusRegisterArmA1", dict(c=14, S=0, d=15, m=2, i=0, t=0), lambda a, t: ({13: (t - 4) & M32, 2: 4}, None)))
    S.append(("rows_dp", "AddSpPlusImmediateA1", dict(c=14, S=0, d=15, i=4), lambda a, t: ({13: (t - 4) & M32}, None)))
    S.append(("rows_dp", "SubImmediateArmA1", dict(c=14, S=0, d=15, n=1, i=4), lambda a, t: ({1: (t + 4) & M32}, None)))
    S.append(("rows_ldst", "LdrImmediateArmA1", dict(c=14, P=1, U=1, W=0, n=1, t=15, i=0),
              lambda a, t: ({1: 0x10100}, word_patch(0x10100, t))))
    S.append(("rows_ldst", "LdrImmediateThumbT3", dict(n=1, t=15, i=4), lambda a, t: ({1: 0x10100}, word_patch(0x10104, t))))
    S.append(("rows_block", "PopArmA1", dict(c=14, r=0x8001), lambda a, t: ({13: 0x10400}, word_patch(0x10404, t))))
    S.append(("rows_block", "PopThumbT1", dict(P=1, r=0x01), lambda a, t: ({13: 0x10400}, word_patch(0x10404, t))))
    S.append(("rows_block", "LdmArmA1", dict(c=14, W=1, n=1, r=0x8004), lambda a, t: ({1: 0x10100}, word_patch(0x10104, t))))
    S.append(("rows_block", "PopThumbT3", dict(t=15), lambda a, t: ({13: 0x10400}, word_patch(0x10400, t))))
    return S


def run_c(res, agg, ver, tier):
    mods = dict(modules())
    for modname, cls, f, setup in c_specs():
        if modname not in mods:
            continue
        rows = [r for r in mods[modname].ROWS if r.cls == cls]
        if not rows:
            continue
        row = rows[0]
        word = row.make(**f)
        hit = table(modname, mods[modname]).lookup(row.iset, word)
        if hit is None or hit[0] is not row:
            res.outcome("c %s: instance belongs to another row" % cls)
            continue
        thumb = row.iset != A32
        addrs = ADDRS[row.iset]
        k = 0
        for b in TARGET_BASES[:8]:
            for low in range(4):
                t = (b & ~3) | low
                for it in ((0, 0xE8) if thumb else (0,)):
                    k += 1
                    addr = addrs[k % len(addrs)] if low != 2 else CODE
                    regvals = dict(TAGS)
                    rv, patch = setup(addr, t)
                    regvals.update(rv)
                    do_case(res, agg, "c", row, f, word, MODES[k % 2], regvals, 0b0110, it, addr, ver, mempatch=patch,
                            note="target=%#x" % t)


# ------------------------------------------------------------------------------------------------- shard driver
SEQ_ARM = [("B .+4 (taken, to the next instruction)", 32, 0xEAFFFFFF), ("BNE .+8 (not taken)", 32, 0x1A000000),
           ("MOVNE r0,#1 (condition fails)", 32, 0x13A00001), ("MOVEQ r1,#2 (passes)", 32, 0x03A01002),
           ("BX r6 (to the next instruction)", 32, 0xE12FFF16), ("NOP", 32, 0xE320F000), ("LDRNE r2,[r3] (fails)", 32, 0x15932000),
           ("MOV pc,r6", 32, 0xE1A0F006)]
SEQ_THUMB = [("B .+2 (taken, to the next instruction)", 16, 0xE7FF), ("BNE (not taken)", 16, 0xD100), ("ITE NE", 16, 0xBF14),
             ("MOVS r0,#1", 16, 0x2001), ("ADD.W r1,r1,#2", 32, 0xF1010102), ("BX r6 (to the next instruction)", 16, 0x4730),
             ("NOP", 16, 0xBF00), ("CBNZ r7 (not taken)", 16, 0xB907)]


def run_seq(res, iset):
    """PC advance depends on per-step scratch state (which register the previous instruction wrote): all programs of
    three instructions over a menu mixing taken branches, not-taken branches, condition-failed and IT-block
    instructions are co-simulated with the reference stepper; the PC (and everything else) is compared after every
    step.  r6 is patched per position to point at the following instruction, Z = 1 (NE fails), r7 = 0."""
    from ..ref import model
    from ..ref.state import St, Unpredictable
    thumb = iset == "thumb"
    menu = SEQ_THUMB if thumb else SEQ_ARM
    env = semcheck.SemEnv({"arch_version": 7})
    plan = env.plan
    ix = plan.index
    names = plan.names
    for prog in itertools.product(range(len(menu)), repeat=3):
        for base_addr in (0x10800, 0xFFFFFFF0):
            regs = list(env.base[0])
            regs[ix["cpsr"]] = 0x400001D3 | (0x20 if thumb else 0)
            regs[ix["R.PC"]] = base_addr
            regs[ix["R.R7usr"]] = 0
            regs[ix["R.R3usr"]] = 0x10100
            pre = tuple(regs)
            plan.restore((pre, env.base[1]))
            addr = base_addr
            addrs = []
            for mi in prog:
                nm, olen, w = menu[mi]
                machine.put_instr(env.cpu, addr & 0xFFFFFFFF, w, thumb, olen)
                addrs.append(addr & 0xFFFFFFFF)
                addr += olen // 8
            for k in range(4):
                machine.put_instr(env.cpu, (addr + 2 * k) & 0xFFFFFFFF, 0xBF00 if thumb else 0xE320F000, thumb, 16 if thumb else 32)
            st = St(names, pre, plan.mem(), env.fullcfg)
            res.cases += 1
            res.add_state(hash((iset, prog, base_addr)))
            for k in range(3):
                if st.pc != addrs[k]:
                    break
                # BX r6 / MOV pc,r6 go to the instruction that follows them
                nxt = (addrs[k] + menu[prog[k]][1] // 8) & 0xFFFFFFFF
                st.loc["R.R6usr"] = nxt | (1 if thumb else 0)
                env.cpu.registers.set(6, nxt | (1 if thumb else 0))
                try:
                    label = model.step(st)
                except Unpredictable:
                    res.outcome("seq model-unpredictable-stop")
                    break
                out = machine.step(env.cpu)
                res.transitions += 1
                post = plan.regs()
                d = [("step", "ok", out)] if out[0] != "ok" else st.compare(names, post, plan.mem())
                if d:
                    res.fail("sequence: %s after %s" % ("PC" if d[0][0] == "R.PC" else d[0][0].split("[")[0],
                                                        menu[prog[k - 1]][0].split(" (")[0] if k else "start"),
                             "%s program %r at %#x, step %d (%s): model->impl %s" % (
                                 iset, [menu[i][0] for i in prog], base_addr, k, label, machine.fmt_diff(d)),
                             {"iset": iset, "program": [menu[i][2] for i in prog], "addr": base_addr})
                    break
                for loc in st.unknown:
                    st.loc[loc] = post[ix[loc]]
                st.unknown.clear()
                res.outcome("seq step")
    res.sample({"sequence_programs": iset, "menu": [m[0] for m in menu]}, 1)


def run_shard(arg):
    res = Result()
    agg = Agg(res)
    kind = arg[0]
    if kind == "a":
        _, cls, ver, ai, tier = arg
        if cls in IMM_ROWS:
            n = run_imm(res, agg, cls, ver, ai, tier)
        elif cls in REG_ROWS:
            n = run_reg(res, agg, cls, ver, ai, tier)
        else:
            n = run_tbb(res, agg, ver, ai, tier)
        res.sample({"row": cls, "pattern": BR[cls].pat, "version": ver, "address": hex(ADDRS[BR[cls].iset][ai]), "instances": n}, 2)
    elif kind == "b":
        _, modname, k0, k1, tier = arg
        run_b(res, agg, modname, k0, k1, tier)
    elif kind == "c":
        run_c(res, agg, arg[1], arg[2])
    elif kind == "seq":
        run_seq(res, arg[1])
    elif kind == "x":
        _, cls, j, tier = arg
        run_all_encodings(res, agg, cls, j, tier)
        res.sample({"row": cls, "sweep_shard": j, "encodings": BLOCK}, 1)
    agg.flush()
    return res.as_dict()


def replay(doc):
    r = doc["replay"]
    if r.get("sect") == "xmem":
        return "all-encodings sweep shard %s #%d: rerun ./check C04 --tier thorough" % (r["cls"], r["lo"])
    e = env(r["ver"])
    row = None
    for modname, mod in modules():
        for x in mod.ROWS:
            if x.cls == r["cls"] and x.group == r["group"]:
                row = x
    f = {k: int(v) for k, v in r["fields"].items()}
    regvals = {int(k): v for k, v in r["regvals"].items()}
    mp = [(a, bytes(b)) for a, b in r["mempatch"]] or None
    outs = []
    for ep in ((False, True) if r.get("excl") else (False,)):
        diffs, out, info = e.run(r["word"], row, f, r["mode"], regvals, nzcvq=r["nzcv"] << 1, it=r["it"], addr=r["addr"],
                                 mempatch=mp, cpsr_or=r["cpsr_or"], model_hook=lambda st: setattr(st, "excl_pass", ep))
        outs.append("%s word %#x at %#x -> %r %s\n model->impl: %s" % (r["cls"], r["word"], r["addr"], out, info,
                                                                         machine.fmt_diff(diffs or [], 40)))
    return "\n".join(outs)
