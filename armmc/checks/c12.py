"""C12 - system instructions.

(a) CPSRWriteByInstr / SPSRWriteByInstr through the public Registers API: all 32 mode numbers x upper-bit patterns x 16
    byte masks x exception-return flag x current CPSR background x current mode x security state x NMFI x SCR.AW/FW x
    extension configuration, against the model; where the model says UNPREDICTABLE the invariants still hold (no
    illegal mode installed, no privilege gained, execution-state bits only change on exception return).
(b) MSR / MRS / CPS / SETEND / SUBS PC,LR / ERET / hint instructions generated from ref.rows_sys and stepped.
(c) round trips: take every exception kind from every interrupted state, execute that kind's standard return
    instruction at the vector: CPSR, all registers and the resume PC of the interrupted program are back.
(e) coprocessor gating: coprocessor number x CPACR field x NSACR x HCPTR x mode x security state x configuration."""
import itertools

from ..runner import Result
from .. import machine, sweep, semcheck
from ..ref import bv, rows_sys, exc as rexc
from ..ref.enc import A32, T16, T32, Table
from ..ref.rows_block import cpsr_write_by_instr, bad_mode
from ..ref.rows_sys import spsr_write_by_instr
from ..ref.state import St, Unpredictable, ModelStop, phys, USR, FIQ, IRQ, SVC, MON, ABT, HYP, UND, SYS
from .c11 import CONFIGS, valid_state, api_call

ID = "C12"
MODES = [USR, FIQ, IRQ, SVC, MON, ABT, HYP, UND, SYS]
NSH_B = 24


def plan(tier):
    shards = []
    for ci in range(len(CONFIGS)):
        for m in MODES:
            shards.append(("api", ci, m, tier))
    for i in range(NSH_B):
        shards.append(("instr", i, tier))
    for ci in range(len(CONFIGS)):
        for thumb in (0, 1):
            shards.append(("roundtrip", ci, thumb, tier))
    for ci in range(len(CONFIGS)):
        shards.append(("coproc", ci, tier))
    return {
        "shards": shards,
        "rule": "(a) value(32 modes x upper patterns) x mask(16) x excret x background x mode x NS x NMFI x AW x FW x config on "
                "cpsr_write_by_instr/spsr_write_by_instr; (b) generated MSR/MRS/CPS/SETEND/SUBS PC,LR/ERET/hint instances; "
                "(c) exception entry + standard return round trips; (e) coprocessor access-control matrix",
        "bounds": {"upper_bit_patterns": ["all-0", "all-1"] if tier == "quick" else "all-0, all-1, walking-1, walking-0",
                   "configs": [c[0] for c in CONFIGS]},
        "exhaustive": True,
        "assumptions": ["MRS Rd,CPSR in a privileged mode is an open known finding (tests assert the APSR-only value)"],
    }


def run_shard(arg):
    res = Result()
    k = arg[0]
    if k == "api":
        api(res, *arg[1:])
    elif k == "instr":
        instr(res, *arg[1:])
    elif k == "roundtrip":
        roundtrip(res, *arg[1:])
    else:
        coproc(res, *arg[1:])
    return res.as_dict()


def mkctx(ci):
    name, cfg = CONFIGS[ci]
    env = sweep.Env("mpu-off", cfg)
    full = dict(machine.base_config())
    full.update(cfg)
    return name, env, full


# ------------------------------------------------------------------------------------------------ (a)
def api(res, ci, mode, tier):
    name, env, full = mkctx(ci)
    if mode == MON and not full.get("have_security_ext"):
        return
    if mode == HYP and not full.get("have_virt_ext"):
        return
    plan = env.plan
    ix = plan.index
    names = plan.names
    regs = env.cpu.registers
    machine.activate(env.cpu)
    uppers = [0x00000000, 0xFFFFFFE0] if tier == "quick" else \
        [0x00000000, 0xFFFFFFE0] + [1 << b for b in range(5, 32)] + [0xFFFFFFE0 ^ (1 << b) for b in range(5, 32)]
    sec = full.get("have_security_ext")
    for ns, nmfi, aw, fw, bg in itertools.product((0, 1) if sec else (0,), (0, 1), (0, 1) if sec else (0,),
                                                  (0, 1) if sec else (0,), (0x000001C0, 0xFE0FFE20)):
        if not valid_state(full, mode, ns):
            continue
        base = list(env.base("svc", "ram")[0])
        base[ix["cpsr"]] = (bg & ~0x1F) | mode
        if sec:
            base[ix["scr"]] = ns | (aw << 5) | (fw << 4)
        base[ix["sctlr"]] = (base[ix["sctlr"]] & ~(1 << 27)) | (nmfi << 27)
        base[ix["nsacr"]] = 0
        sp = rstate_spsr(mode)
        if sp:
            base[ix[sp]] = 0x0A5A5A10
        pre = tuple(base)
        for upper, vm, mask, fn in itertools.product(uppers, range(32), range(16), ("cpsr", "cpsr-ret", "spsr")):
            value = (upper & ~0x1F) | vm
            plan.restore_regs(pre)
            res.cases += 1
            res.add_state(hash((ci, pre, value, mask, fn)))
            if fn == "spsr":
                out = machine.call(regs.spsr_write_by_instr, value, mask)
            else:
                out = machine.call(regs.cpsr_write_by_instr, value, mask, fn == "cpsr-ret")
            res.transitions += 1
            post = plan.regs()
            rp = {"config": name, "mode": mode, "ns": ns, "nmfi": nmfi, "aw": aw, "fw": fw, "bg": bg, "value": value,
                  "mask": mask, "fn": fn}
            if out[0] != "ok":
                res.fail("%s_write_by_instr raises %s" % (fn[:4], out[1]), repr(rp), rp)
                continue
            st = St(names, pre, (), full)
            try:
                if fn == "spsr":
                    spsr_write_by_instr(st, value, mask)
                else:
                    cpsr_write_by_instr(st, value, mask, fn == "cpsr-ret")
                d = st.compare(names, post, ())
                res.outcome(fn)
                if d:
                    bits = d[0][1] ^ d[0][2] if isinstance(d[0][1], int) and isinstance(d[0][2], int) else 0
                    res.fail("%s_write_by_instr %s bits %s" % (fn, d[0][0], fieldname(bits)),
                             "config=%s mode=%s ns=%d nmfi=%d aw=%d fw=%d cpsr=%#x value=%#x mask=%s | model->impl: %s" % (
                                 name, machine.MODE_NAMES[mode], ns, nmfi, aw, fw, pre[ix["cpsr"]], value, format(mask, "04b"),
                                 machine.fmt_diff(d)), rp)
            except Unpredictable:
                res.outcome(fn + "-unpredictable(invariants only)")
                invariants(res, full, names, ix, pre, post, fn, rp)
    res.sample({"config": name, "mode": machine.MODE_NAMES[mode]})


def rstate_spsr(mode):
    from ..ref.state import spsr_name
    return spsr_name(mode)


def fieldname(bits):
    out = []
    for nm, m in (("NZCVQ", 0xF8000000), ("IT/J", 0x0700FC00), ("GE", 0xF0000), ("E", 0x200), ("A", 0x100), ("I", 0x80),
                  ("F", 0x40), ("T", 0x20), ("M", 0x1F), ("reserved", 0x00F00000)):
        if bits & m:
            out.append(nm)
    return "+".join(out) or "?"


def invariants(res, full, names, ix, pre, post, fn, rp):
    """What must hold even for UNPREDICTABLE writes: only the target PSR may change; no BadMode / forbidden mode is
    installed in the CPSR; unprivileged code cannot touch A/I/F/M; T/J/IT only move on an exception return."""
    changed = [n for n, a, b in zip(names, pre, post) if a != b]
    allowed = {"cpsr"} if fn != "spsr" else {n for n in names if n.startswith("spsr_")}
    extra = [n for n in changed if n not in allowed]
    if extra:
        res.fail("%s_write_by_instr changes %s" % (fn, extra[0]), repr(rp), rp)
    if fn == "spsr":
        return
    c0, c1 = pre[ix["cpsr"]], post[ix["cpsr"]]
    m1 = c1 & 0x1F
    st = St(names, pre, (), full)
    if bad_mode(st, m1):
        res.fail("cpsr_write_by_instr installs illegal mode", "mode %s; %r" % (bin(m1), rp), rp)
    if (c0 & 0x1F) == USR and (c0 ^ c1) & 0x1DF:
        res.fail("cpsr_write_by_instr unprivileged write to A/I/F/M", repr(rp), rp)
    if fn == "cpsr" and (c0 ^ c1) & 0x0700FC20:
        res.fail("cpsr_write_by_instr execution-state bits changed without exception return", repr(rp), rp)


# ------------------------------------------------------------------------------------------------ (b)
V = [0x00000000, 0xFFFFFFFF, 0x600F0010, 0x900A01D3, 0x0000001F, 0xF80F03DF, 0x0700FC20, 0x000001B6, 0x0000001A]


def instr(res, idx, tier):
    rows = [r for r in rows_sys.ROWS if r.sem is not None and r.operands is not None and not r.notimpl]
    tab = Table()
    tab.add(*rows_sys.ROWS)
    envs = {}
    for ri, row in enumerate(rows):
        if ri % NSH_B != idx:
            continue
        letters = row.fields
        choices = {}
        for l in letters:
            w = row.field_width(l)
            if l == "c" and row.iset == A32:
                choices[l] = [0xE]
            elif l in ("d", "n", "m") and w == 4:
                choices[l] = [0, 1, 14] if row.cls.startswith("SubsPcLr") else [0, 1, 12]
            elif l in ("m",) and w == 2:
                choices[l] = [0, 1, 2, 3]
            elif l in ("m",) and w == 5:
                choices[l] = [0, USR, FIQ, SVC, MON, HYP, SYS, 0b10100]
            elif l == "m" and w == 4:
                choices[l] = list(range(16))
            elif l == "i" and w == 12:
                choices[l] = [0x000, 0x0FF, 0x4FF, 0x21F, 0x8F1, 0x11D, 0x213, 0x8FF, 0x80A, 0x6FF, 0xCA5]   # incl. GE<3:0>, Q, E/A bytes
            elif l == "i" and w == 8:
                choices[l] = [0, 4, 8, 0xFF]
            elif l == "i" and w == 24:
                choices[l] = [0, 0xABCDEF]
            elif w == 1:
                choices[l] = [0, 1]
            elif l == "i" and w == 2:
                choices[l] = [0, 1, 2, 3]
            elif l == "i" and w == 5:
                choices[l] = [0, 1, 31]
            elif l == "t":
                choices[l] = [0, 1, 2, 3]
            else:
                choices[l] = sorted({0, 1, (1 << w) - 1})
        if row.cls.startswith("MsrRegister") and "m" in choices and row.field_width("m") == 4:
            choices["m"] = list(range(16))
        ls = list(letters)
        for combo in itertools.product(*[choices[l] for l in ls]):
            f = dict(zip(ls, combo))
            word = row.make(**f)
            hit = tab.lookup(row.iset, word)
            if hit is None or hit[0] is not row:
                continue
            # A/I/F background: both all-masked and all-clear for the instructions that write the masks (CPS, MSR),
            # alternating for the others
            touches_masks = row.cls.startswith(("Cps", "Msr"))
            # trap / disable controls of SMC, WFE, WFI: HCR.{TSC,TWE,TWI} and SCR.SCD, both polarities
            trappable = row.cls.startswith(("Smc", "Wfe", "Wfi"))
            for (cname, cfg), mode, ns, v, it, aifsel, trap, ev in itertools.product(
                    CONFIGS[1:3], MODES, (0, 1), V, (0,) if row.iset == A32 else (0, 0xE8),
                    (0, 1) if touches_masks else (None,), (0, 1, 2) if trappable else (0,),
                    (False, True) if row.cls.startswith("Wfe") else (None,)):
                full = dict(machine.base_config())
                full.update(cfg)
                if not valid_state(full, mode, ns):
                    continue
                key = cname
                if key not in envs:
                    envs[key] = semcheck.SemEnv(cfg)
                e = envs[key]
                regvals = {n: 0x0BAD0000 + n for n in range(15)}
                for l in ("n", "m"):
                    if l in f and row.field_width(l) == 4 and l != "m" or (l == "m" and row.cls.endswith("A2")):
                        regvals[f[l]] = v
                regvals[14] = 0x00010A01 if v & 1 else 0x00010A00
                extra = {"scr": (ns | 0x30) if (res.cases & 1) else ns, rstate_spsr(mode) or "spsr_svc": v,
                         "elr_hyp": 0x00010B00, "event_register": bool(res.cases & 2)}
                if trap == 1 and full.get("have_virt_ext"):
                    extra["hcr"] = (1 << 19) | (1 << 14) | (1 << 13)
                if ev is not None:
                    extra["event_register"] = ev      # WFE: a pending event is consumed before HCR.TWE is looked at
                elif trap == 2:
                    extra["scr"] |= 1 << 7
                res.cases += 1
                res.add_state(hash((word, cname, mode, ns, v, it, aifsel, trap, ev)))
                aif = (0b111, 0b000)[aifsel] if aifsel is not None else (0b111, 0b000, 0b101, 0b010)[(res.cases >> 7) & 3]
                diffs, out, info = e.run(word, row, f, mode, regvals, nzcvq=(res.cases >> 2) & 0x1F, ge=0x5, it=it, extra=extra,
                                         aif=aif)
                if diffs is None:
                    res.outcome("model-unpredictable-skipped")
                    continue
                res.transitions += 1
                res.outcome(info)
                if diffs:
                    sig = ""
                    if row.cls.startswith("MrsApplication") and mode != USR and len(diffs) == 1 and \
                            diffs[0][2] == (diffs[0][1] & 0xF80F0000):
                        sig = " (privileged MRS Rd,CPSR returns APSR bits only)"
                    loc = diffs[0][0].split("[")[0]
                    if loc.startswith("R.") and loc != "R.PC":
                        loc = "result"
                    res.fail("%s %s%s" % (row.cls, loc, sig),
                             "word %#x fields=%r config=%s mode=%s ns=%d value=%#x it=%#x | model->impl: %s" % (
                                 word, f, cname, machine.MODE_NAMES[mode], ns, v, it, machine.fmt_diff(diffs)),
                             {"cls": row.cls, "word": word, "fields": f, "config": cname, "mode": mode, "ns": ns, "v": v, "it": it, "aif": aif})
        res.sample({"row": row.cls, "pattern": row.pat})


# ------------------------------------------------------------------------------------------------ (c)
RETURNS_ARM = {"svc": 0xE1B0F00E, "undef": 0xE1B0F00E, "irq": 0xE25EF004, "fiq": 0xE25EF004, "dabort": 0xE25EF008,
               "dabort-align": 0xE25EF008, "smc": 0xE1B0F00E}
RETURNS_THUMB = {"svc": 0xF3DE8F00, "undef": 0xF3DE8F00, "irq": 0xF3DE8F04, "fiq": 0xF3DE8F04, "dabort": 0xF3DE8F08,
                 "dabort-align": 0xF3DE8F08, "smc": 0xF3DE8F00}
# resume address relative to the interrupted instruction, (ARM-state source, Thumb-state source)
RESUME = {"svc": (4, 2), "undef": (4, 2), "irq": (0, 0), "fiq": (0, 0), "dabort": (0, 0), "dabort-align": (0, 0), "smc": (4, 4)}


def roundtrip(res, ci, handler_thumb, tier):
    name, env, full = mkctx(ci)
    plan = env.plan
    ix = plan.index
    names = plan.names
    cpu = env.cpu
    kinds = ["svc", "undef", "irq", "fiq", "dabort", "dabort-align"] + (["smc"] if full.get("have_security_ext") else [])
    mem0 = env.base("svc", "ram")[1]
    for kind, mode, T, it, aif, ns, pc in itertools.product(kinds, MODES, (0, 1), (0, 0xA5, 0x08), (0, 7, 2),
                                                            (0, 1) if full.get("have_security_ext") else (0,),
                                                            (0x10800, 0x10902)):
        if it and not T:
            continue
        if not T and pc & 2:
            continue
        if not valid_state(full, mode, ns) or mode == HYP:
            continue
        if kind == "smc" and mode == USR:
            continue
        if mode == MON and ns:
            pass
        base = list(env.base("svc", "ram")[0])
        base[ix["sctlr"]] = (base[ix["sctlr"]] & ~(1 << 30)) | (handler_thumb << 30)
        if full.get("have_security_ext"):
            base[ix["scr"]] = ns
        base[ix["vbar"]] = 0x10400
        base[ix["mvbar"]] = 0x10600
        cpsr = mode | (T << 5) | (aif << 6) | (0x6 << 28) | (0xC << 16)
        if T:
            cpsr |= ((it & 3) << 25) | ((it >> 2) << 10)
        base[ix["cpsr"]] = cpsr
        base[ix["R.PC"]] = pc
        for k, n in enumerate(names):
            if n.startswith("R.") and n != "R.PC":
                base[ix[n]] = 0x51000000 + k
        pre = tuple(base)
        plan.restore((pre, mem0))
        machine.activate(cpu)
        res.cases += 1
        res.add_state(hash((ci, handler_thumb, kind, pre)))
        out = machine.call(api_call, cpu, kind)
        if out[0] != "ok":
            continue            # entry problems are C11's
        mid = plan.regs()
        hmode = mid[ix["cpsr"]] & 0x1F
        vec = mid[ix["R.PC"]]
        word = (RETURNS_THUMB if handler_thumb else RETURNS_ARM)[kind]
        style = "subs"
        if not handler_thumb and hmode != mode and hmode not in (MON, HYP) and (res.cases % 3) != 0:
            # the other standard ARM-state return sequences: stacked return with LDM ^ and SRS / RFE
            off = {"svc": 0, "undef": 0, "smc": 0, "irq": 4, "fiq": 4, "dabort": 8, "dabort-align": 8}[kind]
            style = "ldm^" if res.cases % 3 == 1 else "srs/rfe"
            seq = [0xE24EE000 | off]                                   # SUB lr, lr, #off
            if style == "ldm^":
                seq += [0xE92D4001, 0xE8FD8001]                        # STMFD sp!,{r0,lr} ; LDMFD sp!,{r0,pc}^
            else:
                seq += [0xF96D0500 | hmode, 0xF8BD0A00]                # SRSDB sp!,#<mode> ; RFEIA sp!
            cpu.registers.set_rmode(13, hmode, 0x10F00)               # the handler's own stack (banked: invisible)
            for k, w in enumerate(seq):
                machine.put_instr(cpu, (vec + 4 * k) & 0xFFFFFFFF, w, False, 32)
            out2 = ("ok",)
            for k in range(len(seq)):
                if out2[0] == "ok":
                    out2 = machine.step(cpu)
            res.transitions += 1 + len(seq)
        else:
            machine.put_instr(cpu, vec, word, bool(handler_thumb), 32)
            out2 = machine.step(cpu)
            res.transitions += 2
        post = plan.regs()
        rp = {"config": name, "kind": kind, "mode": mode, "T": T, "it": it, "aif": aif, "ns": ns, "pc": pc,
              "handler_thumb": handler_thumb}
        if out2[0] != "ok":
            res.fail("roundtrip %s return-step %s" % (kind, out2[1]), repr(rp), rp)
            continue
        res.outcome("roundtrip-%s" % kind)
        # expected: the interrupted state, except the handler mode's LR/SPSR (banked, invisible to the interrupted
        # program unless it runs in that very mode) and SCR.NS when the exception was taken from / to Monitor mode
        exp = list(pre)
        off = RESUME[kind][1 if T else 0]
        exp[ix["R.PC"]] = (pc + off) & 0xFFFFFFFF
        if kind in ("svc", "smc") and T and it:
            # SVC/SMC are taken AFTER the instruction: the saved ITSTATE is the advanced one
            st = St(names, pre, (), full)
            st.it_advance()
            exp[ix["cpsr"]] = st.cpsr
        ignore = {phys(14, hmode), rstate_spsr(hmode)}
        if style != "subs":
            ignore.add(phys(13, hmode))
        if kind == "smc" or hmode == MON or mode == MON:
            ignore.add("scr")
        d = [(n, a, b) for n, a, b in zip(names, exp, post) if a != b and n not in ignore]
        if d:
            res.fail("roundtrip %s (%s) %s" % (kind, style, "resume-PC" if d[0][0] == "R.PC" else d[0][0].split("[")[0]),
                     "config=%s from %s T=%d it=%#x aif=%d ns=%d pc=%#x handler=%s: interrupted->after return: %s" % (
                         name, machine.MODE_NAMES[mode], T, it, aif, ns, pc, "thumb" if handler_thumb else "arm",
                         machine.fmt_diff(d)), rp)
    res.sample({"config": name, "handler_thumb": handler_thumb, "kinds": kinds})


# ------------------------------------------------------------------------------------------------ (e)
def coproc(res, ci, tier):
    name, env, full = mkctx(ci)
    plan = env.plan
    ix = plan.index
    names = plan.names
    cpu = env.cpu
    sec = full.get("have_security_ext")
    virt = full.get("have_virt_ext")
    # MCR p<cp>, 0, r0, c1, c0, 0 ; MRC ; CDP ; MCRR ; MRRC ; LDC ; STC
    def words(cp):
        return [("MCR", 0xEE010010 | cp << 8), ("MRC", 0xEE110010 | cp << 8), ("CDP", 0xEE010000 | cp << 8),
                ("MCRR", 0xEC410000 | cp << 8), ("MRRC", 0xEC510000 | cp << 8), ("LDC", 0xED910000 | cp << 8),
                ("STC", 0xED810000 | cp << 8)]
    for cp in [c for c in range(14) if c not in (10, 11)]:
        for field, nsacr, hcptr, mode, ns, thumb in itertools.product(range(4), (0, 1), (0, 1) if virt else (0,), MODES,
                                                                       (0, 1) if sec else (0,), (0, 1)):
            if not valid_state(full, mode, ns):
                continue
            if field == 2:
                continue      # CPACR field 10: UNPREDICTABLE
            for iname, w in words(cp):
                base = list(env.base("svc", "ram")[0])
                base[ix["cpacr"]] = field << (2 * cp)
                base[ix["nsacr"]] = nsacr << cp
                base[ix["hcptr"]] = hcptr << cp
                if sec:
                    base[ix["scr"]] = ns
                base[ix["cpsr"]] = mode | 0x1C0 | (thumb << 5)
                base[ix["R.PC"]] = 0x10800
                pre = tuple(base)
                plan.restore((pre, env.base("svc", "ram")[1]))
                word = w if not thumb else w          # T1 encodings equal the A1 ones with cond = 1110
                machine.put_instr(cpu, 0x10800, word, bool(thumb), 32)
                res.cases += 1
                res.add_state(hash((ci, cp, field, nsacr, hcptr, mode, ns, thumb, iname)))
                out = machine.step(cpu)
                res.transitions += 1
                post = plan.regs()
                st = St(names, pre, (), full)
                # CoprocAccepted (A2.9.? / B1.11): expected outcome
                if sec and not st.secure() and not nsacr:
                    exp = "undef"
                elif not (virt and mode == HYP) and (field == 0 or (field == 1 and mode == USR)):
                    exp = "undef"
                elif sec and virt and not st.secure() and hcptr:
                    exp = "hyptrap" if mode != HYP else "undef"
                else:
                    exp = "hook"
                m1 = post[ix["cpsr"]] & 0x1F
                if out[0] == "notimpl":
                    got = "hook"
                elif out[0] == "ok" and m1 == UND and post[ix["R.PC"]] == (rexc.exc_vector_base(st) + 4) & 0xFFFFFFFF:
                    got = "undef"
                elif out[0] == "ok" and m1 == HYP and post[ix["R.PC"]] == (st.loc["hvbar"] + 20) & 0xFFFFFFFF and mode != HYP:
                    got = "hyptrap"
                elif out[0] == "ok" and m1 == HYP and mode == HYP and post[ix["R.PC"]] == (st.loc["hvbar"] + 4) & 0xFFFFFFFF:
                    got = "undef"          # Undefined Instruction taken in Hyp mode
                else:
                    got = "other:%r mode=%s pc=%#x" % (out[:3], machine.MODE_NAMES.get(m1, m1), post[ix["R.PC"]])
                res.outcome("coproc-" + exp)
                if got != exp:
                    res.fail("coprocessor gating %s expected %s" % (iname, exp),
                             "config=%s cp%d CPACR=%s NSACR=%d HCPTR=%d mode=%s ns=%d %s: got %s" % (
                                 name, cp, format(field, "02b"), nsacr, hcptr, machine.MODE_NAMES[mode], ns,
                                 "thumb" if thumb else "arm", got),
                             {"config": name, "cp": cp, "cpacr": field, "nsacr": nsacr, "hcptr": hcptr, "mode": mode, "ns": ns,
                              "thumb": thumb, "word": word})
    res.sample({"config": name, "coprocessors": "0..9,12,13"})


def replay(doc):
    return "re-run ./check C12; case: %r\n%s" % (doc["replay"], doc["detail"])
