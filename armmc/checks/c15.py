"""C15 - VMSA translation: page-table walks yield the right physical address or fault.

Translation tables are generated in RAM and every case is executed on the real ArmV6 (a) through
translate_address(): result PA / NS / memory attributes, or fault kind + DFSR<13:0> + DFAR, and nothing else in the
whole snapshot changed; (b) for a subset through LDR / STR / LDRT / STRT stepped with emulate_cycle(): the value comes
from / goes to the translated physical address, on a fault the complete data-abort entry is compared with ref.exc.
The oracle is ref.vmsa (independent Short-descriptor / Long-descriptor walker)."""
import itertools
import signal

from ..runner import Result
from .. import machine
from ..ref import vmsa, bv, exc as rexc
from ..ref.state import St, ModelStop
from ..ref.memmodel import Flat

ID = "C15"
M32 = 0xFFFFFFFF
MEM = [{"mem_type": "RAM", "beginning": 0x0, "end": 0x400},
       {"mem_type": "RAM", "beginning": 0x100000, "end": 0x10C000}]
T0, T1, L2T, DATA, CODE = 0x100000, 0x104000, 0x108400, 0x109000, 0x10A000
CODE_VA_BASE = 0x3A500000           # 1 MB section -> PA 0x00100000 (domain 1, manager) for the instruction-driven part
CODE_VA = CODE_VA_BASE + (CODE & 0xFFFFF)
CONFIGS = {
    "sec": {"have_security_ext": True, "have_lpae": False},
    "nosec": {"have_security_ext": False, "have_lpae": False},
    "lpae": {"have_security_ext": True, "have_lpae": True},
    # Virtualization Extensions present, stage 2 disabled (HCR.VM = 0): in Non-secure state every table-walk access
    # and the final address pass through second_stage_translate() unchanged
    "virt": {"have_security_ext": True, "have_lpae": True, "have_virt_ext": True},
}
SCTLR_BASE = (1 << 22) | (1 << 23) | (0b1111 << 3)       # U, reserved-one bits; M/AFE/TRE/EE/HA per case
# TEX remap: region 0 Strongly-ordered, 1 Device, 2/3/4/7 Normal, 5 reserved encoding, 6 IMPLEMENTATION DEFINED
PRRRS = [0x140AAEA4, 0x2A05AEA4]    # (NS1=1,NS0=0,DS1=1,DS0=0,NOS2,NOS4) / (NS1=0,NS0=1,DS1=0,DS0=1,NOS1,NOS3,NOS5)
NMRR = 0x432002D0
# (tex, c, b, s, ng, xn, ns, pxn)
ATTRS = [(0, 0, 0, 0, 0, 0, 0, 0), (0, 0, 1, 1, 1, 0, 0, 0), (0b110, 1, 0, 0, 0, 1, 1, 0), (0b001, 0, 0, 1, 1, 1, 0, 0),
         (0b011, 1, 1, 1, 0, 0, 1, 0), (0b100, 1, 1, 0, 1, 0, 0, 0), (0b001, 0, 1, 1, 0, 0, 0, 0), (0b101, 1, 0, 0, 0, 1, 1, 0)]
MAPPED = ["section", "section-pxn", "supersection", "large-page", "small-page"]
SIZE = {"section": 1 << 20, "section-pxn": 1 << 20, "supersection": 1 << 24, "supersection-pxn": 1 << 24,
        "large-page": 1 << 16, "small-page": 1 << 12, "l1-fault": 1 << 20, "l2-fault": 1 << 12}
INTERIOR = {1 << 24: 0x5A3C54, 1 << 20: 0x5A3C4, 1 << 16: 0x5A3C, 1 << 12: 0x5A4}
API_PA = {"section": 0xABC00000, "section-pxn": 0xABC00000, "supersection": 0x5AB000000, "supersection-pxn": 0x5AB000000,
          "large-page": 0xABCD0000, "small-page": 0xABCDE000, "l1-fault": 0, "l2-fault": 0}
RAM_PA = {"section": 0x00100000, "section-pxn": 0x00100000, "supersection": 0, "supersection-pxn": 0,
          "large-page": 0x00100000, "small-page": DATA, "l1-fault": 0, "l2-fault": 0}
OTHER_DACR = {0b00: 0b11, 0b01: 0b00, 0b10: 0b00, 0b11: 0b00}
DEFAULTS = dict(cfg="sec", m=1, n=0, place="t0top", pid=0, ee=0, kind="section", ap=3, dom=5, dacrf=1, afe=0, attr=2, ns=0,
                pd0=0, pd1=0, tre=1, ha=0, prrr=0, eae=0, ram=0)
HOOK_LPAE_FAULT = "tlb_lookup_came_from_cache_maintenance"


HANG_S = 0.05                       # CPU seconds (ITIMER_VIRTUAL) after which a translate_address() call counts as hung


class Hang(BaseException):
    pass


def _on_timer(signum, frame):
    raise Hang()


# ------------------------------------------------------------------------------------------------ plan
def n_list(tier):
    return list(range(8))


def places(n):
    """[(name, VA base (16 MB aligned), slot)] - distinct VA bases only."""
    out, seen = [], set()
    for name, va, slot in (("t0top", ((1 << (32 - n)) - (1 << 24)) & M32, "top"), ("t1bot", (1 << (32 - n)) & M32, "bottom"),
                           ("fcse", 0x01000000, "bottom"), ("top", 0xFF000000, "top")):
        if (va, slot) in seen:
            continue
        seen.add((va, slot))
        out.append((name, va, slot))
    return out


def plan(tier):
    shards = []
    for n in n_list(tier):
        for pl in places(n):
            shards.append(("api", "sec", tier, n, pl[0]))
    for n in (range(8) if tier != "quick" else (0, 1, 7)):
        shards.append(("instr", "sec", tier, n))
    for cfgname in CONFIGS:
        for part in SPECIAL_PARTS:
            if part != "perm" or cfgname != "sec":
                shards.append(("special", cfgname, tier, part))
    shards.append(("off", "sec", tier))
    for t0 in range(8):
        shards.append(("ld", "lpae", tier, t0))
    for t0 in (0, 2):
        shards.append(("ld", "virt", tier, t0))     # Non-secure walks pass through second_stage_translate()
    return {
        "shards": shards,
        "rule": "Short-descriptor tables generated in RAM: TTBCR.N 0..7 x VA place (last 16 MB below / first 16 MB above "
                "the TTBR0-TTBR1 boundary, the FCSE window, the top of the address space) x FCSE PID {0,0x45} x SCTLR.EE x "
                "leaf kind {section, section(bits<1:0>=11), supersection, large page, small page} x AP<2:0> (8) x DACR "
                "field (4) x SCTLR.AFE x domain {0,5,15} x attribute alphabet x VA {first word, last word, interior of the "
                "unit; the word before and after the unit} x read/write x privileged/unprivileged, plus sub-products for "
                "fault descriptors, TTBCR.PD0/PD1, SCTLR.TRE=0 / HA=1 (mock hooks), SCR.NS, PRRR/NMRR decode, no "
                "Security Extensions, LPAE-capable configuration, MMU off, and Long-descriptor stage-1 walks; each case "
                "through translate_address() with a whole-snapshot comparison and a subset through LDR/STR/LDRT/STRT",
        "bounds": {"N": list(n_list(tier)), "pid": [0, 69], "domains": [0, 5, 15], "ap": "0..7", "dacr_field": "0..3",
                   "attrs": ["tex=%d c=%d b=%d s=%d ng=%d xn=%d ns=%d pxn=%d" % a for a in ATTRS],
                   "quick_diagonals": "quick tier: domain, attribute alphabet, PRRR variant (and SCR.NS = 0) are rotated over "
                                      "the main product by a fixed diagonal instead of multiplied in (thorough: domain x "
                                      "SCR.NS multiplied in); the word before/after the unit is queried for AP=0b011 and the "
                                      "fault descriptors; instruction-driven part uses N in {0,1,7}",
                   "configurations": {"sec": "main product + all sub-products", "nosec / lpae": "PD, attribute, hook "
                                      "sub-products and a permission product with a reduced address alphabet"},
                   "hang_guard": "a translate_address() call that uses more than %.2f s of CPU time is reported as "
                                 "does-not-terminate; after two hangs at one Long-descriptor site the remaining cases of "
                                 "that site are skipped in the shard (counter ld-cases-skipped-...)" % HANG_S,
                   "long_descriptor": "T0SZ 0..7 x T1SZ {0,1,2,5} x VA alphabet x {level-1 block, level-2 block, "
                                      "level-3 page, invalid at each level} x AF x AP<2:1> x APTable x NS/NSTable"},
        "exhaustive": True,
        "assumptions": ["an Access flag fault and a Domain fault that apply to the same access: either report accepted",
                        "first-level descriptor bits<1:0>=0b11 without LPAE (PXN support IMPLEMENTATION DEFINED): section "
                        "or level-1 Translation fault accepted", "DACR field 0b10, AP 0b100, FCSE PID != 0 with the MMU "
                        "off: UNPREDICTABLE, not compared", "DFSR bit 8 and the DFSR domain field where the DataAbort "
                        "pseudocode does not make it valid are UNKNOWN", "shareability of Device memory under TEX remap "
                        "is not compared", "bytes outside every device read as zero (no external aborts in the emulator)",
                        "stage 2 / Hyp mode are not covered", "NotImplementedError is the required outcome at the "
                        "documented mock hooks (remap_regs_have_reset_values, mem.set_bits, "
                        "tlb_lookup_came_from_cache_maintenance)"],
    }


# ------------------------------------------------------------------------------------------------ table generator
def t0base(n):
    """TTBR0 translation-table base with every architecturally usable low base bit set (alignment 2^(14-N))."""
    return T0 | (0x3FFF & ~((1 << (14 - n)) - 1))


def wr32(cpu, addr, val, ee):
    if not machine.put(cpu, addr, val.to_bytes(4, "big" if ee else "little")):
        raise RuntimeError("descriptor address %#x outside RAM" % addr)


def wr64(cpu, addr, val, ee):
    if not machine.put(cpu, addr, val.to_bytes(8, "big" if ee else "little")):
        raise RuntimeError("descriptor address %#x outside RAM" % addr)


def l1_slot(n, mva):
    """(which TTBR, address of the first-level descriptor for mva) - B3.5.4/B3.5.5."""
    if n == 0 or (mva >> (32 - n)) == 0:
        return 0, t0base(n) + (((mva >> 20) & ((1 << (12 - n)) - 1)) << 2)
    return 1, T1 + ((mva >> 20) << 2)


def d_section(pa, ap, dom, a, pxn, super_):
    tex, c, b, s, ng, xn, ns, _ = a
    d = (ns << 19) | (ng << 17) | (s << 16) | ((ap >> 2) << 15) | (tex << 12) | ((ap & 3) << 10) | (1 << 9) | (xn << 4) | \
        (c << 3) | (b << 2) | 2 | pxn
    if super_:
        return d | (pa & 0xFF000000) | (((pa >> 32) & 0xF) << 20) | (1 << 18) | (((pa >> 36) & 0xF) << 5)
    return d | (pa & 0xFFF00000) | (dom << 5)


def d_table(l2base, dom, a):
    return (l2base & 0xFFFFFC00) | (1 << 9) | (dom << 5) | (a[6] << 3) | (a[7] << 2) | 1


def d_large(pa, ap, a):
    tex, c, b, s, ng, xn, _, _ = a
    return (pa & 0xFFFF0000) | (xn << 15) | (tex << 12) | (ng << 11) | (s << 10) | ((ap >> 2) << 9) | ((ap & 3) << 4) | \
        (c << 3) | (b << 2) | 1


def d_small(pa, ap, a):
    tex, c, b, s, ng, xn, _, _ = a
    return (pa & 0xFFFFF000) | (ng << 11) | (s << 10) | ((ap >> 2) << 9) | (tex << 6) | ((ap & 3) << 4) | (c << 3) | \
        (b << 2) | 2 | xn


def sctlr_value(p):
    return SCTLR_BASE | p["m"] | (p["afe"] << 29) | (p["tre"] << 28) | (p["ee"] << 25) | (p["ha"] << 17)


def unit_va(p, va_base, slot):
    """VA of the mapped unit inside the 16 MB window."""
    size = SIZE[p["kind"]]
    if size == 1 << 24:
        return va_base
    return va_base + ((1 << 24) - size if slot == "top" else 0)


def apply(ctx, p, with_code=False):
    """Restores the base state, programs the registers and writes the tables for p.  -> (unit VA, size, which TTBR)."""
    cpu, r = ctx.cpu, ctx.cpu.registers
    ctx.plan.restore(ctx.base)
    n, ee, kind = p["n"], p["ee"], p["kind"]
    r.sctlr.value = sctlr_value(p)
    r.ttbcr.value = n | (p["pd0"] << 4) | (p["pd1"] << 5)
    hi = 1 if ctx.cfgd.get("have_lpae") else 0
    r.ttbr0_64 = t0base(n) | 0x6B | ((0xAB << 32) * hi)
    r.ttbr1_64 = T1 | 0x12 | ((0xCD << 32) * hi)
    r.fcseidr.value = p["pid"] << 25
    r.prrr.value = PRRRS[p["prrr"]]
    if ctx.cfgd.get("have_security_ext"):
        r.scr.value = p["ns"]
    va_base, slot = dict((x[0], x[1:]) for x in places(n))[p["place"]]
    uva = unit_va(p, va_base, slot)
    size = SIZE[kind]
    umva = vmsa.fcse_mva(uva, p["pid"] << 25)
    which, l1a = l1_slot(n, umva)
    a = ATTRS[p["attr"]]
    ap, dom = p["ap"], p["dom"]
    pa = (RAM_PA if p["ram"] else API_PA)[kind]
    eff_dom = dom
    if kind in ("section", "section-pxn"):
        wr32(cpu, l1a, d_section(pa, ap, dom, a, int(kind == "section-pxn") | a[7], False), ee)
    elif kind in ("supersection", "supersection-pxn"):
        if not p["ram"]:
            pa |= dom << 36
        eff_dom = 0
        for i in range(16):
            wr32(cpu, l1a + 4 * i, d_section(pa, ap, dom, a, int(kind == "supersection-pxn") | a[7], True), ee)
    elif kind == "l1-fault":
        wr32(cpu, l1a, 0xFFFFFFFC, ee)
    else:
        wr32(cpu, l1a, d_table(L2T, dom, a), ee)
        l2a = L2T + (((umva >> 12) & 0xFF) << 2)
        if kind == "large-page":
            for i in range(16):
                wr32(cpu, l2a + 4 * i, d_large(pa, ap, a), ee)
        elif kind == "small-page":
            wr32(cpu, l2a, d_small(pa, ap, a), ee)
        else:
            wr32(cpu, l2a, 0xFFFFFFFC, ee)
    f = p["dacrf"]
    dacr = 0
    for d in range(16):
        dacr |= (f if d == eff_dom else OTHER_DACR[f]) << (2 * d)
    if with_code:
        cw, cl1 = l1_slot(n, CODE_VA_BASE)
        wr32(cpu, cl1, d_section(0x00100000, 0b011, 1, ATTRS[2], 0, False), ee)
        dacr |= 0b11 << 2
    r.dacr.value = dacr
    return uva, size, which


def queries(uva, size, extra):
    qs = [("first", uva), ("last", (uva + size - 4) & M32), ("interior", (uva + INTERIOR[size]) & M32)]
    if extra:
        qs += [("after", (uva + size) & M32), ("before", (uva - 4) & M32)]
    return qs


# ------------------------------------------------------------------------------------------------ contexts
class Ctx:
    def __init__(self, cfgname):
        ov = dict(CONFIGS[cfgname])
        ov.update(memory_system_architecture="VMSA", arch_version=7, memory_list=MEM)
        self.cfgname = cfgname
        self.cpu = cpu = machine.new_cpu(**ov)
        cpu.take_reset()
        full = dict(machine.base_config())
        full.update(ov)
        self.cfgd = full
        r = cpu.registers
        machine.put(cpu, T0, bytes(DATA - T0))
        r.sctlr.value = SCTLR_BASE
        r.nmrr.value = NMRR
        r.dfsr.value = 0xFFFFFFFF
        r.dfar = 0xDEADBEEC
        r.mair0 = 0xFF440400
        r.mair1 = 0x00FF4404          # idx4 Device, idx5 Normal NC, idx6 Normal WB, idx7 Strongly-ordered
        r.vbar.value = 0x00000200
        r.cpsr.value = 0x000001D3
        for i in range(13):
            r.set(i, 0x0BAD0000 + i)
        self.plan = machine.Plan(cpu)
        self.plan.reset_scratch()
        self.base = self.plan.snapshot()
        self.ix = self.plan.index
        self.hung = {}


def norm_attrs(m):
    t = m.type.name
    if t != "NORMAL":
        return {"type": t}
    return {"type": t, "shareable": bool(m.shareable), "outershareable": bool(m.outershareable),
            "inner": (m.innerattrs, m.innerhints), "outer": (m.outerattrs, m.outerhints)}


def raise_site(e):
    """file:function of the innermost frame (machine.site_of without the source-line lookups)."""
    tb = e.__traceback__
    while tb.tb_next is not None:
        tb = tb.tb_next
    co = tb.tb_frame.f_code
    return "%s:%s" % (co.co_filename.split("/armulator/")[-1], co.co_name)


def call_translate(cpu, va, priv, write, wasaligned=True):
    from armulator.armv6.arm_exceptions import DataAbortException
    signal.setitimer(signal.ITIMER_VIRTUAL, HANG_S)
    try:
        d = cpu.translate_address(va, priv, write, 4, wasaligned)
        return ("ok", d.paddress.physicaladdress, d.paddress.ns, norm_attrs(d.memattrs))
    except DataAbortException as e:
        return ("abort", bool(e.second_stage_abort()))
    except NotImplementedError as e:
        return ("notimpl", raise_site(e))
    except Hang:
        return ("hang",)
    except Exception as e:  # noqa - classification of escaping host-level errors is the point
        return ("host", type(e).__name__, machine.site_of(e), str(e)[:120])
    finally:
        signal.setitimer(signal.ITIMER_VIRTUAL, 0)


FS_NAMES = {0b00001: "alignment", 0b00011: "access_flag L1", 0b00110: "access_flag L2", 0b00101: "translation L1",
            0b00111: "translation L2", 0b01001: "domain L1", 0b01011: "domain L2", 0b01101: "permission L1",
            0b01111: "permission L2"}


def fs_name(dfsr):
    fs = (bv.bit(dfsr, 10) << 4) | (dfsr & 0xF)
    return FS_NAMES.get(fs, "FS=%s" % bin(fs))


def mismatch(ctx, exp, got, pre, post_regs, mem_same, write):
    """None when the implementation's outcome `got` is the architectural outcome `exp`, else (manner, detail)."""
    cfgd = ctx.cfgd
    ix = ctx.ix
    if got[0] == "host":
        return ("raises %s@%s" % (got[1], got[2]), got[3])
    if got[0] == "hang":
        return ("does-not-terminate", "no result within %.2f s of CPU time (a walk takes about 20 us)" % HANG_S)
    if exp[0] == "fault" and (cfgd.get("have_lpae") or exp[1].ld):
        exp = ("notimpl", HOOK_LPAE_FAULT, exp[1])
    if exp[0] == "notimpl":
        if got[0] != "notimpl":
            return ("expected-NotImplementedError(%s)" % exp[1], "got %r%s" % (got[:3], " for %r" % (exp[2],) if len(exp) > 2 else ""))
        if exp[1].split(".")[-1] not in got[1]:
            return ("NotImplementedError-at-other-hook", "expected %s, raised at %s" % (exp[1], got[1]))
        return None
    if got[0] == "notimpl":
        return ("unexpected-NotImplementedError@%s" % got[1].split(":")[-1], "expected %r" % (exp[1],))
    pre_regs = pre[0]
    if exp[0] == "ok":
        e = exp[1]
        if got[0] == "abort":
            return ("spurious-fault(%s)" % fs_name(post_regs[ix["dfsr"]]), "expected %r; DFSR=%#x DFAR=%#x" % (
                e, post_regs[ix["dfsr"]], post_regs[ix["dfar"]]))
        if got[1] != e.pa:
            return ("wrong-PA", "expected %#x got %#x" % (e.pa, got[1]))
        if got[2] != e.ns:
            return ("wrong-NS", "expected %d got %r" % (e.ns, got[2]))
        if e.attrs is not None:
            if got[3]["type"] != e.attrs["type"]:
                return ("memory-type", "expected %s got %s" % (e.attrs["type"], got[3]["type"]))
            if any(got[3].get(k) != v for k, v in e.attrs.items()):      # only what the model specifies
                return ("memory-attributes", "expected %r got %r" % (e.attrs, got[3]))
        if post_regs != pre_regs or not mem_same:
            return ("state-changed", machine.fmt_diff(ctx.plan.diff((pre_regs, ()), (post_regs, ()))) or "memory")
        return None
    f = exp[1]
    if got[0] == "ok":
        return ("missing-fault(%s L%d)" % (f.kind, f.level), "expected %r; returned PA %#x" % (f, got[1]))
    if got[1]:
        return ("second-stage-abort-flag", "DataAbortException.second_stage_abort() is true")
    dfsr, dfar = post_regs[ix["dfsr"]], post_regs[ix["dfar"]]
    v, mask = vmsa.dfsr_sd(f, write, cfgd)
    exp_name = "%s L%d" % (f.kind, f.level)
    if fs_name(dfsr) != exp_name:
        return ("wrong-fault(%s instead of %s)" % (fs_name(dfsr), exp_name), "expected %r; DFSR=%#x" % (f, dfsr))
    full = 0xFFFFC000 | mask
    want = (pre_regs[ix["dfsr"]] & ~0x3FFF) | v
    if (dfsr ^ want) & full:
        bad = (dfsr ^ want) & full
        what = "domain" if bad & 0xF0 else "WnR" if bad & 0x800 else "bits"
        return ("DFSR.%s" % what, "expected %#x (mask %#x) got %#x for %r" % (want, full, dfsr, f))
    if dfar != f.mva:
        return ("DFAR", "expected MVA %#x got %#x" % (f.mva, dfar))
    rest = [d for d in ctx.plan.diff((pre_regs, ()), (post_regs, ())) if d[0] not in ("dfsr", "dfar")]
    if rest or not mem_same:
        return ("fault-changed-other-state", machine.fmt_diff(rest) or "memory")
    return None


def judge(ctx, exp, got, pre, post_regs, mem_same, write):
    """-> None | (manner, detail); 'either' accepts any listed outcome, 'any' accepts everything but host errors."""
    if exp[0] == "any":
        if got[0] in ("host", "hang"):
            return mismatch(ctx, exp, got, pre, post_regs, mem_same, write)
        return None
    if exp[0] == "either":
        first = None
        for alt in exp[1]:
            m = judge(ctx, alt, got, pre, post_regs, mem_same, write)
            if m is None:
                return None
            first = first or m
        return first
    return mismatch(ctx, exp, got, pre, post_regs, mem_same, write)


def tags(p):
    t = ""
    if p["cfg"] != "sec":
        t += p["cfg"] + " "
    if not p["m"]:
        t += "MMU-off "
    if p["pd0"] or p["pd1"]:
        t += "PD0=%d,PD1=%d " % (p["pd0"], p["pd1"])
    if not p["tre"]:
        t += "TRE=0 "
    if p["ha"]:
        t += "HA=1 "
    return t


def outcome_label(exp):
    if exp[0] == "ok":
        return "ok " + exp[1].kind
    if exp[0] == "fault":
        return "%s L%d" % (exp[1].kind, exp[1].level)
    if exp[0] == "either":
        return "either"
    return exp[0]


def run_setup(ctx, res, p, extra=False, privs=(True, False), writes=(False, True)):
    """One table configuration, all queries through translate_address()."""
    cpu, plan, r = ctx.cpu, ctx.plan, ctx.cpu.registers
    uva, size, which = apply(ctx, p)
    pre = plan.snapshot()
    loc = dict(zip(plan.names, pre[0]))
    mem = Flat(pre[1])
    ix = ctx.ix
    pre_dfsr, pre_dfar = pre[0][ix["dfsr"]], pre[0][ix["dfar"]]
    for (qname, va), priv, write in itertools.product(queries(uva, size, extra), privs, writes):
        res.cases += 1
        res.add_state(hash((tuple(sorted(p.items())), va, priv, write)))
        exp = vmsa.translate(loc, ctx.cfgd, mem, va, priv, write)
        got = call_translate(cpu, va, priv, write)
        res.transitions += 1
        post_regs = plan.regs()
        mem_same = plan.mem() == pre[1]
        res.outcome(outcome_label(exp))
        m = judge(ctx, exp, got, pre, post_regs, mem_same, write)
        if m is not None:
            mva = vmsa.fcse_mva(va, p["pid"] << 25)
            w = vmsa.sd_select(loc, mva)[0] if p["m"] and not p["eae"] else which
            site = "%sttbr%d/%s%s" % (tags(p), w, "" if qname in ("first", "last", "interior") else "unmapped-near-", p["kind"])
            if (p["pd0"] or p["pd1"]) and ctx.cfgd.get("have_security_ext"):
                # one key per (PD setting, region, direction) whatever the walk would otherwise have produced
                disabled = vmsa.sd_select(loc, mva)[3]
                site = "%sttbr%d-region" % (tags(p), w)
                if disabled and exp[0] == "fault" and got[0] != "notimpl":
                    m = ("walk-not-disabled", m[1])
                elif not disabled and ((got[0] == "abort" and fs_name(post_regs[ix["dfsr"]]) == "translation L1") or
                                       (got[0] == "notimpl" and HOOK_LPAE_FAULT in got[1] and exp[0] == "ok")):
                    m = ("walk-disabled-by-the-other-region's-bit", m[1])
            rp = dict(p, via="translate", va=va, priv=priv, write=write)
            res.fail("translate %s %s" % (site, m[0]),
                     "va=%#x mva=%#x priv=%d write=%d %s | %s | model: %r" % (va, mva, priv, write, fmt_p(p), m[1], exp), rp)
        if post_regs != pre[0]:
            r.dfsr.value = pre_dfsr
            r.dfar = pre_dfar
            if plan.regs() != pre[0]:
                plan.restore(pre)
        if not mem_same:
            plan.restore(pre)
        if ctx.cfgd.get("have_virt_ext") and exp[0] == "ok" and exp[1].attrs is not None and m is None:
            # an access that was NOT naturally aligned: with the Virtualization Extensions an unaligned access to Device
            # or Strongly-ordered memory takes an Alignment fault (reported through the LPAE-format hook here); to
            # Normal memory nothing changes
            res.cases += 1
            exp2 = exp if exp[1].attrs["type"] == "NORMAL" else ("notimpl", HOOK_LPAE_FAULT)
            got2 = call_translate(cpu, va, priv, write, wasaligned=False)
            res.transitions += 1
            res.outcome("unaligned " + ("ok" if exp2[0] == "ok" else "device-alignment-fault"))
            m2 = judge(ctx, exp2, got2, pre, plan.regs(), plan.mem() == pre[1], write)
            if m2 is not None:
                res.fail("translate unaligned-access %s %s" % (exp[1].attrs["type"], m2[0]),
                         "va=%#x priv=%d write=%d %s | %s" % (va, priv, write, fmt_p(p), m2[1]),
                         dict(p, via="translate", va=va, priv=priv, write=write, wasaligned=False))
            if plan.regs() != pre[0] or plan.mem() != pre[1]:
                plan.restore(pre)


def fmt_p(p):
    return " ".join("%s=%s" % (k, p[k]) for k in ("cfg", "n", "place", "pid", "ee", "kind", "ap", "dom", "dacrf", "afe", "attr",
                                                 "ns", "pd0", "pd1", "tre", "ha", "prrr", "m") if p[k] != DEFAULTS[k] or
                    k in ("n", "kind", "ap", "dacrf"))


def P(**kw):
    p = dict(DEFAULTS)
    p.update(kw)
    return p


# ------------------------------------------------------------------------------------------------ shards
def run_shard(arg):
    res = Result()
    signal.signal(signal.SIGVTALRM, _on_timer)
    kind = arg[0]
    ctx = Ctx(arg[1])
    machine.activate(ctx.cpu)
    if kind == "api":
        api_shard(res, ctx, *arg[2:])
    elif kind == "instr":
        instr_shard(res, ctx, *arg[2:])
    elif kind == "special":
        special_shard(res, ctx, arg[2], arg[3])
    elif kind == "off":
        off_shard(res, ctx, arg[2])
    elif kind == "ld":
        ld_shard(res, ctx, *arg[2:])
    return res.as_dict()


def rot(k, n):
    """Deterministic diagonal: spreads an alphabet of size n over a product without following any one loop index."""
    return (k * 5 + k // 8 + k // 64 + k // 512) % n


def api_shard(res, ctx, tier, n, place):
    quick = tier == "quick"
    doms = (0, 5, 15)
    k = 0
    for pid, ee in itertools.product((0, 0x45), (0, 1)):
        for kind in MAPPED + ["supersection-pxn"]:
            if kind == "supersection-pxn" and quick:
                continue
            for ap, dacrf, afe in itertools.product(range(8), range(4), (0, 1)):
                for dom in ((doms[rot(k, 3)],) if quick else doms):
                    for ns in ((0,) if quick else (0, 1)):
                        k += 1
                        p = P(n=n, place=place, pid=pid, ee=ee, kind=kind, ap=ap, dom=dom, dacrf=dacrf, afe=afe,
                              attr=rot(k, 8), ns=ns, prrr=(k // 3) & 1)
                        run_setup(ctx, res, p, extra=(ap == 3))
        # fault descriptors: the domain of a level-2 fault is reported, a level-1 fault has none
        for fk, dom, dacrf, afe in itertools.product(("l1-fault", "l2-fault"), doms, range(4), (0, 1)):
            k += 1
            run_setup(ctx, res, P(n=n, place=place, pid=pid, ee=ee, kind=fk, dom=dom, dacrf=dacrf, afe=afe, attr=rot(k, 8)),
                      extra=True)
    res.sample({"shard": "api", "N": n, "place": place, "example": "section at the last MB below the TTBR0/TTBR1 boundary, "
                "AP=0b101, DACR field client, unprivileged write -> permission fault level 1"})


SPECIAL_PARTS = ("pd", "attrs", "hooks", "perm")


def special_shard(res, ctx, tier, part):
    """Sub-products that do not need the full address x permission product."""
    cfgname = ctx.cfgname
    quick = tier == "quick"
    kinds6 = MAPPED + ["supersection-pxn"]
    ns_list = (0, 1) if ctx.cfgd.get("have_security_ext") else (0,)
    if part == "pd":
        # TTBCR.PD0 / PD1 (defined only with the Security Extensions; reserved and ignored without)
        for n, (pd0, pd1) in itertools.product(range(8), ((1, 0), (0, 1), (1, 1))):
            for pl in places(n):
                for kind, pid, afe, dacrf in itertools.product(("section", "small-page", "l1-fault"), (0, 0x45),
                                                               (0,) if quick else (0, 1), (0, 1) if quick else (0, 1, 3)):
                    run_setup(ctx, res, P(cfg=cfgname, n=n, place=pl[0], kind=kind, pid=pid, pd0=pd0, pd1=pd1, afe=afe,
                                          dacrf=dacrf, ap=(5 if afe else 2)), extra=True)
    elif part == "attrs":
        # memory-attribute decode: attribute alphabet x PRRR variant x kind x EE x SCR.NS
        for kind, attr, prrr, ee, ns, n in itertools.product(kinds6, range(8), (0, 1), (0, 1), ns_list, (0, 3)):
            run_setup(ctx, res, P(cfg=cfgname, n=n, place="t1bot", kind=kind, attr=attr, prrr=prrr, ee=ee, ns=ns, dacrf=3),
                      privs=(True,))
    elif part == "hooks":
        # mock hooks: SCTLR.TRE = 0 and hardware access-flag management
        for kind, tre, ha, afe, ap, dacrf, ee in itertools.product(kinds6 + ["l1-fault", "l2-fault"], (0, 1), (0, 1), (0, 1),
                                                                   (0, 1, 2, 3, 6, 7), (0, 1, 3), (0, 1)):
            if tre == 1 and ha == 0:
                continue
            run_setup(ctx, res, P(cfg=cfgname, n=2, place="t0top", kind=kind, tre=tre, ha=ha, afe=afe, ap=ap, dacrf=dacrf, ee=ee))
    elif part == "perm" and cfgname != "sec":
        # the permission product once more in this configuration (reduced address alphabet)
        k = 0
        for n, kind, ap, dacrf, afe, ee, pid in itertools.product((1,) if quick else range(8), kinds6 + ["l1-fault", "l2-fault"],
                                                                  range(8), range(4), (0, 1), (0, 1), (0,) if quick else (0, 5)):
            for pl in places(n):
                if quick and pl[0] not in ("t0top", "t1bot"):
                    continue
                k += 1
                run_setup(ctx, res, P(cfg=cfgname, n=n, place=pl[0], kind=kind, ap=ap, dacrf=dacrf, afe=afe, ee=ee, pid=pid,
                                      dom=(0, 5, 15)[rot(k, 3)], attr=rot(k, 8), ns=ns_list[k % len(ns_list)]),
                          extra=(ap == 3))
    res.sample({"shard": "special", "config": cfgname, "part": part})


def off_shard(res, ctx, tier):
    """MMU disabled: flat mapping, Strongly-ordered, no faults - whatever the tables and DACR say."""
    vas = [0x0, 0x1000, 0x01FFFFFC, 0x02000000, 0x0A000010, 0x7FFFFFFC, 0x80000000, 0xFF000000, 0xFFFFFFFC, DATA + 4]
    cpu, plan, r = ctx.cpu, ctx.plan, ctx.cpu.registers
    for n, kind, pid, dacrf, ns, afe in itertools.product((0, 1, 7), ("section", "l1-fault"), (0, 0x45), (0, 1, 3), (0, 1), (0, 1)):
        p = P(m=0, n=n, place="t1bot", kind=kind, pid=pid, dacrf=dacrf, ns=ns, ap=0, afe=afe)
        uva, size, which = apply(ctx, p)
        pre = plan.snapshot()
        loc = dict(zip(plan.names, pre[0]))
        mem = Flat(pre[1])
        for va, priv, write in itertools.product(vas + [uva, uva + 0x5A3C4], (True, False), (False, True)):
            res.cases += 1
            res.add_state(hash(("off", n, kind, pid, dacrf, ns, afe, va, priv, write)))
            exp = vmsa.translate(loc, ctx.cfgd, mem, va, priv, write)
            got = call_translate(cpu, va, priv, write)
            res.transitions += 1
            post_regs = plan.regs()
            mem_same = plan.mem() == pre[1]
            res.outcome("off " + outcome_label(exp))
            m = judge(ctx, exp, got, pre, post_regs, mem_same, write)
            if m is not None:
                res.fail("translate MMU-off %s" % m[0], "va=%#x priv=%d write=%d %s | %s | model: %r" % (
                    va, priv, write, fmt_p(p), m[1], exp), dict(p, via="translate", va=va, priv=priv, write=write))
            if post_regs != pre[0] or not mem_same:
                plan.restore(pre)
    # through instructions: code and data at their physical addresses
    for insn, mode, pid, off in itertools.product(INSNS, ("usr", "svc"), (0,), (0x10, 0xFFC)):
        if insn[2] and mode == "usr":
            continue
        p = P(m=0, n=0, place="t1bot", kind="l1-fault", pid=pid, dacrf=0, ram=1)
        apply(ctx, p)
        instr_case(ctx, res, p, DATA + off, mode, insn, CODE, "flat")
    res.sample({"shard": "MMU off", "vas": [hex(v) for v in vas]})


# ------------------------------------------------------------------------------------------------ instruction-driven
# (name, word, forced-unprivileged, is-store)     Rt = r2, Rn = r1
INSNS = [("LDR", 0xE5912000, False, False), ("STR", 0xE5812000, False, True),
         ("LDRT", 0xE4B12000, True, False), ("STRT", 0xE4A12000, True, True)]
RAM_OFF = {1 << 24: 0x109A3C, 1 << 20: 0x09A3C, 1 << 16: 0x9A3C, 1 << 12: 0xA3C}


def instr_shard(res, ctx, tier, n):
    k = 0
    for pl in places(n):
        if pl[0] == "top":
            continue
        for pid, ee, kind in itertools.product((0, 5), (0, 1), MAPPED + ["l1-fault", "l2-fault"]):
            fault_kind = kind.endswith("fault")
            for ap, dacrf, afe in itertools.product((3,) if fault_kind else range(8), range(4), (0, 1)):
                k += 1
                dom = (0, 5, 15)[rot(k, 3)] if not kind.startswith("supersection") else 0
                p = P(n=n, place=pl[0], pid=pid, ee=ee, kind=kind, ap=ap, dom=dom, dacrf=dacrf, afe=afe, attr=(2, 3, 4, 5)[rot(k, 4)],
                      ram=1)
                uva, size, which = apply(ctx, p, with_code=True)
                snap = ctx.plan.snapshot()
                va = (uva + RAM_OFF[size]) & M32
                first = True
                # word-aligned, and one byte further: the unaligned access is made byte by byte (SCTLR.U = 1, A = 0; all
                # attribute choices of this shard are Normal memory), each byte translated with the access's privilege
                # ... and a word that straddles the end of the mapped unit (its last two bytes and the first two of
                # whatever follows): every byte has its own translation
                for insn, mode, mis in itertools.product(INSNS, ("usr", "svc"), (0, 1, None)):
                    if insn[2] and mode == "usr":
                        continue
                    if not first:
                        ctx.plan.restore(snap)
                    first = False
                    v_ = (va + mis) if mis is not None else (uva + size - 2) & M32
                    instr_case(ctx, res, p, v_, mode, insn, CODE_VA, "ttbr%d/%s" % (which, kind))
    res.sample({"shard": "instr", "N": n, "program": "LDR/STR/LDRT/STRT r2,[r1] at VA %#x (section -> PA %#x)" % (CODE_VA, CODE)})


def instr_case(ctx, res, p, va, mode, insn, pc, site):
    cpu, plan, r = ctx.cpu, ctx.plan, ctx.cpu.registers
    name, word, unpriv, store = insn
    cfgd = ctx.cfgd
    r.cpsr.value = 0x000001C0 | machine.MODES[mode]
    machine.put_instr(cpu, CODE, word, False)
    r.set(1, va)
    r.set(2, 0x600DF00D)
    r.set(14, 0x55555554)
    r.branch_to(pc)
    plan.reset_scratch()
    pre = plan.snapshot()
    res.cases += 1
    res.add_state(hash((tuple(sorted(p.items())), va, mode, name)))
    out = machine.step(cpu)
    res.transitions += 1
    post = plan.snapshot()
    names = plan.names
    priv = mode != "usr"
    st0 = St(names, pre[0], pre[1], cfgd)
    fx = vmsa.translate(st0.loc, cfgd, st0.mem, pc, priv, False)
    if fx[0] != "ok" or fx[1].pa != CODE:
        raise RuntimeError("generator error: code VA does not translate to the code page: %r" % (fx,))
    pas = None
    partial = ()
    if va % 4 == 0:
        exp = vmsa.translate(st0.loc, cfgd, st0.mem, va, priv and not unpriv, store)
    else:
        # byte-wise access (SCTLR.U = 1, A = 0): bytes in ascending address order, each translated on its own; the
        # first byte that faults aborts the access (bytes already stored are UNKNOWN)
        exps = [vmsa.translate(st0.loc, cfgd, st0.mem, (va + i) & M32, priv and not unpriv, store) for i in range(4)]
        if any(e[0] not in ("ok", "fault") for e in exps):
            exp = exps[0] if all(e == exps[0] or e[0] == exps[0][0] == "either" for e in exps) and (va & 0xFFF) <= 0xFFC else None
            if exp is None or exp[0] in ("either", "any"):
                if exp is None or (va & 0xFFF) > 0xFFC:
                    res.outcome("%s unaligned over an architecturally open translation: skipped" % name)
                    return
        else:
            bad = [i for i, e in enumerate(exps) if e[0] != "ok"]
            if bad:
                exp = exps[bad[0]]
                partial = tuple(exps[i][1].pa for i in range(bad[0])) if store else ()
            else:
                exp = exps[0]
                pas = [e[1].pa for e in exps]
    res.outcome("%s %s" % (name, outcome_label(exp)))
    rp = dict(p, via=name, va=va, mode=mode, word=word, pc=pc)
    key = "%s %s%s " % (name, tags(p), site)
    if out[0] == "host":
        res.fail(key + "raises %s@%s" % (out[1], out[2]), "%s | %s" % (fmt_p(p), out[3]), rp)
        return
    alts = exp[1] if exp[0] == "either" else [exp]
    first = None
    for alt in alts:
        m = instr_judge(ctx, alt, out, pre, post, va, store, names, pas, partial)
        if m is None:
            return
        first = first or m
    res.fail(key + first[0], "va=%#x %s %s | %s | model: %r" % (va, mode, fmt_p(p), first[1], exp), rp)


def instr_judge(ctx, exp, out, pre, post, va, store, names, pas=None, partial=()):
    cfgd = ctx.cfgd
    ix = ctx.ix
    if exp[0] == "any":
        return None
    if exp[0] == "fault" and cfgd.get("have_lpae"):
        exp = ("notimpl", HOOK_LPAE_FAULT)
    if exp[0] == "notimpl":
        if out[0] != "notimpl":
            return ("expected-NotImplementedError(%s)" % exp[1], "step returned %r" % (out,))
        return None
    if out[0] == "notimpl":
        return ("unexpected-NotImplementedError@%s" % out[1].split(":")[-1], "expected %r" % (exp[1],))
    st = St(names, pre[0], pre[1], cfgd)
    if exp[0] == "ok":
        pa = exp[1].pa
        bpa = pas if pas is not None else [pa + i for i in range(4)]
        if store:
            v = st.R(2)
            for i in range(4):
                st.mem.wr(bpa[i], (v >> (8 * i)) & 0xFF)
        else:
            st.setR(2, sum(st.mem.rd(bpa[i]) << (8 * i) for i in range(4)))
        st.finish()
        d = st.compare(names, post[0], post[1])
        if not d:
            return None
        took_abort = post[0][ix["cpsr"]] & 0x1F == 0b10111
        if took_abort:
            return ("spurious-fault(%s)" % fs_name(post[0][ix["dfsr"]]), "model->impl: " + machine.fmt_diff(d))
        what = d[0][0]
        return ("wrong-data(%s)" % ("Rt" if what.startswith("R.R2") else "memory" if what.startswith("mem") else what),
                "PA %#x; model->impl: %s" % (pa, machine.fmt_diff(d)))
    f = exp[1]
    rexc.take(st, ModelStop("dabort", fault=f.kind, addr=f.mva, write=store, domain=f.domain or 0, level=f.level))
    st.unknown.add("dfsr")
    for b in partial:
        st.mem_unknown.add(b)
    d = st.compare(names, post[0], post[1])
    took_abort = post[0][ix["cpsr"]] & 0x1F == 0b10111
    if not took_abort:
        return ("missing-fault(%s L%d)" % (f.kind, f.level), "model->impl: " + machine.fmt_diff(d))
    dfsr = post[0][ix["dfsr"]]
    exp_name = "%s L%d" % (f.kind, f.level)
    if fs_name(dfsr) != exp_name:
        return ("wrong-fault(%s instead of %s)" % (fs_name(dfsr), exp_name), "DFSR=%#x" % dfsr)
    v, mask = vmsa.dfsr_sd(f, store, cfgd)
    full = 0xFFFFC000 | mask
    want = (pre[0][ix["dfsr"]] & ~0x3FFF) | v
    if (dfsr ^ want) & full:
        bad = (dfsr ^ want) & full
        return ("DFSR.%s" % ("domain" if bad & 0xF0 else "WnR" if bad & 0x800 else "bits"),
                "expected %#x (mask %#x) got %#x" % (want, full, dfsr))
    if d:
        what = d[0][0]
        return ("abort-entry %s" % ("DFAR" if what == "dfar" else what), "model->impl: " + machine.fmt_diff(d))
    return None


# ------------------------------------------------------------------------------------------------ Long-descriptor
LD_L1 = {0: 0x100000, 1: 0x100040}       # first-level tables (start level 1) of TTBR0 / TTBR1
LD_S2 = {0: 0x101000, 1: 0x102000}       # start-level-2 tables of TTBR0 / TTBR1 (up to 4 KB)
LD_L2, LD_L3 = 0x103000, 0x105000        # next-level tables
LD_VAS = [0x00000000, 0x3FE05A3C, 0x40000000, 0x7FFFFFFC, 0x80000000, 0xBFE00A30, 0xC0201008, 0xF8000000, 0xFFFFFFFC,
          0x01000010]


def ld_desc(pa, kind, af, ap21, ns, attridx, sh=0b10, xn=0, pxn=0, ng=0):
    low = (1 if kind == "block" else 3) | (attridx << 2) | (ns << 5) | (ap21 << 6) | (sh << 8) | (af << 10) | (ng << 11)
    return (pa & 0xFFFFFFF000) | low | (pxn << 53) | (xn << 54) | (1 << 55)      # bit 55: software use, ignored


def ld_table(next_, aptable, nstable, xntable=0, pxntable=0):
    return (next_ & 0xFFFFFFF000) | 3 | (pxntable << 59) | (xntable << 60) | (aptable << 61) | (nstable << 63)


def ld_build(ctx, t0sz, t1sz, va, leaf, invalid_at, af, ap21, nsb, aptable, nstable, attridx, ee, epd, ns, pid, inv_form=0):
    """Tables that map the 4 KB / 2 MB / 1 GB unit containing va with a leaf at level `leaf`.  -> (region, start level),
    region "ttbr0" | "ttbr1" | "none" (va in neither region); or None (the case does not exist for this start level)."""
    cpu, r = ctx.cpu, ctx.cpu.registers
    ctx.plan.restore(ctx.base)
    r.sctlr.value = SCTLR_BASE | 1 | (1 << 28) | (ee << 25)
    r.ttbcr.value = (1 << 31) | t0sz | (t1sz << 16) | (epd[0] << 7) | (epd[1] << 23) | (0b10 << 12) | (0b01 << 8)
    r.fcseidr.value = pid << 25
    r.scr.value = ns
    r.dacr.value = 0
    bases = {}
    for w, tsz in ((0, t0sz), (1, t1sz)):
        bases[w] = (LD_L1 if tsz < 2 else LD_S2)[w]
    r.ttbr0_64 = bases[0]
    r.ttbr1_64 = bases[1]
    mva = vmsa.fcse_mva(va, pid << 25)
    sel = vmsa.ld_select({"ttbcr": r.ttbcr.value, "ttbr0_64": "ttbr0", "ttbr1_64": "ttbr1"}, mva)
    if sel is None:
        return ("none", 0)
    w = 0 if sel[0] == "ttbr0" else 1
    tsz = (t0sz, t1sz)[w]
    start = level = 1 if tsz < 2 else 2
    if leaf < level or (invalid_at and invalid_at < level):
        return None
    base = bases[w]
    top = 31 - tsz
    pa_base = 0x8AC0000000 if leaf == 1 else 0x8ACE000000 if leaf == 2 else 0x8ACE135000
    while True:
        low = 39 - 9 * level
        idx = bv.bits(mva, top if level == start else low + 8, low)
        a = base + 8 * idx
        if invalid_at == level:
            wr64(cpu, a, 0xFFFFFFFFFFFFFFFD if (level == 3 and inv_form) else 0xFFFFFFFFFFFFFFFC, ee)
            break
        if level == leaf:
            # SH<1:0>: outer / non / inner shareable on a deterministic diagonal (0b01 is UNPREDICTABLE)
            sh = (0b10, 0b00, 0b11)[(attridx + ap21 + nsb + leaf + aptable) % 3]
            wr64(cpu, a, ld_desc(pa_base, "block" if level < 3 else "page", af, ap21, nsb, attridx, sh=sh), ee)
            break
        nxt = LD_L2 if level == 1 else LD_L3
        # hierarchical attributes on the first table descriptor of the chain only
        wr64(cpu, a, ld_table(nxt, aptable if level == start else 0, nstable if level == start else 0), ee)
        base = nxt
        level += 1
    return (sel[0], start)


def ld_shard(res, ctx, tier, t0sz):
    quick = tier == "quick"
    cpu, plan = ctx.cpu, ctx.plan
    k = 0
    for t1sz, va, leaf in itertools.product((0, 1, 2, 5), LD_VAS, (1, 2, 3)):
        for invalid_at, af, ap21, aptable in itertools.product((0, 1, 2, 3), (1, 0), range(4), range(4)):
            if invalid_at > leaf or (invalid_at and (ap21 or aptable or not af)):
                continue
            if aptable and leaf == 1:
                continue
            k += 1
            nsb, nstable, attridx, ee = k & 1, (k >> 1) & 1, rot(k, 8), (k >> 2) & 1
            ns, pid = (k >> 3) & 1, 5 * ((k >> 4) & 1)
            epd = (0, 0)
            inv_form = (k >> 5) & 1
            w = ld_build(ctx, t0sz, t1sz, va, leaf, invalid_at, af, ap21, nsb, aptable, nstable, attridx, ee, epd, ns, pid,
                         inv_form)
            if w is None or (w[0] == "none" and (leaf != 3 or invalid_at or ap21 or aptable)):
                continue
            ld_queries(ctx, res, dict(t0sz=t0sz, t1sz=t1sz, va=va, leaf=leaf, invalid_at=invalid_at, af=af, ap21=ap21,
                                      aptable=aptable, nsb=nsb, nstable=nstable, attridx=attridx, ee=ee, ns=ns, pid=pid, epd=epd,
                                      inv_form=inv_form), w)
    # EPD0 / EPD1: walks disabled
    for t1sz, va, epd in itertools.product((0, 2), LD_VAS, ((1, 0), (0, 1), (1, 1))):
        w = ld_build(ctx, t0sz, t1sz, va, 3, 0, 1, 1, 0, 0, 0, 3, 0, epd, 0, 0)
        ld_queries(ctx, res, dict(t0sz=t0sz, t1sz=t1sz, va=va, leaf=3, invalid_at=0, af=1, ap21=1, aptable=0, nsb=0, nstable=0,
                                  attridx=3, ee=0, ns=0, pid=0, epd=epd, inv_form=0), w)
    res.sample({"shard": "long-descriptor", "T0SZ": t0sz})


def ld_queries(ctx, res, q, wname):
    cpu, plan, r = ctx.cpu, ctx.plan, ctx.cpu.registers
    pre = plan.snapshot()
    loc = dict(zip(plan.names, pre[0]))
    mem = Flat(pre[1])
    va = q["va"]
    hsite = (wname, q["leaf"], q["invalid_at"], q["t1sz"] == 0)
    for priv, write in itertools.product((True, False), (False, True)):
        if ctx.hung.get(hsite, 0) >= 2:
            res.count("ld-cases-skipped-after-two-hangs-at-the-same-site")
            continue
        res.cases += 1
        res.add_state(hash((tuple(sorted(q.items())), priv, write)))
        exp = vmsa.translate(loc, ctx.cfgd, mem, va, priv, write)
        got = call_translate(cpu, va, priv, write)
        if got[0] == "hang":
            ctx.hung[hsite] = ctx.hung.get(hsite, 0) + 1
        res.transitions += 1
        post_regs = plan.regs()
        mem_same = plan.mem() == pre[1]
        res.outcome("LD " + outcome_label(exp))
        m = judge(ctx, exp, got, pre, post_regs, mem_same, write)
        if m is not None:
            region, start = wname
            # the region is part of the site only where a region-selection defect would show (T1SZ = 0)
            site = "long-descriptor %sstart-L%d/%s" % (
                ("T1SZ=0 %s/" % region) if q["t1sz"] == 0 else "", start,
                ("invalid-L%d" % q["invalid_at"]) if q["invalid_at"] else ("L%d-%s" % (q["leaf"], "page" if q["leaf"] == 3 else "block")))
            if exp[0] == "fault" and exp[1].kind == "translation" and exp[1].level == 1 and q["epd"] != (0, 0):
                site = "long-descriptor EPD0=%d,EPD1=%d %s" % (q["epd"][0], q["epd"][1], region)
            res.fail("translate %s %s" % (site, m[0]), "priv=%d write=%d %r | %s | model: %r" % (priv, write, q, m[1], exp),
                     dict(q, via="translate-ld", priv=priv, write=write))
        if post_regs != pre[0] or not mem_same:
            plan.restore(pre)


# ------------------------------------------------------------------------------------------------ replay
def replay(doc):
    rp = doc["replay"]
    signal.signal(signal.SIGVTALRM, _on_timer)
    lines = ["key: %s" % doc["key"], "recorded: %s" % doc["detail"]]
    if rp.get("via") == "translate-ld":
        ctx = Ctx("lpae")
        machine.activate(ctx.cpu)
        q = rp
        ld_build(ctx, q["t0sz"], q["t1sz"], q["va"], q["leaf"], q["invalid_at"], q["af"], q["ap21"], q["nsb"], q["aptable"],
                 q["nstable"], q["attridx"], q["ee"], tuple(q["epd"]), q["ns"], q["pid"], q.get("inv_form", 0))
    else:
        ctx = Ctx(rp["cfg"])
        machine.activate(ctx.cpu)
        p = {k: rp[k] for k in DEFAULTS}
        apply(ctx, p, with_code=rp.get("via") != "translate" and p["m"] == 1)
    pre = ctx.plan.snapshot()
    loc = dict(zip(ctx.plan.names, pre[0]))
    if rp.get("via", "translate").startswith("translate"):
        exp = vmsa.translate(loc, ctx.cfgd, Flat(pre[1]), rp["va"], rp["priv"], rp["write"])
        got = call_translate(ctx.cpu, rp["va"], rp["priv"], rp["write"])
        r = ctx.cpu.registers
        lines.append("model:          %r" % (exp,))
        lines.append("implementation: %r  DFSR=%#x DFAR=%#x" % (got, r.dfsr.value, r.dfar))
        lines.append("verdict: %r" % (judge(ctx, exp, got, pre, ctx.plan.regs(), ctx.plan.mem() == pre[1], rp["write"]),))
    else:
        res = Result()
        insn = [i for i in INSNS if i[0] == rp["via"]][0]
        instr_case(ctx, res, {k: rp[k] for k in DEFAULTS}, rp["va"], rp["mode"], insn, rp["pc"], "replay")
        for k, v in res.violations.items():
            lines.append("re-executed: %s | %s" % (k, v["detail"]))
        if not res.violations:
            lines.append("re-executed: agreement")
    return "\n".join(lines)
