"""C01 - data-processing instructions against the reference model (ref.rows_dp).

For every DP encoding row: the product of register-field patterns x S x shift types/amounts x immediate alphabets x
operand-value pairs x carry-in x flag backgrounds x IT position (16-bit Thumb) x mode x architecture version (Rd=PC)
is enumerated; each instance is placed in memory, stepped on the real emulator and the WHOLE post-state compared with
the model's prediction (destination, NZCV, PC/interworking, everything else unchanged)."""
import itertools

from ..runner import Result
from .. import machine, semcheck
from ..ref import rows_dp, bv
from ..ref.enc import A32, T16, T32

ID = "C01"
V32 = [0, 1, 2, 0x7F, 0x80, 0xFF, 0x7FFF, 0x8000, 0xFFFF, 0x10000, 0x7FFFFFFF, 0x80000000, 0x80000001, 0xFFFFFFFE,
       0xFFFFFFFF, 0x55555555, 0xAAAAAAAA, 0x12345678]
V32Q = [0, 1, 0xFF, 0x8000, 0x7FFFFFFF, 0x80000000, 0xFFFFFFFF, 0x12345678]
AMOUNTS = [0, 1, 31, 32, 33, 255, 0x100, 0xFFFFFF20]      # register shift amounts (garbage above bit 7)
TAGS = {n: 0x0BAD0000 + 0x111 * n for n in range(15)}
NSH = 48


def plan(tier):
    rows = rows_dp.ROWS
    shards = [(i, tier) for i in range(NSH)]
    return {
        "shards": shards,
        "rule": "for each of the %d data-processing encoding rows: register patterns x S x shift type x shift amounts x "
                "immediates x operand pairs x carry x flag background x IT position x mode (x arch version when Rd=PC); "
                "state = (word, registers, flags, mode, version)" % len(rows),
        "bounds": {"rows": len(rows), "operand_alphabet": [hex(v) for v in (V32Q if tier == "quick" else V32)],
                   "register_shift_amounts": [hex(a) for a in AMOUNTS], "imm5": [0, 1, 2, 16, 31],
                   "modes": ["svc", "usr", "fiq"] if tier == "quick" else ["svc", "usr", "fiq", "irq", "abt", "und", "sys"],
                   "versions_for_pc_writes": [4, 5, 6, 7]},
        "exhaustive": True,
        "assumptions": ["32-bit operand values come from the boundary alphabet", "cond = AL (conditions are C05)",
                        "instances the model classes UNPREDICTABLE are not generated"],
    }


def imm_values(row, letter):
    w = row.field_width(letter)
    if w == 12 and row.iset == A32:
        return [(rot << 8) | b for rot in (0, 1, 2, 4, 15) for b in (0, 1, 0x7F, 0x80, 0xFF)]
    if w == 12 and row.iset == T32 and "modified" in row_kind(row):
        out = [0x000, 0x0AB, 0x1AB, 0x2AB, 0x3AB, 0x0FF, 0x3FF]
        out += [(rot << 7) | b for rot in (8, 9, 16, 31) for b in (0x00, 0x7F, 0x55)]
        return out
    m = (1 << w) - 1
    return sorted({0, 1, 2, m >> 1, (m >> 1) + 1, m - 1, m} & set(range(m + 1)))


def row_kind(row):
    # modified-immediate rows have bit 25 = 0 in the first halfword pattern "11110i0"
    return "modified" if row.iset == T32 and row.pat.startswith("11110i0") else "plain"


REGPATS4 = [  # (d, n, m, s)
    (0, 1, 2, 3), (1, 1, 2, 3), (2, 1, 2, 3), (3, 1, 2, 3), (4, 4, 4, 4), (8, 9, 10, 11), (12, 11, 10, 9),
    (13, 1, 2, 3), (0, 13, 2, 3), (0, 1, 13, 3), (14, 1, 2, 3), (0, 14, 2, 3), (0, 1, 14, 3), (0, 1, 2, 14),
    (15, 1, 2, 3), (0, 15, 2, 3), (0, 1, 15, 3), (15, 15, 2, 3), (15, 1, 14, 3),
]
REGPATS3 = [(0, 1, 2, 3), (1, 1, 2, 3), (2, 1, 2, 3), (7, 6, 5, 4), (3, 3, 3, 3), (0, 7, 7, 1)]


def instances(row, tier):
    """Yields field dicts for one row."""
    letters = row.fields
    choices = {}
    regletters = [l for l in "dnms" if l in letters]
    wide = any(row.field_width(l) == 4 for l in regletters)
    pats = REGPATS4 if wide else REGPATS3
    for l in letters:
        if l == "c":
            choices[l] = [0xE]
        elif l == "S":
            choices[l] = [0, 1]
        elif l in ("D", "N"):
            choices[l] = [0, 1]
        elif l == "t":
            choices[l] = [0, 1, 2, 3]
        elif l in ("i", "j") and row.field_width(l) == 5 and "t" in letters or (l == "i" and row.field_width(l) == 5):
            choices[l] = [0, 1, 2, 16, 31]
        elif l in ("i", "j"):
            choices[l] = imm_values(row, l)
        elif l in regletters:
            pass
        else:
            raise KeyError((row.cls, l))
    other = [l for l in letters if l not in regletters]
    seen = set()
    for pat in pats:
        regs = {}
        for l in regletters:
            v = pat["dnms".index(l)]
            if row.field_width(l) == 3:
                v &= 7
            regs[l] = v
        key = tuple(sorted(regs.items()))
        if key in seen:
            continue
        seen.add(key)
        for combo in itertools.product(*[choices[l] for l in other]):
            f = dict(regs)
            f.update(zip(other, combo))
            yield f


def run_shard(arg):
    idx, tier = arg
    res = Result()
    envs = {}

    def env(ver):
        if ver not in envs:
            envs[ver] = semcheck.SemEnv({"arch_version": ver})
        return envs[ver]

    vals = V32Q if tier == "quick" else V32
    modes = [machine.MODES[m] for m in (("svc", "usr", "fiq") if tier == "quick" else
                                         ("svc", "usr", "fiq", "irq", "abt", "und", "sys"))]
    rows = rows_dp.ROWS
    for ri, row in enumerate(rows):
        if ri % NSH != idx:
            continue
        thumb16 = row.iset == T16
        ninst = 0
        for f in instances(row, tier):
            word = row.make(**f)
            found = rows_dp_lookup(row.iset, word)
            if found is not row:
                continue          # the instance belongs to a more specific encoding listed earlier
            regroles = {l: f[l] for l in "dnms" if l in f}
            dreg = None
            ninst += 1
            # operand registers: n and m (and the SP for the SP forms); s holds the shift amount
            reads = [r for l, r in regroles.items() if l in "nm"]
            dfull = None
            if "d" in f:
                dfull = f["d"] | ((f["D"] << 3) if (row.field_width("d") == 3 and "D" in f) else 0)
            writes_pc = dfull == 15
            vers = (4, 5, 6, 7) if writes_pc else ((6, 7) if ninst % 7 == 0 else (6,))
            its = (0x00, 0xE8, 0xE4) if thumb16 else ((0x00, 0xE8) if row.iset == T32 else (0,))
            # value tuples: full pair product only for a slice of instances, a diagonal otherwise (budget)
            if ninst % (11 if tier == "quick" else 2) == 1 and "s" not in f:
                pairs = [(a, b) for a in vals for b in vals]
            else:
                pairs = [(vals[k % len(vals)], vals[(k * 3 + 1) % len(vals)]) for k in range(len(vals))]
            amounts = AMOUNTS if "s" in f or ("m" in f and row.cls.endswith(("RegisterA1", "RegisterT1", "RegisterT2")) and
                                              row.cls[:3] in ("Lsl", "Lsr", "Asr", "Ror")) else [None]
            for ver in vers:
                e = env(ver)
                okits = [it for it in its if not (row.unpredictable is not None and row.unpredictable(
                    f, {"ver": ver, "in_it": bool(it & 0xF), "last_it": it & 0xF == 8, "C": 0}))]
                if not okits:
                    res.outcome("model-unpredictable-skipped")
                for (a, b), amt, cin, it in itertools.product(pairs, amounts, (0, 1), okits):
                    mode = modes[(res.cases // 3) % len(modes)]
                    regvals = dict(TAGS)
                    regvals[13] = 0x10400
                    regvals[14] = 0x10A00
                    if "n" in f:
                        regvals_set(regvals, f, "n", a, row)
                        if "m" in f:
                            regvals_set(regvals, f, "m", b, row)
                    elif "m" in f:
                        regvals_set(regvals, f, "m", a, row)
                        regvals[13] = (b & ~3) if writes_pc is False and row.cls.startswith(("AddSp", "SubSp")) else regvals[13]
                    elif row.cls.startswith(("AddSp", "SubSp")):
                        regvals[13] = a & ~3
                    if amt is not None:
                        shl = "s" if "s" in f else "m"
                        regvals_set(regvals, f, shl, amt, row)
                    regvals.pop(15, None)
                    nzcvq = (cin << 2) | (0b10010 if (res.cases & 1) else 0b01001)
                    res.cases += 1
                    res.add_state(hash((word, a, b, amt, cin, it, mode, ver)))
                    diffs, out, info = e.run(word, row, f, mode, regvals, nzcvq=nzcvq, it=it)
                    if diffs is None:
                        res.outcome("model-unpredictable-skipped")
                        continue
                    res.transitions += 1
                    res.outcome(info)
                    if diffs:
                        what = diffs[0][0].split("[")[0]
                        res.fail("%s %s" % (row.cls, "PC" if what == "R.PC" else "flags" if what == "cpsr" else
                                            "result" if what.startswith("R.") else what),
                                 semcheck.describe(row, f, word, mode, {k: v for k, v in regvals.items() if k in regroles.values() or k == 13},
                                                   "flags=%s it=%#x v%d" % (format(nzcvq, "05b"), it, ver)) +
                                 " | model->impl: " + machine.fmt_diff(diffs),
                                 {"cls": row.cls, "word": word, "fields": f, "mode": mode, "regvals": regvals, "nzcvq": nzcvq,
                                  "it": it, "ver": ver})
        res.sample({"row": row.cls, "pattern": row.pat, "instances": ninst})
    return res.as_dict()


def regvals_set(regvals, f, letter, value, row):
    r = f[letter]
    if row.field_width(letter) == 3 and letter == "d" and "D" in f:
        r |= f["D"] << 3
    if row.field_width(letter) == 3 and letter == "n" and "N" in f:
        r |= f["N"] << 3
    if r != 15:
        regvals[r] = value & 0xFFFFFFFF


_TABLE = None


def rows_dp_lookup(iset, word):
    global _TABLE
    if _TABLE is None:
        from ..ref.enc import Table
        _TABLE = Table()
        _TABLE.add(*rows_dp.ROWS)
    hit = _TABLE.lookup(iset, word)
    return hit[0] if hit else None


def replay(doc):
    r = doc["replay"]
    e = semcheck.SemEnv({"arch_version": r["ver"]})
    row = [x for x in rows_dp.ROWS if x.cls == r["cls"]][0]
    f = {k: int(v) for k, v in r["fields"].items()}
    regvals = {int(k): v for k, v in r["regvals"].items()}
    diffs, out, info = e.run(r["word"], row, f, r["mode"], regvals, nzcvq=r["nzcvq"], it=r["it"])
    return "%s word %#x -> %r %s\n model->impl: %s" % (r["cls"], r["word"], out, info, machine.fmt_diff(diffs or [], 40))
