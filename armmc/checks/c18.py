"""C18 - stepping is total.  Invariant oracle: emulate_cycle() completes, takes an architectural exception, or raises
NotImplementedError from one of the documented unimplemented hooks; any other escaping exception is a violation keyed
by exception type + innermost site in the code under test.

(a) all 2^16 Thumb halfwords x IT context x mode x memory system x register file, through the real fetch;
(b) ARM and Thumb-32: lazy-word exploration of decode + from_bitarray (every leaf, UNPREDICTABLE ones included); the
    free bits of every leaf are concretised with fixed patterns and each concrete word is fetched and stepped for real;
(c) two-instruction programs over the harvested alphabet (state left behind by one step crashing the next);
(d) the harvested alphabet under other architecture versions / extension configurations."""
import os
import sys

from ..runner import Result
from .. import machine, isa, sweep, lazyword

ID = "C18"

IT_CTX = [("no-it", 0x00), ("it-pass", 0x06), ("it-fail", 0x16), ("it-last", 0x08)]   # NZCV=0110: EQ passes, NE fails
MEMSYS = ["mpu-off", "mpu-on", "vmsa-off"]
OTHER_CFGS = [
    {"arch_version": 7},
    {"arch_version": 5},
    {"arch_version": 7, "have_security_ext": False},
    {"arch_version": 7, "memory_system_architecture": "VMSA", "have_virt_ext": True, "have_lpae": True},
    {"arch_version": 7, "is_armv7r_profile": True},
]
# NotImplementedError is the documented outcome of these hooks / decoder regions (site = file:function)
NOTIMPL_OK_PREFIX = ("armv6/arm_v6.py:", "armv6/memory_controller_hub.py:set_bits", "armv6/opcodes/decoders/")


def plan(tier):
    shards = []
    for blk in range(64):
        shards.append(("t16", blk))
    cap = 10 if tier == "quick" else 14
    for i, cube in enumerate(sweep.arm_shards()):
        shards.append(("a32", cube, cap, tier))
    for i, cube in enumerate(sweep.thumb32_shards()):
        shards.append(("t32", cube, cap, tier))
    words = isa.harvest_words()
    nfirst = 60 if tier == "quick" else len(words)
    for i in range(32):
        shards.append(("pairs", i, nfirst))
    for ci in range(len(OTHER_CFGS)):
        shards.append(("cfg", ci))
    return {
        "shards": shards,
        "rule": "invariant 'no host-level exception escapes emulate_cycle()' on: all 2^16 Thumb-16 words x 4 IT contexts x "
                "{usr,svc} x 3 memory systems x 2 register files; every leaf of the lazy-word partition of ARM and "
                "Thumb-32 decode+from_bitarray, free bits concretised with {all-0, all-1, 0101, 1010}%s, each concrete word "
                "stepped in {svc,usr} x {ram,wild} register files; two-instruction programs; other configurations" % (
                    "" if tier == "quick" else " + every walking 1"),
        "bounds": {"wide_observation_cap": cap, "it_contexts": IT_CTX, "memsys": MEMSYS, "pairs_first_words": nfirst,
                   "other_configs": OTHER_CFGS},
        "exhaustive": False,
        "assumptions": ["the 32-bit spaces are covered per decode leaf (complete partition of class selection and operand "
                        "extraction under the wide-observation cap), each leaf by pattern members - not every word is stepped",
                        "NotImplementedError is accepted from arm_v6.py mock hooks, hub.set_bits and decoder regions"],
        "deadline_s": 400 if tier == "quick" else 1700,
    }


def judge(res, out, label, rp):
    if out[0] == "ok":
        res.outcome("ok")
    elif out[0] == "notimpl":
        res.outcome("notimpl " + out[1])
        if not out[1].startswith(NOTIMPL_OK_PREFIX):
            res.count("notimpl_from_other_sites")     # recorded, not a violation: the property allows any explicitly
            #                                            unimplemented feature to be reported this way
    else:
        res.outcome("HOST " + out[1])
        res.fail("%s@%s" % (out[1], out[2]), "%s: %s" % (label, out[3]), rp)


def run_shard(arg):
    kind = arg[0]
    res = Result()
    if kind == "t16":
        t16(res, arg[1])
    elif kind in ("a32", "t32"):
        lazy32(res, kind, arg[1], arg[2], arg[3])
    elif kind == "pairs":
        pairs(res, arg[1], arg[2])
    else:
        cfgs(res, arg[1])
    return res.as_dict()


def t16(res, blk):
    envs = [sweep.Env(ms) for ms in MEMSYS]
    for env in envs:
        for mode in ("usr", "svc"):
            for rf in ("ram", "wild"):
                base = env.base(mode, rf)
                for w in range(blk * 1024, (blk + 1) * 1024):
                    if (w >> 11) in (0b11101, 0b11110, 0b11111):
                        continue
                    for itname, it in IT_CTX:
                        res.cases += 1
                        out = sweep.step_word(env, base, w, True, 16, it)
                        res.transitions += 1
                        if out[0] != "ok":
                            judge(res, out, "thumb16 %#06x %s %s %s %s" % (w, itname, mode, env.memsys, rf),
                                  {"iset": "thumb", "olen": 16, "word": w, "it": it, "mode": mode, "memsys": env.memsys,
                                   "regfile": rf})
                        else:
                            res.outcome("ok")
    res.states = set(range(blk * 1024, (blk + 1) * 1024))
    res.sample({"thumb16_block": [hex(blk * 1024), hex((blk + 1) * 1024 - 1)], "contexts": 4 * 2 * 3 * 2})


def lazy32(res, kind, cube, cap, tier):
    thumb = kind == "t32"
    env = sweep.Env("mpu-off")
    env2 = sweep.Env("mpu-on")
    cpu = env.cpu
    bases = [(env, env.base("svc", "ram"), "svc/ram/mpu-off"), (env2, env2.base("usr", "wild"), "usr/wild/mpu-on")]
    its = [0] if not thumb else [0, 0x08]
    walk = tier != "quick"
    for it in its:
        f = sweep.decode_fn(cpu, 1 if thumb else 0, 32, it)
        leaves = []

        def on_leaf(mask, val, r, exc):
            leaves.append((mask, val, r if exc is None else "EXC:" + type(exc).__name__))
        env.plan.restore(bases[0][1])
        t = lazyword.explore(f, 32, cube[0], cube[1], on_leaf, wide_cap=cap)
        res.count("lazy_runs", t.runs)
        res.count("leaves", t.leaves)
        res.count("words_in_leaves", t.words)
        res.count("words_outside_cap", t.capped_words)
        if t.words + t.capped_words != 1 << (32 - bin(cube[0]).count("1")):
            res.fail("engine: tiling", "leaves do not tile the cube %r: %d + %d" % (cube, t.words, t.capped_words))
        for mask, val, label in leaves:
            res.add_state(hash((mask, val, it)))
            cond_resolved = thumb or ((mask >> 28) == 0xF and (val >> 28) >= 0xE)
            mem = lazyword.members(mask, val, 32, walk) if cond_resolved else [val]
            for w in mem:
                for e, b, bname in bases:
                    res.cases += 1
                    out = sweep.step_word(e, b, w, thumb, 32, it)
                    res.transitions += 1
                    if out[0] == "ok":
                        res.outcome("ok")
                    else:
                        judge(res, out, "%s %#010x it=%#x %s (decode leaf: %s)" % (kind, w, it, bname, label),
                              {"iset": kind, "olen": 32, "word": w, "it": it, "ctx": bname, "leaf": [mask, val, label]})
    res.sample({"cube": [hex(cube[0]), hex(cube[1])], "leaves": len(leaves),
                "example_leaf": [hex(leaves[0][0]), hex(leaves[0][1]), leaves[0][2]] if leaves else None})


def pairs(res, idx, nfirst):
    env = sweep.Env("mpu-off")
    base = env.base("svc", "ram")
    for thumb in (False, True):
        words = isa.harvest_words(thumb)
        firsts = [w for i, w in enumerate(words) if i % max(1, len(words) // nfirst) == 0][:nfirst] if nfirst < len(words) else words
        for fi, (t1, ol1, w1, c1) in enumerate(firsts):
            if fi % 32 != idx:
                continue
            for t2, ol2, w2, c2 in words:
                env.plan.restore(base)
                cpu = env.cpu
                machine.put_instr(cpu, isa.CODE, w1, thumb, ol1)
                machine.put_instr(cpu, isa.CODE + ol1 // 8, w2, thumb, ol2)
                cpu.registers.cpsr.t = int(thumb)
                cpu.registers.branch_to(isa.CODE)
                env.plan.reset_scratch()
                res.cases += 1
                res.add_state(hash((thumb, w1, w2)))
                for k in range(2):
                    out = machine.step(cpu)
                    res.transitions += 1
                    if out[0] != "ok":
                        judge(res, out, "program [%s %#x; %s %#x] step %d" % (c1, w1, c2, w2, k),
                              {"iset": "thumb" if thumb else "arm", "program": [[ol1, w1], [ol2, w2]], "step": k})
                        break
                    res.outcome("ok")
    res.sample({"pair": "two-instruction programs over the harvested alphabet", "shard": idx})


def cfgs(res, ci):
    cfg = OTHER_CFGS[ci]
    for ms in (["mpu-off", "mpu-on"] if cfg.get("memory_system_architecture") != "VMSA" else ["vmsa-off"]):
        env = sweep.Env(ms, cfg)
        for mode in ("usr", "svc") + (("hyp",) if cfg.get("have_virt_ext") else ()):
            if mode == "hyp":
                env.cpu.registers.scr.ns = 1
                env.bases.clear()
            base = env.base(mode, "ram")
            # a second register file with every register zero (divisors, shift amounts, addresses) and SCTLR<19> set (DZ:
            # divide-by-zero trapping on the R profile, WXN elsewhere)
            zr = list(base[0])
            for k, nm in enumerate(env.plan.names):
                if nm.startswith("R.") and nm != "R.PC":
                    zr[k] = 0
            zr[env.plan.index["sctlr"]] |= 1 << 19
            zero = (tuple(zr), base[1])
            for rf, b_ in (("ram", base), ("zero+sctlr19", zero)):
                for t, olen, w, cname in isa.harvest_words():
                    for it in ([0] if not t else [0, 0x08]):
                        res.cases += 1
                        res.add_state(hash((ci, ms, mode, t, w, it, rf)))
                        out = sweep.step_word(env, b_, w, bool(t), olen, it)
                        res.transitions += 1
                        if out[0] != "ok":
                            judge(res, out, "%s %#x it=%#x %s %s %s cfg=%r" % (cname, w, it, mode, ms, rf, cfg),
                                  {"cfg": cfg, "memsys": ms, "mode": mode, "thumb": t, "olen": olen, "word": w, "it": it,
                                   "regfile": rf})
                        else:
                            res.outcome("ok")
    res.sample({"config": cfg})


def replay(doc):
    r = doc["replay"]
    if "program" in r:
        return "program replay: %r\n%s" % (r, doc["detail"])
    cfg = r.get("cfg")
    env = sweep.Env(r.get("memsys", "mpu-off"), cfg)
    base = env.base(r.get("mode", "svc"), r.get("regfile", "ram"))
    thumb = r.get("iset", "thumb" if r.get("thumb") else "arm") in ("thumb", "t32")
    out = sweep.step_word(env, base, r["word"], thumb, r["olen"], r.get("it", 0))
    return "word %#x -> %r" % (r["word"], out)
