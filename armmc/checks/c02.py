"""C02 - single-register loads and stores against the reference model (ref.rows_ldst).

Every encoding row of the load/store group is enumerated in three sweeps (all deterministic products / diagonals):

  S1 access matrix     primary register pattern x P/U/W x {two small immediates | LSL #0,#2 with offsets 0,4}
                       x base {0x10100 mid RAM, 0x4 start of low RAM, 0xFFFFFFF0 and 0xFFFFFFFC just below 2^32}
                       x alignment 0..3 x CPSR.E x SCTLR.A x SCTLR.U x data variant x mode {usr, svc}
                       (thorough: the whole S2 offset alphabet and a third data variant)
  S2 address arithmetic primary register pattern x P/U/W x the whole immediate alphabet {0,1,2,3,4,0xFF,max}
                       | shift {LSL,LSR,ASR,ROR}x{0,1,2,31}+RRX x offset values {0,4,-4,2^31,1} (x carry for RRX)
                       x base x alignment 0..3           (configuration, mode, data on a stated diagonal)
  S3 register patterns  every register pattern (SP, PC, LR, high, Rn==Rt, Rm==Rn, Rm==Rt, Rt=PC) x P/U/W x two offsets
                       x base x alignment {0, diagonal}; loads to PC x branch targets with low bits 00/01/11

Each instance is placed in memory, stepped on the real emulator and the WHOLE post-state (all registers of all modes,
CPSR, system registers, every RAM byte) compared with the model.  Literal / PC-based forms vary the instruction address
instead of the base register.  Store-exclusives accept either architecturally permitted outcome."""
import itertools

from ..runner import Result
from .. import machine, semcheck
from ..ref import rows_ldst, bv
from ..ref.enc import A32, T16, T32, Table
from ..ref.state import phys

ID = "C02"
VERS = (6, 7)
BASES = [0x10100, 0x4, 0xFFFFFFF0, 0xFFFFFFFC]
CODES_ARM = [0x10800, 0x10804, 0xC, 0xFFFFFFE0]            # instruction addresses for PC-relative forms
CODES_THUMB = [0x10800, 0x10802, 0xC, 0xFFFFFFE2]
OFFVALS = [0, 4, 0xFFFFFFFC, 0x80000000, 1]
IMM_ALPHA = [0, 1, 2, 3, 4, 0xFF]
PUWS = [(1, 1, 0), (1, 0, 0), (1, 1, 1), (1, 0, 1), (0, 1, 0), (0, 0, 0), (0, 1, 1), (0, 0, 1)]
SHIFTS = [(s, i) for s in range(4) for i in (0, 1, 2, 31)]      # (type, imm5); imm5=0: LSL#0, LSR#32, ASR#32, RRX
RT_DATA, RT2_DATA, RD_DATA = 0x81F27304, 0x95A6B7C8, 0x5D5D5D5D
TAGS = {n: 0x0BAD0000 + 0x111 * n for n in range(15)}
PATCH = [bytes([0x81, 0x12, 0xA3, 0x34, 0xC5, 0x56, 0xE7, 0x78, 0x89, 0x1A, 0xAB, 0x3C]),
         bytes([0x01, 0x92, 0x23, 0xB4, 0x45, 0xD6, 0x67, 0xF8, 0x09, 0x9A, 0x2B, 0xBC])]
TARGET = 0x10900
# (t, n, m, T, d)
REGPATS = [
    (2, 1, 6, 4, 5),            # primary
    (2, 13, 6, 4, 5),           # Rn = SP
    (2, 15, 6, 4, 5),           # Rn = PC
    (15, 1, 6, 4, 5),           # Rt = PC
    (14, 1, 6, 4, 5),           # Rt = LR
    (12, 11, 10, 9, 8),         # high registers (t even for the ARM doubleword forms)
    (1, 1, 6, 4, 5),            # Rn == Rt
    (2, 1, 1, 4, 5),            # Rm == Rn
    (2, 1, 2, 4, 5),            # Rm == Rt
    (0, 7, 5, 3, 4),            # low registers for the 16-bit encodings
    (4, 1, 6, 1, 5),            # Rt2 == Rn (Thumb doubleword)
    (15, 13, 6, 4, 5),          # Rt = PC, Rn = SP
]
_TABLE = None
_ENVS = {}


def table():
    global _TABLE
    if _TABLE is None:
        _TABLE = Table()
        _TABLE.add(*rows_ldst.ROWS)
    return _TABLE


LPAE = 7.5        # pseudo version: ARMv7 with the Large Physical Address Extension (64-bit single-copy LDRD/STRD path)


def env_cfg(ver):
    return {"arch_version": 7, "have_lpae": True} if ver == LPAE else {"arch_version": ver}


def env(ver):
    if ver not in _ENVS:
        _ENVS[ver] = semcheck.SemEnv(env_cfg(ver))
    return _ENVS[ver]


def cfgs(ver):
    """(E, A, U); SCTLR.U is RAO/1 from ARMv7."""
    return [(E, A, U) for E in (0, 1) for A in (0, 1) for U in ((0, 1) if ver < 7 else (1,))]


def plan(tier):
    rows = rows_ldst.ROWS
    shards = [(ri, ver, tier) for ri in range(len(rows)) for ver in VERS]
    # the doubleword forms again with LPAE: the implementation then takes its 8-byte access path, which must still equal
    # the two word transfers of the pseudocode
    shards += [(ri, LPAE, tier) for ri in range(len(rows)) if rows[ri].cls.startswith(("Ldrd", "Strd", "Ldrexd", "Strexd"))]
    return {
        "shards": shards,
        "rule": "for each of the %d load/store encoding rows x arch version: S1 (P/U/W x base x alignment x E x A x U x data), "
                "S2 (P/U/W x immediate alphabet | shift x offset value x carry, x base), S3 (register patterns incl. SP, PC, "
                "Rn==Rt, Rt=PC with branch targets 00/01/11); state = (word, registers, memory patch, cpsr, sctlr, "
                "version, mode, instruction address)" % len(rows),
        "bounds": {"rows": len(rows), "bases": [hex(b) for b in BASES], "alignment": [0, 1, 2, 3],
                   "code_addresses_pc_relative": [hex(a) for a in CODES_ARM + CODES_THUMB],
                   "immediates": [hex(i) for i in IMM_ALPHA] + ["field max"],
                   "shifts": "LSL/LSR/ASR/ROR x imm5 {0,1,2,31} (imm5=0: LSL#0, LSR#32, ASR#32, RRX)",
                   "offset_register_values": [hex(v) for v in OFFVALS], "E": [0, 1], "SCTLR.A": [0, 1],
                   "SCTLR.U": "0,1 on v6; 1 on v7 (RAO)", "versions": list(VERS) + ["7+LPAE for the doubleword rows"], "modes": ["usr", "svc"],
                   "pc_targets_low_bits": ["00", "01", "11"], "tier": tier},
        "exhaustive": True,
        "assumptions": ["cond = AL (conditions are C05)", "MPU off, flat memory (protection is C14/C15)",
                        "instances the model classes UNPREDICTABLE are not compared",
                        "store-exclusive: status 1 without store and status 0 with store are both accepted",
                        "ARMv6 doubleword alignment corner cases (address<2:0> = 100 with A=1 or U=0) not compared",
                        "SCTLR.U = 0 is not generated on ARMv7 (RAO there)"],
    }


# ------------------------------------------------------------------------------------------------- generation
def imm_alphabet(row):
    w = row.field_width("i")
    m = (1 << w) - 1
    return sorted({v for v in IMM_ALPHA if v <= m} | {m})


def is_pcrel(row, f):
    return "Literal" in row.cls or f.get("n") == 15


def regfields(row, pat):
    t, n, m, T2, d = pat
    out = {}
    for l, v in (("t", t), ("n", n), ("m", m), ("T", T2), ("d", d)):
        if l in row.fields:
            out[l] = v & ((1 << row.field_width(l)) - 1) if row.field_width(l) < 4 else v
    return out


def regpats(row):
    seen, out = set(), []
    for pat in REGPATS:
        rf = regfields(row, pat)
        if row.iset == T16 and max(pat[:3]) > 7 and pat is not REGPATS[0]:
            continue
        k = tuple(sorted(rf.items()))
        if k not in seen:
            seen.add(k)
            out.append(rf)
    return out


def puw_choices(row):
    if "P" in row.fields:
        return [dict(P=p, U=u, W=w) for p, u, w in PUWS]
    if "U" in row.fields:
        return [dict(U=1), dict(U=0)]
    return [{}]


def offset_choices(row, sweep):
    """[(field dict for i/s, [offset register values], [carry values])]."""
    if "s" in row.fields:                           # ARM register offset with immediate shift
        if sweep == "S2":
            return [({"s": s, "i": i}, OFFVALS, (0, 1) if (s, i) == (3, 0) else (0,)) for s, i in SHIFTS]
        if sweep == "S1":
            return [({"s": 0, "i": 0}, [0, 4], (0,)), ({"s": 0, "i": 2}, [1], (0,))]
        return [({"s": 0, "i": 0}, [4, 0xFFFFFFFC], (0,)), ({"s": 0, "i": 2}, [1], (1,))]
    if "m" in row.fields:
        if "i" in row.fields:                       # Thumb-2 LSL #imm2
            if sweep == "S2":
                return [({"i": i}, OFFVALS, (0,)) for i in range(4)]
            if sweep == "S1":
                return [({"i": 0}, [0, 4], (0,)), ({"i": 2}, [1], (0,))]
            return [({"i": 0}, [4, 0xFFFFFFFC], (0,)), ({"i": 3}, [1], (1,))]
        if sweep == "S2":
            return [({}, OFFVALS, (0,))]
        if sweep == "S1":
            return [({}, [0, 4, 1], (0,))]
        return [({}, [4, 0xFFFFFFFC], (0,))]
    if "i" in row.fields:
        al = imm_alphabet(row)
        if sweep == "S2":
            return [({"i": i}, [None], (0,)) for i in al]
        if sweep == "S1":
            pick = [0, 1, 2, 3] if ("Literal" in row.cls and row.iset != T16) else [0, 1]
            return [({"i": i}, [None], (0,)) for i in pick if i in al]
        return [({"i": i}, [None], (0,)) for i in (0, 4) if i in al]
    return [({}, [None], (0,))]


class _Stub:
    def __init__(self, regs, pc_read, C):
        self.regs, self.pc_read, self.C = regs, pc_read, C

    def R(self, n):
        return self.pc_read if n == 15 else self.regs.get(n, 0)


def gen_address(row, f, regvals, code, C):
    """Where the access is expected to land (generator side only: decides where the data patch is placed)."""
    thumb = row.iset != A32
    ops = row.operands(f, {"ver": 7, "in_it": False, "last_it": False, "C": C})
    st = _Stub(regvals, (code + (4 if thumb else 8)) & 0xFFFFFFFF, C)
    return rows_ldst.addressing(st, ops, "Literal" in row.cls)[0], ops


def word_patches(addr, data):
    """Patch list of aligned words (never crossing a device end)."""
    a0 = addr & 0xFFFFFFFC
    return [((a0 + k) & 0xFFFFFFFC, data[k:k + 4]) for k in range(0, len(data), 4)]


class Sweep:
    def __init__(self, res, row, ver, tier):
        self.res, self.row, self.ver, self.tier = res, row, ver, tier
        self.e = env(ver)
        self.cfgs = cfgs(ver)
        self.k = 0                       # diagonal counter
        self.thumb = row.iset != A32
        self.excl = row.cls.startswith("Strex")
        self.load = row.cls.startswith("Ld")
        self.sctlr0 = self.e.base[0][self.e.index["sctlr"]] & ~((1 << 22) | 2 | 1)
        self.ninst = 0
        self.v = 0                       # variant-group counter for the diagonals

    def case(self, f, word, base, align, offv, C, cfg, mode, data, it, target=None):
        row, res = self.row, self.res
        E, A, U = cfg
        regvals = dict(TAGS)
        regvals[13] = 0x10400
        regvals[14] = 0x10A00
        if "d" in f:
            regvals[f["d"]] = RD_DATA
        if "T" in f:
            regvals[f["T"]] = RT2_DATA
        elif row.cls.startswith(("Ldrd", "Strd", "Ldrexd", "Strexd")) and f["t"] < 14:
            regvals[f["t"] + 1] = RT2_DATA
        t = f["t"]
        if t != 15:
            regvals[t] = RT_DATA
        if "m" in f and f["m"] != 15 and offv is not None:
            regvals[f["m"]] = offv
        pcrel = is_pcrel(row, f)
        code = semcheck.CODE
        if pcrel:
            code = base                   # for PC-relative forms `base` is the instruction address
        else:
            n = f["n"] if "n" in f else 13
            regvals[n] = (base + align) & 0xFFFFFFFF
        regvals.pop(15, None)
        address, ops = gen_address(row, f, regvals, code, C)
        mempatch = None
        if target is not None:
            v = TARGET | target
            mempatch = word_patches(address, v.to_bytes(4, "big" if E else "little"))
        elif data:
            mempatch = word_patches(address, PATCH[data - 1])
        if mempatch:                      # never patch over the instruction under test
            mempatch = [(a, b) for a, b in mempatch if not ((a - (code & 0xFFFFFFFC)) & 0xFFFFFFFF) < 8] or None
        nzcvq = (C << 2) | (0b10010 if (self.k & 1) else 0b01001)
        extra = {"sctlr": self.sctlr0 | (U << 22) | (A << 1)}
        self.k += 1
        res.cases += 1
        res.add_state(hash((word, base, align, offv, C, cfg, mode, data, it, target, self.ver)))
        hook = None
        if self.excl:
            hook = lambda st: setattr(st, "excl_pass", False)
        diffs, out, info = self.e.run(word, row, f, mode, regvals, nzcvq=nzcvq, it=it, addr=code, extra=extra,
                                      mempatch=mempatch, cpsr_or=E << 9, model_hook=hook)
        if diffs and self.excl:
            d2, out2, info2 = self.e.run(word, row, f, mode, regvals, nzcvq=nzcvq, it=it, addr=code, extra=extra,
                                         mempatch=mempatch, cpsr_or=E << 9,
                                         model_hook=lambda st: setattr(st, "excl_pass", True))
            if d2 == []:
                diffs, out, info = d2, out2, "ok(excl-pass)"
        if diffs is None:
            res.outcome("model-unpredictable-skipped")
            return
        res.transitions += 1
        res.outcome(info)
        if diffs:
            what = classify(diffs, info, f, mode, out, row.cls.startswith(("Ldrd", "Strd", "Ldrexd", "Strexd")))
            desc = semcheck.describe(row, f, word, mode, {k: v for k, v in regvals.items() if k in f.values() or k == 13},
                                     "code=%#x E=%d A=%d U=%d C=%d it=%#x v%d data=%r target=%r addr~%#x" % (
                                         code, E, A, U, C, it, self.ver, data, target, address))
            res.fail("%s %s" % (row.cls, what), desc + " | model->impl: " + machine.fmt_diff(diffs),
                     {"cls": row.cls, "word": word, "fields": f, "mode": mode, "regvals": regvals, "nzcvq": nzcvq, "it": it,
                      "ver": self.ver, "code": code, "E": E, "sctlr": extra["sctlr"],
                      "mempatch": [(a, list(b)) for a, b in (mempatch or [])]})

    def instance(self, fields):
        """word if the field assignment is an instance of this row that the model classes predictable, else None."""
        row = self.row
        word = row.make(**fields)
        hit = table().lookup(row.iset, word)
        if hit is None or hit[0] is not row:
            return None
        if row.unpredictable is not None and row.unpredictable(fields, {"ver": self.ver, "in_it": False, "last_it": False,
                                                                        "C": 0}):
            self.res.outcome("model-unpredictable-not-generated")
            return None
        self.ninst += 1
        return word

    def bases_for(self, f):
        if is_pcrel(self.row, f):
            return [(c, 0) for c in (CODES_THUMB if self.thumb else CODES_ARM)]
        return None

    def modes(self):
        return (machine.MODES["usr"], machine.MODES["svc"])

    def run(self):
        row, tier = self.row, self.tier
        rps = regpats(row)
        puws = puw_choices(row)
        const = {"c": 0xE} if "c" in row.fields else {}
        modes = self.modes()
        ncfg = len(self.cfgs)
        thorough = tier != "quick"
        # ---------------------------------------------------------------- S1: access matrix
        for puw in puws:
            for offf, offvals, cs in offset_choices(row, "S2" if thorough else "S1"):
                f = dict(const, **rps[0], **puw, **offf)
                word = self.instance(f)
                if word is None:
                    continue
                ba = self.bases_for(f) or [(b, a) for b in BASES for a in range(4)]
                datas = (0, 1, 2) if thorough else (0, 1)
                for (b, a), offv, C, cfg, data, mode in itertools.product(ba, offvals, cs, self.cfgs, datas, modes):
                    self.case(f, word, b, a, offv, C, cfg, mode, data, 0)
        # ---------------------------------------------------------------- S2: address arithmetic
        for puw in puws:
            for offf, offvals, cs in offset_choices(row, "S2"):
                f = dict(const, **rps[0], **puw, **offf)
                word = self.instance(f)
                if word is None:
                    continue
                for offv, C in itertools.product(offvals, cs):
                    ba = self.bases_for(f) or [(b, a) for b in BASES for a in range(4)]
                    self.v += 1
                    for j, (b, a) in enumerate(ba):
                        cfg, mode, data = self.diag(j)
                        self.case(f, word, b, a, offv, C, cfg, mode, data, 0)
        # ---------------------------------------------------------------- S3: register patterns
        for rp in rps:
            for puw in puws:
                for offf, offvals, cs in offset_choices(row, "S3"):
                    f = dict(const, **rp, **puw, **offf)
                    word = self.instance(f)
                    if word is None:
                        continue
                    to_pc = self.load and f["t"] == 15 and "T" not in f
                    its = (0, 0xE8) if self.thumb else (0,)
                    for offv in offvals:
                        self.v += 1
                        pc = self.bases_for(f)
                        if pc:
                            ba = pc
                        elif to_pc:
                            ba = [(b, 0) for b in BASES] + [(BASES[0], 1 + self.v % 3)]
                        elif thorough:
                            ba = [(b, a) for b in BASES for a in range(4)]
                        else:
                            ba = [(b, a) for b in BASES for a in (0, 1 + self.v % 3)]
                        for j, (b, a) in enumerate(ba):
                            cfg, mode, data = self.diag(j)
                            if to_pc:
                                for tg, it in itertools.product((0, 1, 3), its):
                                    for cfg2 in (self.cfgs if thorough else [cfg, self.cfgs[(self.cfgs.index(cfg) + 3) % ncfg]]):
                                        self.case(f, word, b, a, offv, cs[0], cfg2, mode, 0, it, target=tg)
                            else:
                                it = its[((j + self.v) // 3) % len(its)]
                                self.case(f, word, b, a, offv, cs[0], cfg, mode, data, it)

    def diag(self, j):
        """Deterministic diagonal over (configuration, mode, data variant): position j of variant group v."""
        h = j + 5 * self.v
        n = len(self.cfgs)
        return self.cfgs[h % n], self.modes()[(h // n) % 2], (h // (2 * n) + h) % 2


def classify(diffs, info, f, mode, out, dual=False):
    names = [d[0] for d in diffs]
    if names[0] == "step-outcome":
        return "raises %s@%s" % (out[1], out[2]) if out[0] == "host" else "step-" + out[0]
    cp = [d for d in diffs if d[0] == "cpsr"]
    if cp and (cp[0][2] & 0x1F) == 0x1B and (cp[0][1] & 0x1F) != 0x1B:
        return "takes-undefined"
    if info == "dabort":
        if cp and (cp[0][2] & 0x1F) != 0x17:
            return "missing-alignment-fault"
        return "abort-state"
    if cp and (cp[0][2] & 0x1F) == 0x17 and (cp[0][1] & 0x1F) != 0x17:
        return "spurious-abort"
    if "R.PC" in names:
        return "PC"
    if cp:
        return "cpsr"
    tn = {phys(f[l], mode): lab for l, lab in (("n", "writeback"), ("d", "status"), ("T", "Rt2"), ("t", "Rt")) if l in f and f[l] != 15}
    if dual and "T" not in f and f["t"] < 14:
        tn.setdefault(phys(f["t"] + 1, mode), "Rt2")
    if "n" not in f:
        tn.setdefault(phys(13, mode), "writeback")
    for n in names:
        if n in tn:
            return tn[n]
    if names[0].startswith("mem["):
        return "memory"
    if names[0].startswith("R."):
        return "other-register"
    return names[0]


def run_shard(arg):
    ri, ver, tier = arg
    res = Result()
    row = rows_ldst.ROWS[ri]
    sw = Sweep(res, row, ver, tier)
    sw.run()
    res.sample({"row": row.cls, "pattern": row.pat, "version": ver, "instances": sw.ninst})
    return res.as_dict()


def replay(doc):
    r = doc["replay"]
    e = semcheck.SemEnv(env_cfg(r["ver"]))
    row = [x for x in rows_ldst.ROWS if x.cls == r["cls"]][0]
    f = {k: int(v) for k, v in r["fields"].items()}
    regvals = {int(k): v for k, v in r["regvals"].items()}
    mp = [(a, bytes(b)) for a, b in r["mempatch"]] or None
    outs = []
    for ep in ((False, True) if row.cls.startswith("Strex") else (False,)):
        diffs, out, info = e.run(r["word"], row, f, r["mode"], regvals, nzcvq=r["nzcvq"], it=r["it"], addr=r["code"],
                                 extra={"sctlr": r["sctlr"]}, mempatch=mp, cpsr_or=r["E"] << 9,
                                 model_hook=lambda st: setattr(st, "excl_pass", ep))
        outs.append("%s word %#x -> %r %s\n model->impl: %s" % (r["cls"], r["word"], out, info,
                                                                  machine.fmt_diff(diffs or [], 40)))
    return "\n".join(outs)
