"""C13 - memory access model: the complete accessor x size x offset x E x A x U x version matrix against ref.memmodel,
store/load round trips, the same matrix through load/store instructions, and instruction fetch endianness."""
import itertools

from ..runner import Result
from .. import machine
from ..ref import bv, memmodel

ID = "C13"
MEM = [
    {"mem_type": "RAM", "beginning": 0x0, "end": 0x40},
    {"mem_type": "RAM", "beginning": 0x1000, "end": 0x1040},
    {"mem_type": "RAM", "beginning": 0x1080, "end": 0x10C0},          # a second device in the same 4 KB page
    {"mem_type": "RAM", "beginning": 0x2000, "end": 0x2040},          # code
    {"mem_type": "RAM", "beginning": 0xFFFFFFC0, "end": 0x100000000},
]
BASES = [0x1010, 0x1038, 0xFFFFFFF8, 0x0, 0x1090]
DATA = {1: [0x01, 0x80, 0xFF], 2: [0x0102, 0x80FF, 0xFFFF], 4: [0x01020304, 0x80FF7F01, 0xFFFFFFFF],
        8: [0x0102030405060708, 0x80FF7F01A1B2C3D4, 0xFFFFFFFFFFFFFFFF]}
ACCESSORS = ["mem_a", "mem_u", "mem_u_unpriv"]
VERS = [5, 6, 7]


def data_for(tier):
    if tier == "quick":
        return DATA
    # thorough: additionally every walking 1 and every walking 0 of the access width
    return {n: DATA[n] + [1 << i for i in range(8 * n)] + [((1 << (8 * n)) - 1) ^ (1 << i) for i in range(8 * n)]
            for n in DATA}


def plan(tier):
    bgs = (0,) if tier == "quick" else (0, 1)
    shards = [("direct", v, acc, tier, bg) for v in VERS for acc in ACCESSORS for bg in bgs] + \
             [("instr", v, s, tier, 0) for v in (6, 7) for s in ("arm", "thumb")] + \
             [("instr", 7, "arm-lpae", tier, 0)] + \
             [("fetch", v, None, tier, 0) for v in (6, 7)]
    return {
        "shards": shards,
        "rule": "every (accessor, get/set, size, base+offset 0..7, CPSR.E, SCTLR.A, SCTLR.U, arch version, mode, data) "
                "tuple executed on the real ArmV6 and compared with ref.memmodel: value, exact byte footprint over all "
                "devices, fault vs align-down vs byte-wise; every store followed by the same-size load; the same through "
                "LDR/STR/LDRB/STRB/LDRH/STRH/LDRSH/LDRSB/LDRD/STRD incl. register-offset LDRD/STRD (ARM; also with LPAE) and LDR/STR/LDRH/STRH/LDRB/STRB (Thumb); "
                "instruction fetch with E=0/1",
        "bounds": {"bases": [hex(b) for b in BASES], "offsets": "0..7", "sizes": [1, 2, 4, 8], "versions": VERS,
                   "modes": ["usr", "svc"], "data": {k: [hex(x) for x in v] for k, v in DATA.items()},
                   "data_thorough": "the above + every walking 1 and walking 0 of the access width; surrounding memory: "
                                    "the byte pattern and its complement" if tier != "quick" else "-",
                   "memory": "position-dependent byte pattern in 4 small RAMs (one ending at 2^32); MPU off"},
        "exhaustive": True,
        "assumptions": ["MPU disabled (flat mapping); protection is C14/C15",
                        "legacy (pre-v7, A=U=0) unaligned Thumb loads leave Rt UNKNOWN - not compared"],
    }


def setup(ver, lpae=False):
    cpu = machine.new_cpu(memory_list=MEM, arch_version=ver, **({"have_lpae": True} if lpae else {}))
    cpu.take_reset()
    cpu.registers.sctlr.m = 0
    plan = machine.Plan(cpu)
    return cpu, plan


def model_mem(snapmem):
    return memmodel.Flat(snapmem)


def run_shard(arg):
    kind, ver, sub, tier, bg = arg
    res = Result()
    cpu, plan = setup(ver, lpae=(sub == "arm-lpae"))
    regs = cpu.registers
    if bg:
        for mc in cpu.mem.memories:
            arr = mc.mem.memory_array
            for i in range(len(arr)):
                arr[i] ^= 0xFF
    base = plan.snapshot()
    if kind == "direct":
        direct(res, cpu, plan, base, ver, sub, data_for(tier))
    elif kind == "instr":
        instr(res, cpu, plan, base, ver, sub == "thumb")
    else:
        fetch(res, cpu, plan, base, ver)
    return res.as_dict()


def direct(res, cpu, plan, base, ver, acc, DATA=DATA):
    from armulator.armv6.arm_exceptions import DataAbortException
    regs = cpu.registers
    getf = getattr(cpu, acc + "_get")
    setf = getattr(cpu, acc + "_set")
    ref_get = memmodel.mem_a_get if acc == "mem_a" else memmodel.mem_u_get
    ref_set = memmodel.mem_a_set if acc == "mem_a" else memmodel.mem_u_set
    for b, off, size, E, A, U, mode in itertools.product(BASES, range(8), (1, 2, 4, 8), (0, 1), (0, 1), (0, 1),
                                                          ("usr", "svc")):
        addr = (b + off) & 0xFFFFFFFF
        for op, value in [("get", None)] + [("set", v) for v in DATA[size]]:
            plan.restore(base)
            regs.cpsr.e = E
            regs.sctlr.a = A
            regs.sctlr.u = U
            regs.cpsr.m = machine.MODES[mode]
            pre = plan.snapshot()
            mm = model_mem(pre[1])
            ctx = (acc, op, hex(addr), size, "E=%d A=%d U=%d v%d %s" % (E, A, U, ver, mode),
                   hex(value) if value is not None else None)
            res.cases += 1
            res.add_state(hash(ctx))
            exp = ref_get(mm, addr, size, E, A, U, ver) if op == "get" else ref_set(mm, addr, size, value, E, A, U, ver)
            try:
                got = getf(addr, size) if op == "get" else setf(addr, size, value)
                out = ("ok", got)
            except DataAbortException as e:
                out = ("abort", e.is_alignment_fault())
            except Exception as e:  # noqa
                out = ("host", type(e).__name__, machine.site_of(e))
            res.transitions += 1
            post = plan.snapshot()
            key = "%s_%s size=%d" % (acc, op, size)
            rp = {"kind": "direct", "ver": ver, "acc": acc, "op": op, "addr": addr, "size": size, "E": E, "A": A, "U": U,
                  "mode": mode, "value": value}
            if out[0] == "host":
                res.fail("%s raises %s@%s" % (key, out[1], out[2]), "ctx=%r" % (ctx,), rp)
                continue
            if exp == memmodel.FAULT:
                res.outcome("fault")
                if out != ("abort", True):
                    res.fail("%s missing-alignment-fault" % key, "ctx=%r got %r" % (ctx, out), rp)
                    continue
                if post[1] != pre[1]:
                    res.fail("%s faulting-access-transferred-data" % key, "ctx=%r" % (ctx,), rp)
                d = [x for x in plan.diff(pre, post) if x[0] not in ("dfsr", "dfar")]
                if d:
                    res.fail("%s fault changed other state" % key, machine.fmt_diff(d), rp)
                if regs.dfar != addr:
                    res.fail("%s DFAR" % key, "DFAR=%#x, faulting address %#x" % (regs.dfar, addr), rp)
                continue
            if out[0] != "ok":
                res.fail("%s spurious-abort" % key, "ctx=%r got %r" % (ctx, out), rp)
                continue
            res.outcome("aligned" if addr % size == 0 else ("legacy-align-down" if ver < 7 and not A and not U and size > 1
                                                            else "bytewise"))
            if op == "get" and out[1] != exp:
                res.fail("%s wrong-value" % key, "ctx=%r returned %#x expected %#x" % (ctx, out[1], exp), rp)
            if post[1] != mm.snapshot():
                d = plan.diff((pre[0], mm.snapshot()), (pre[0], post[1]))
                res.fail("%s wrong-footprint" % key, "ctx=%r model->impl %s" % (ctx, machine.fmt_diff(d)), rp)
            if post[0] != pre[0]:
                res.fail("%s changed registers" % key, machine.fmt_diff(plan.diff(pre, post)), rp)
            if op == "set":
                # store followed by the same-size load returns the stored value
                try:
                    back = getf(addr, size)
                except Exception as e:  # noqa
                    back = "raised " + type(e).__name__
                res.transitions += 1
                # bytes that fell outside every device cannot be read back
                exp_back = ref_get(mm, addr, size, E, A, U, ver)
                if back != exp_back:
                    res.fail("%s store-load-roundtrip" % key, "ctx=%r read back %r expected %r" % (ctx, back, exp_back), rp)
    res.sample({"accessor": acc, "version": ver, "example": "mem_u_get(0x1039, 4) with E=1 A=0 U=1"})


# --------------------------------------------------------------------------------------------- instructions
def arm_ls(name, rt, rn, imm):
    if name in ("LDR", "STR", "LDRB", "STRB"):
        op = {"LDR": 0xE5900000, "STR": 0xE5800000, "LDRB": 0xE5D00000, "STRB": 0xE5C00000}[name]
        return op | rn << 16 | rt << 12 | imm
    if name in ("LDRDr", "STRDr"):                      # register-offset forms, Rm = r4 (holds 0)
        return {"LDRDr": 0xE18000D0, "STRDr": 0xE18000F0}[name] | rn << 16 | rt << 12 | 4
    op = {"LDRH": 0xE1D000B0, "STRH": 0xE1C000B0, "LDRD": 0xE1C000D0, "STRD": 0xE1C000F0, "LDRSH": 0xE1D000F0,
          "LDRSB": 0xE1D000D0}[name]
    return op | rn << 16 | rt << 12 | (imm >> 4) << 8 | (imm & 0xF)


def thumb_ls(name, rt, rn, imm5):
    op = {"LDR": 0x6800, "STR": 0x6000, "LDRH": 0x8800, "STRH": 0x8000, "LDRB": 0x7800, "STRB": 0x7000}[name]
    return op | imm5 << 6 | rn << 3 | rt


SIZE = {"LDR": 4, "STR": 4, "LDRB": 1, "STRB": 1, "LDRH": 2, "STRH": 2, "LDRSH": 2, "LDRSB": 1, "LDRD": 8, "STRD": 8,
        "LDRDr": 8, "STRDr": 8}
CODE = 0x2000


def instr(res, cpu, plan, base, ver, thumb):
    regs = cpu.registers
    names = ["LDR", "STR", "LDRH", "STRH", "LDRB", "STRB"] + ([] if thumb else ["LDRD", "STRD", "LDRDr", "STRDr", "LDRSH", "LDRSB"])
    for name, b, off, E, A, U, mode in itertools.product(names, BASES[:3], range(8), (0, 1), (0, 1), (0, 1),
                                                          ("usr", "svc")):
        size = SIZE[name]
        addr = (b + off) & 0xFFFFFFFF
        rt, rn = 2, 1
        word = thumb_ls(name, rt, rn, 0) if thumb else arm_ls(name, rt, rn, 0)
        plan.restore(base)
        regs.cpsr.e = E
        regs.sctlr.a = A
        regs.sctlr.u = U
        regs.cpsr.m = machine.MODES[mode]
        regs.cpsr.t = 1 if thumb else 0
        regs.cpsr.it = 0
        machine.put_instr(cpu, CODE, word, thumb)
        regs.branch_to(CODE)
        regs.set(rn, addr)
        regs.set(rt, 0x80FF7F01)
        regs.set(rt + 1, 0xA1B2C3D4)
        if name.endswith("r"):
            regs.set(4, 0)
        regs.set(14, 0x55555555)
        plan.reset_scratch()
        pre = plan.snapshot()
        mm = model_mem(pre[1])
        res.cases += 1
        ctx = (name, "thumb" if thumb else "arm", hex(addr), "E=%d A=%d U=%d v%d %s" % (E, A, U, ver, mode))
        res.add_state(hash(ctx))
        out = machine.step(cpu)
        res.transitions += 1
        post = plan.snapshot()
        key = "%s(%s)" % (name, "T1" if thumb else "A1")
        rp = {"kind": "instr", "ver": ver, "thumb": thumb, "name": name, "word": word, "addr": addr, "E": E, "A": A,
              "U": U, "mode": mode}
        if out[0] != "ok":
            res.fail("%s step %s %s" % (key, out[0], " ".join(map(str, out[1:3]))), "ctx=%r %r" % (ctx, out), rp)
            continue
        # ---- model
        load = name.startswith("LD")
        exp_regs = {}
        unknown = set()
        fault = False
        if name in ("LDRD", "STRD", "LDRDr", "STRDr"):
            # MemA on each word (with the Large Physical Address Extension a doubleword-aligned access is one 64-bit
            # MemA instead: same bytes, same alignment condition)
            if load:
                v1 = memmodel.mem_a_get(mm, addr, 4, E, A, U, ver)
                v2 = memmodel.mem_a_get(mm, (addr + 4) & 0xFFFFFFFF, 4, E, A, U, ver)
                fault = memmodel.FAULT in (v1, v2)
                if not fault:
                    exp_regs = {rt: v1, rt + 1: v2}
            else:
                r1 = memmodel.mem_a_set(mm, addr, 4, 0x80FF7F01, E, A, U, ver)
                fault = r1 == memmodel.FAULT
                if not fault:
                    fault = memmodel.mem_a_set(mm, (addr + 4) & 0xFFFFFFFF, 4, 0xA1B2C3D4, E, A, U, ver) == memmodel.FAULT
        elif load:
            v = memmodel.mem_u_get(mm, addr, size, E, A, U, ver)
            fault = v == memmodel.FAULT
            if not fault:
                if name == "LDR":
                    if U or addr % 4 == 0:
                        exp_regs = {rt: v}
                    elif thumb:
                        unknown.add(rt)
                    else:
                        exp_regs = {rt: bv.ror_c(v, 32, 8 * (addr % 4))[0]}
                elif name in ("LDRH", "LDRSH"):
                    if U or addr % 2 == 0:
                        exp_regs = {rt: bv.sign_extend(v, 16, 32) if name == "LDRSH" else v}
                    else:
                        unknown.add(rt)
                elif name == "LDRSB":
                    exp_regs = {rt: bv.sign_extend(v, 8, 32)}
                else:
                    exp_regs = {rt: v}
        else:
            val = 0x80FF7F01 & bv.mask(8 * size)
            if (name == "STRH" and not (U or addr % 2 == 0)) or (name == "STR" and thumb and not (U or addr % 4 == 0)):
                # MemU[address,size] = UNKNOWN (legacy unaligned STRH, Thumb STR)
                fault = memmodel.mem_u_set(mm, addr, size, val, E, A, U, ver) == memmodel.FAULT
                unknown.add("mem")
            else:
                fault = memmodel.mem_u_set(mm, addr, size, val, E, A, U, ver) == memmodel.FAULT
        took_abort = regs.cpsr.m == 0b10111 and pre[0][plan.index["cpsr"]] & 0x1F != 0b10111
        if fault:
            res.outcome("instr-fault")
            if not took_abort:
                res.fail("%s missing-alignment-fault" % key, "ctx=%r" % (ctx,), rp)
            elif post[1] != pre[1]:
                res.fail("%s faulting-access-transferred-data" % key, "ctx=%r" % (ctx,), rp)
            elif regs.get_rmode(rt, machine.MODES[mode]) != 0x80FF7F01:
                res.fail("%s faulting-load-wrote-Rt" % key, "ctx=%r" % (ctx,), rp)
            continue
        if took_abort:
            res.fail("%s spurious-abort" % key, "ctx=%r" % (ctx,), rp)
            continue
        res.outcome("instr-ok")
        ilen = 2 if thumb else 4
        exp = list(pre[0])
        exp[plan.index["R.PC"]] = CODE + ilen
        ignore = set()
        for r_, v_ in exp_regs.items():
            exp[plan.index["R.R%dusr" % r_]] = v_
        for r_ in unknown:
            if r_ != "mem":
                ignore.add("R.R%dusr" % r_)
        d = [x for x in plan.diff((tuple(exp), mm.snapshot() if "mem" not in unknown else post[1]), post)
             if x[0] not in ignore]
        if d:
            res.fail("%s wrong-result" % key, "ctx=%r model->impl: %s" % (ctx, machine.fmt_diff(d)), rp)
    res.sample({"instr": "LDR r2,[r1] at %#x" % CODE, "thumb": thumb, "version": ver})


def fetch(res, cpu, plan, base, ver):
    """Instruction fetch is little-endian whatever CPSR.E says: MOV r0,#1 (ARM) / MOVS r0,#1 (T1) / MOVW r0,#1 (T3)."""
    regs = cpu.registers
    progs = [("arm", 0xE3A00001, 4), ("t16", 0x2001, 2), ("t32", 0xF2400001, 4)]
    for (name, word, ilen), E, mode, addr in itertools.product(progs, (0, 1), ("usr", "svc", "fiq"),
                                                               (0x2000, 0x2004, 0x203C, 0x0, 0xFFFFFFFC)):
        plan.restore(base)
        thumb = name != "arm"
        if name == "t32" and addr == 0x203C:
            continue
        regs.cpsr.e = E
        regs.cpsr.m = machine.MODES[mode]
        regs.cpsr.t = int(thumb)
        regs.cpsr.it = 0
        machine.put_instr(cpu, addr, word, thumb, 16 if name == "t16" else 32)
        regs.branch_to(addr)
        regs.set(0, 0xDEADBEEF)
        plan.reset_scratch()
        pre = plan.snapshot()
        res.cases += 1
        res.add_state(hash((name, E, mode, addr)))
        out = machine.step(cpu)
        res.transitions += 1
        post = plan.snapshot()
        rp = {"kind": "fetch", "ver": ver, "name": name, "word": word, "E": E, "mode": mode, "addr": addr}
        exp = list(pre[0])
        exp[plan.index["R.PC"]] = (addr + ilen) & 0xFFFFFFFF
        exp[plan.index["R.R0usr"]] = 1
        if name == "t16":   # MOVS outside an IT block sets N,Z (C unchanged)
            exp[plan.index["cpsr"]] = pre[0][plan.index["cpsr"]] & ~(3 << 30)
        d = plan.diff((tuple(exp), pre[1]), post) if out[0] == "ok" else [("step", "ok", out)]
        res.outcome("fetch E=%d" % E)
        if d:
            res.fail("fetch %s E=%d" % (name, E), "instruction at %#x in %s: %s" % (addr, mode, machine.fmt_diff(d)), rp)
    res.sample({"fetch": "MOV r0,#1 with CPSR.E=1"})


def replay(doc):
    r = doc["replay"]
    res = Result()
    cpu, plan = setup(r["ver"])
    base = plan.snapshot()
    return "re-run the shard that contains this case: kind=%s; detail: %s" % (r.get("kind"), doc.get("detail"))
