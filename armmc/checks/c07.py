"""C07 - Thumb decode.  16-bit: all 2^16 halfwords by brute force in every IT position and for both carry values,
compared with the reference encoding table.  32-bit: joint lazy-word exploration (armmc/decodecheck.py) of the 3 x 2^27
words whose first halfword starts 11101 / 11110 / 11111, in each IT position and carry value.  Fetch rule: through the
real fetch_instruction() from RAM, all 2^16 first halfwords x second halfwords {0, 0xFFFF, 0x12A5}."""
from ..runner import Result
from .. import sweep, decodecheck, machine, isa
from ..decodecheck import UNDEF, NOTIMPL, UNPRED, norm, attr, _MISSING
from ..ref.enc import T16, T32

ID = "C07"
CTX = [(0x00, 0), (0x00, 1), (0x08, 0), (0x08, 1), (0x04, 0), (0x04, 1)]     # (ITSTATE low nibble pattern, carry)


def plan(tier):
    shards = []
    cap = 10 if tier == "quick" else 12
    for blk in range(16):
        shards.append(("t16", blk))
    ctxs = CTX[:4] if tier == "quick" else CTX
    for cube in sweep.thumb32_shards():
        for it, carry in ctxs:
            shards.append(("t32", cube, it, carry, 7, cap))
        if tier != "quick":
            shards.append(("t32", cube, 0, 0, 6, cap))
    for blk in range(8):
        shards.append(("fetch", blk))
    for k in range(4):
        shards.append(("xiset", k))
    for k in range(8):
        shards.append(("ctxhist", k))
    return {
        "shards": shards,
        "rule": "Thumb-16: every halfword x IT context x carry: decode + from_bitarray vs table (class, every operand); "
                "Thumb-32: joint cube partition as C06; fetch: every first halfword through fetch_instruction()",
        "bounds": {"contexts(itstate low nibble, carry)": ctxs, "wide_observation_cap": cap},
        "exhaustive": True,
        "assumptions": ["UNPREDICTABLE instances may be accepted or rejected, but not decoded as a different instruction",
                        "observations of more than `cap` unresolved bits (register lists, 24-bit branch offsets) use a pattern "
                        "alphabet in the 32-bit space"],
        "deadline_s": 400 if tier == "quick" else 1700,
    }


def run_shard(arg):
    res = Result()
    if arg[0] == "t16":
        t16(res, arg[1])
    elif arg[0] == "t32":
        t32(res, *arg[1:])
    elif arg[0] == "xiset":
        xiset(res, arg[1])
    elif arg[0] == "ctxhist":
        ctxhist(res, arg[1])
    else:
        fetch(res, arg[1])
    return res.as_dict()


def t16(res, blk):
    for it, carry in CTX:
        dec = decodecheck.Decoder(T16, {"arch_version": 7}, (0xE0 | it) if it else 0, carry)
        rows = dec.rows
        for w in range(blk * 4096, (blk + 1) * 4096):
            if (w >> 11) in (0b11101, 0b11110, 0b11111):
                continue
            res.cases += 1
            res.transitions += 1
            try:
                results = (dec.impl(w), dec.ref_verdict(w, rows))
            except Exception as e:  # noqa - host error inside decode: C18
                res.outcome("decode-raises-" + type(e).__name__)
                continue
            decodecheck.compare_leaf(dec, 0xFFFF, w, rows, res, "Thumb16", results)
    res.states = set(range(blk * 4096, (blk + 1) * 4096))
    res.sample({"thumb16_block": blk, "contexts": len(CTX)})


def t32(res, cube, it, carry, ver, cap):
    dec = decodecheck.Decoder(T32, {"arch_version": ver}, (0xE0 | it) if it else 0, carry)
    t = decodecheck.explore_cube(dec, cube, res, "Thumb32", cap)
    res.count("leaves", t.leaves)
    res.count("words_in_leaves", t.words)
    res.count("words_outside_cap", t.capped_words)
    if t.words + t.capped_words != 1 << (32 - bin(cube[0]).count("1")):
        res.fail("engine: tiling", "leaves of cube %r do not add up" % (cube,))
    res.sample({"cube": [hex(cube[0]), hex(cube[1])], "it": it, "carry": carry, "leaves": t.leaves})


def ctxhist(res, k):
    """Decode through emulate_cycle() depends on the IT position and the carry flag of THIS step only: every harvested
    Thumb word is stepped on one long-lived processor under context A and then under context B (all ordered pairs of
    {outside IT, last in an IT block} x {C=0, C=1}); the result under B must equal the result on a processor that has
    never seen the word (differential oracle)."""
    ctxs = [(0x00, 0b0000), (0x00, 0b0010), (0xE8, 0b0000), (0xE8, 0b0010)]
    shared = sweep.Env("mpu-off", {"arch_version": 7})
    base = shared.base("svc", "ram")
    words = isa.harvest_words(True)
    for wi, (t, olen, w, cname) in enumerate(words):
        if wi % 8 != k:
            continue
        ref = {}
        for c in ctxs:
            fresh = sweep.Env("mpu-off", {"arch_version": 7})
            out = sweep.step_word(fresh, fresh.base("svc", "ram"), w, True, olen, c[0], nzcv=c[1])
            ref[c] = (out[:3], fresh.plan.regs(), fresh.plan.mem())
        for a in ctxs:
            for b in ctxs:
                if a == b:
                    continue
                sweep.step_word(shared, base, w, True, olen, a[0], nzcv=a[1])
                out = sweep.step_word(shared, base, w, True, olen, b[0], nzcv=b[1])
                res.cases += 1
                res.transitions += 2
                res.add_state(hash((w, a, b)))
                got = (out[:3], shared.plan.regs(), shared.plan.mem())
                res.outcome("context-history")
                if got != ref[b]:
                    d = shared.plan.diff((ref[b][1], ref[b][2]), (got[1], got[2]))
                    res.fail("%s result depends on the context of an earlier execution of the same word" % cname,
                             "word %#x stepped with (ITSTATE, NZCV)=%r after %r: fresh-processor->history %s %s" % (
                                 w, b, a, "" if got[0] == ref[b][0] else "%r->%r" % (ref[b][0], got[0]), machine.fmt_diff(d)),
                             {"word": w, "olen": olen, "first": list(a), "second": list(b)})
    res.sample({"context_history_words": len(words) // 8})


def xiset(res, k):
    """Decode must not depend on history: on ONE processor every 32-bit word of the harvested alphabet (both instruction
    sets) and its single-bit variants is decoded as ARM, as Thumb, and as ARM again; each verdict must be the table's."""
    from ..ref.enc import A32
    dA = decodecheck.Decoder(A32, {"arch_version": 7}, 0, 0)
    dT = decodecheck.Decoder(T32, {"arch_version": 7}, 0, 0)
    dT.cpu = dA.cpu
    regs = dA.cpu.registers
    words = sorted({w for t, olen, w, c in isa.harvest_words() if olen == 32})
    variants = []
    for i, w in enumerate(words):
        if i % 4 != k:
            continue
        variants.append(w)
        variants += [w ^ (1 << b) for b in range(32)]
    for w in variants:
        for dec in (dA, dT, dA, dT):
            if dec is dT and (w >> 27) not in (0b11101, 0b11110, 0b11111):
                continue
            regs.cpsr.t = 1 if dec.thumb else 0
            regs.cpsr.it = 0
            regs.cpsr.c = 0
            res.cases += 1
            res.transitions += 1
            try:
                results = (dec.impl(w), dec.ref_verdict(w, dec.rows))
            except Exception as e:  # noqa - C18
                res.outcome("decode-raises-" + type(e).__name__)
                continue
            decodecheck.compare_leaf(dec, 0xFFFFFFFF, w, dec.rows, res, "after-decoding-the-same-bits-in-the-other-instruction-set",
                                     results)
    res.sample({"cross_instruction_set_words": len(variants)})


def fetch(res, blk):
    """Length is 32 iff the top five bits are 11101/11110/11111; the word is hw1:hw2; nothing else influences it."""
    env = sweep.Env("mpu-off", {"arch_version": 7})
    cpu = env.cpu
    regs = cpu.registers
    for variant, (mode, e, itv) in enumerate((("svc", 0, 0), ("usr", 1, 0xA5))):
        base = env.base(mode, "ram")
        env.plan.restore(base)
        regs.cpsr.t = 1
        regs.cpsr.e = e
        regs.cpsr.it = itv
        regs.branch_to(isa.CODE)
        for hw1 in range(blk * 8192, (blk + 1) * 8192):
            for hw2 in (0x0000, 0xFFFF, 0x12A5):          # 0x12A5: not symmetric under byte reversal
                machine.put(cpu, isa.CODE, hw1.to_bytes(2, "little") + hw2.to_bytes(2, "little"))
                res.cases += 1
                res.transitions += 1
                try:
                    w = cpu.fetch_instruction()
                    got = (cpu.opcode_len, w)
                except Exception as e_:  # noqa
                    got = ("raised", type(e_).__name__)
                wide = (hw1 >> 11) in (0b11101, 0b11110, 0b11111)
                exp = (32, (hw1 << 16) | hw2) if wide else (16, hw1)
                res.outcome("fetch32" if wide else "fetch16")
                if got != exp:
                    res.fail("fetch length/word", "hw1=%#06x hw2=%#06x %s E=%d: fetched %r expected %r" % (hw1, hw2, mode, e, got, exp),
                             {"hw1": hw1, "hw2": hw2})
    res.states = set(range(blk * 8192, (blk + 1) * 8192))
    res.sample({"fetch_block": blk})


def replay(doc):
    r = doc["replay"]
    dec = decodecheck.Decoder(r["iset"], {"arch_version": r["ver"]}, r["it"], r["carry"])
    w = r["example_word"]
    return "word %#x: implementation %r, table %r\n%s" % (w, dec.impl(w)[0], dec.ref_verdict(w, dec.rows)[0], doc["detail"])
