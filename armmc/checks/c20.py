"""C20 - determinism and isolation (differential oracles, no model).

(a) snapshot determinism: for every menu program of length <= 3 and every prefix point, the state is re-created by
    assignment on a fresh instance and on instances that previously ran other programs (their per-step scratch state is
    deliberately left behind); all continuations must give identical traces.
(b) isolation as schedule enumeration: two (thorough: three) instances with equal or different configurations, every
    interleaving of their steps and every position of the later instances' construction; each instance's trace must equal
    its solo trace."""
import hashlib
import itertools

from ..runner import Result
from .. import machine

ID = "C20"
CODE = 0x10800
MEM = machine.MEM_STD

# (name, thumb, olen, word)
ARM_MENU = [
    ("MOVS r0,#1", 0xE3B00001),           # carry operand taken from APSR.C at decode time
    ("ADDS r1,r1,r2", 0xE0911002),
    ("LDR r3,[r4,#1]", 0xE5943001),       # unaligned: rotate / fault depending on version and SCTLR
    ("STR r0,[r5]", 0xE5850000),
    ("BNE +8", 0x1A000000),
    ("SVC 0", 0xEF000000),
    ("UDF", 0xE7F000F0),
    ("MOV pc,r6", 0xE1A0F006),            # interworking on v7, plain branch before
    ("WFE", 0xE320F002),
    ("STMDB sp!,{r0,r1,lr}", 0xE92D4003),
]
THUMB_MENU = [
    ("MOVS r0,#1", 16, 0x2001),
    ("ADD.W r1,r1,r2", 32, 0xEB010102),
    ("ITE EQ", 16, 0xBF0C),
    ("LDR r3,[r4,#0]", 16, 0x6823),
    ("B +4", 16, 0xE000),
    ("SVC 0", 16, 0xDF00),
    ("UDF", 16, 0xDE00),
    ("WFI", 16, 0xBF30),
    ("CBZ r0,+4", 16, 0xB100),
    ("PUSH {r0,lr}", 16, 0xB501),
    ("CMP r0,r0", 16, 0x4280),             # sets C, so that later MOVS/ANDS see a different carry-in
]
CONFIGS = [
    {},
    {"arch_version": 7, "have_security_ext": False},
    {"arch_version": 7, "memory_system_architecture": "VMSA", "have_virt_ext": True, "have_lpae": True},
    {"arch_version": 5},
    # different reset values: ARM state on reset, high vectors, another VBAR
    {"reset_values": {"SCTLR": "0b00000000000001010010000001111001", "VBAR": "0b00000000000000000001000000000000"}},
]


def fresh_solo_traces():
    """Solo traces computed by one FRESH interpreter process each (nothing created before them in that process): the
    reference against which interleaved runs are compared, immune to process-wide state."""
    import json
    import os
    import subprocess
    import sys
    from concurrent.futures import ThreadPoolExecutor
    jobs = [(ci, pi) for ci in range(len(CONFIGS)) for pi in range(len(ISO_PROGS))]

    def one(job):
        ci, pi = job
        out = subprocess.run([sys.executable, "-B", "-m", "armmc.checks.c20", "solo", str(ci), str(pi)],
                             capture_output=True, cwd=os.path.dirname(os.path.dirname(os.path.dirname(__file__))),
                             env=dict(os.environ, PYTHONHASHSEED="0"))
        line = out.stdout.decode().strip().splitlines()[-1] if out.stdout.strip() else "null"
        return job, json.loads(line)

    with ThreadPoolExecutor(8) as ex:
        return {"%d,%d" % j: t for j, t in ex.map(one, jobs)}


def plan(tier):
    shards = []
    fresh = fresh_solo_traces()
    L = 3
    for iset in ("arm", "thumb"):
        n = len(ARM_MENU) if iset == "arm" else len(THUMB_MENU)
        for first in range(n):
            shards.append(("snap", iset, first, L))
    shards.append(("order", "arm", None, None))
    shards.append(("order", "thumb", None, None))
    for a in range(len(CONFIGS)):
        for b in range(len(CONFIGS)):
            shards.append(("iso", (a, b), fresh, None))
    for a in range(len(XCFGS)):
        for b in range(len(XCFGS)):
            if a != b:
                shards.append(("xcfg", a, b, None))
    shards.append(("reset", None, None, None))
    if tier == "thorough":
        for a, b, c in itertools.product(range(len(CONFIGS)), repeat=3):
            if len({a, b, c}) >= 2:
                shards.append(("iso", (a, b, c), fresh, None))
    return {
        "shards": shards,
        "rule": "(a) all programs of length 1..3 over a %d-item ARM and a %d-item Thumb menu x every prefix point x "
                "{fresh instance, 6 dirty instances}; (b) all interleavings of 2 (thorough: also 3) instances x 3 steps x "
                "every construction position x all ordered configuration tuples x program pairs; (c) for every ordered "
                "pair of %d configurations (architecture versions 4..7, extensions, profiles): every harvested instruction "
                "word and its S-bit variant x 3 flag/SCTLR backgrounds stepped on an instance of the first configuration "
                "and then on an instance of the second, in one fresh interpreter process, against the second instance "
                "alone in another fresh process; "
                "state = (program, prefix, instance history) resp. (schedule)" % (len(ARM_MENU), len(THUMB_MENU), len(XCFGS)),
        "bounds": {"program_length": L, "steps_per_program": "program length + %d (handlers at the vectors return into the program)" % EXTRA_STEPS, "configs": CONFIGS, "instances": 2 if tier == "quick" else "2 and 3",
                   "interleavings_2x3": 20, "interleavings_3x2": 90},
        "exhaustive": True,
        "assumptions": ["traces compare the full architectural snapshot (all registers, system registers, memory) after "
                        "every step"],
    }


EXTRA_STEPS = 2


def digest(snap):
    return hashlib.sha1(repr(snap).encode()).hexdigest()[:16]


def setup_instance(cfg, thumb, program, flags=0):
    """Construct + initialise one processor; the program (list of (olen, word)) is placed at CODE."""
    cpu = machine.new_cpu(memory_list=MEM, **cfg)
    cpu.take_reset()
    regs = cpu.registers
    regs.sctlr.m = 0
    regs.sctlr.u = 0
    regs.sctlr.a = 0
    regs.cpsr.value = 0x000001D3 | (0x20 if thumb else 0) | (flags << 28)
    # make the traces sensitive to the extension configuration: a relocated vector base is only honoured with the
    # security extension, and in Non-secure state the abort masking rules depend on the virtualisation extension
    regs.vbar.value = 0x10400
    regs.scr.ns = 1
    for n in range(13):
        regs.set(n, 0x10100 + 0x40 * n)
    regs.set(6, 0x10901)      # odd branch target
    regs.set(13, 0x10400)
    regs.set(14, 0x10A00)
    addr = CODE
    for olen, word in program:
        machine.put_instr(cpu, addr, word, thumb, olen)
        addr += olen // 8
    # returning handlers at both possible vector bases (UND, SVC: MOVS pc,lr; aborts: SUBS pc,lr,#4), so that longer
    # runs contain exception RETURNS followed by ordinary code (hidden per-instance state set by one, seen by the other)
    te = regs.sctlr.te
    for vb in (0x0, 0x10400):
        for off, sub in ((4, 0), (8, 0), (0xC, 4), (0x10, 4)):
            if te:
                machine.put_instr(cpu, vb + off, 0xF3DE8F00 | sub, True, 32)
            else:
                machine.put_instr(cpu, vb + off, 0xE1B0F00E if sub == 0 else 0xE25EF004, False, 32)
    regs.branch_to(CODE)
    plan = machine.Plan(cpu)
    plan.reset_scratch()
    return cpu, plan


def trace_steps(cpu, plan, n):
    tr = []
    for _ in range(n):
        out = machine.step(cpu)
        tr.append((out[:3], digest(plan.snapshot())))
    return tr


def prog_of(iset, idxs):
    if iset == "arm":
        return [(32, ARM_MENU[i][1]) for i in idxs]
    return [(THUMB_MENU[i][1], THUMB_MENU[i][2]) for i in idxs]


def names_of(iset, idxs):
    return [(ARM_MENU if iset == "arm" else THUMB_MENU)[i][0] for i in idxs]


def run_shard(arg):
    kind = arg[0]
    res = Result()
    if kind == "snap":
        snap_shard(res, arg[1], arg[2], arg[3])
    elif kind == "order":
        order_shard(res, arg[1])
    elif kind == "xcfg":
        xcfg_shard(res, arg[1], arg[2])
    elif kind == "reset":
        reset_shard(res)
    else:
        iso_shard(res, arg[1], arg[2])
    return res.as_dict()


# ------------------------------------------------------------------------------------------------ (a)
def snap_shard(res, iset, first, L):
    thumb = iset == "thumb"
    n = len(THUMB_MENU) if thumb else len(ARM_MENU)
    # dirty instances: ran a different program before (scratch state left behind on purpose)
    dirty_hist = [(i,) for i in (1, 4, 5, 6)] + [(2, 5, 0), (8 % n, 3, 6)]
    dirty = []
    for h in dirty_hist:
        cpu, plan = setup_instance({}, thumb, prog_of(iset, h))
        trace_steps(cpu, plan, len(h))
        dirty.append((h, cpu, plan))
    progs = [(first,)]
    progs += [(first, b) for b in range(n)]
    progs += [(first, b, c) for b in range(n) for c in range(n)]
    for p in progs:
        prog = prog_of(iset, p)
        cpu, plan = setup_instance({}, thumb, prog)
        snaps = [plan.snapshot()]
        ref = []
        nsteps = len(p) + EXTRA_STEPS        # room for handler entry + return in programs that raise exceptions
        for _ in range(nsteps):
            out = machine.step(cpu)
            s = plan.snapshot()
            snaps.append(s)
            ref.append((out[:3], digest(s)))
        # a second run from scratch must give the same trace
        cpu2, plan2 = setup_instance({}, thumb, prog)
        res.cases += 1
        res.transitions += nsteps
        if trace_steps(cpu2, plan2, nsteps) != ref:
            res.fail("rerun-differs", "program %r gives different traces on two fresh instances" % names_of(iset, p),
                     {"iset": iset, "program": list(p)})
        for k in range(nsteps):
            targets = [("fresh", None)] + [("after %r" % (names_of(iset, h),), (c, pl)) for h, c, pl in dirty]
            for label, inst in targets:
                if inst is None:
                    c3, p3 = setup_instance({}, thumb, prog)
                else:
                    c3, p3 = inst
                # re-create the state by assignment; scratch fields are NOT reset
                regs, mem = snaps[k]
                p3.restore_regs(regs, scratch=False)
                for mc, (b_, e_, data) in zip(c3.mem.memories, mem):
                    mc.mem.memory_array[:] = data
                res.cases += 1
                res.add_state(hash((iset, p, k, label)))
                got = trace_steps(c3, p3, nsteps - k)
                res.transitions += nsteps - k
                res.outcome("continuation-" + ("fresh" if inst is None else "dirty"))
                if got != ref[k:]:
                    pos = next(i for i, (x, y) in enumerate(zip(got, ref[k:])) if x != y)
                    res.fail("snapshot-continuation-differs (%s instance)" % ("fresh" if inst is None else "reused"),
                             "program %r resumed at step %d on an instance %s: step %d gives %r, original run %r" % (
                                 names_of(iset, p), k, label, k + pos, got[pos], ref[k + pos]),
                             {"iset": iset, "program": list(p), "prefix": k, "instance": label})
        # a sibling program that shares the first k instructions runs k steps on a fresh instance; then the snapshot of
        # P at k is installed by assignment (only the code from instruction k on differs): whatever the instance kept
        # about the code it has fetched or decoded so far (a fetch buffer, a decode cache keyed by address) is stale
        for k in range(1, len(p)):
            q = p[:k] + ((p[k] + 1) % n,) + p[k + 1:]
            c4, p4 = setup_instance({}, thumb, prog_of(iset, q))
            trace_steps(c4, p4, k)
            regs, mem = snaps[k]
            p4.restore_regs(regs, scratch=False)
            for mc, (b_, e_, data) in zip(c4.mem.memories, mem):
                mc.mem.memory_array[:] = data
            res.cases += 1
            res.add_state(hash((iset, p, k, "sibling")))
            got = trace_steps(c4, p4, nsteps - k)
            res.transitions += nsteps
            res.outcome("continuation-sibling")
            if got != ref[k:]:
                pos = next(i for i, (x, y) in enumerate(zip(got, ref[k:])) if x != y)
                res.fail("snapshot-continuation-differs (instance that ran a sibling program)",
                         "program %r resumed at step %d on an instance that had run %r for %d steps: step %d gives %r, "
                         "original run %r" % (names_of(iset, p), k, names_of(iset, q), k, k + pos, got[pos], ref[k + pos]),
                         {"iset": iset, "program": list(p), "prefix": k, "sibling": list(q)})
    res.sample({"iset": iset, "program": names_of(iset, progs[-1]), "prefix_points": len(progs[-1])})


# ------------------------------------------------------------------------------------------------ (a')
def order_shard(res, iset):
    """Order independence across histories that a same-process comparison cannot see (e.g. a process-wide cache filled
    by whichever program ran first): all programs of length <= 2 are executed on fresh instances in FORWARD order by
    this process and in REVERSE order by a forked child that starts from the same process image; every program's trace
    must be the same in both."""
    import json
    import os
    thumb = iset == "thumb"
    n = len(THUMB_MENU) if thumb else len(ARM_MENU)
    progs = [(fl,) + p for p in ([(a,) for a in range(n)] + [(a, b) for a in range(n) for b in range(n)])
             for fl in (0b0000, 0b0010, 0b1101)]

    def traces(order):
        out = {}
        for fp in order:
            fl, p = fp[0], fp[1:]
            cpu, plan = setup_instance({}, thumb, prog_of(iset, p), fl)
            out[repr(fp)] = [list(map(str, t)) for t in trace_steps(cpu, plan, len(p))]
        return out

    r, w = os.pipe()
    pid = os.fork()
    if pid == 0:
        try:
            os.close(r)
            data = json.dumps(traces(list(reversed(progs)))).encode()
            with os.fdopen(w, "wb") as f:
                f.write(data)
        finally:
            os._exit(0)
    os.close(w)
    fwd = traces(progs)
    with os.fdopen(r, "rb") as f:
        rev = json.loads(f.read().decode() or "{}")
    os.waitpid(pid, 0)
    for p in progs:
        res.cases += 1
        res.transitions += len(p) - 1
        res.add_state(hash((iset, p)))
        res.outcome("order-independent")
        if fwd[repr(p)] != rev.get(repr(p)):
            res.fail("trace-depends-on-execution-order",
                     "program %r with NZCV=%s: forward-order process gives %r, reverse-order process gives %r" % (
                         names_of(iset, p[1:]), format(p[0], "04b"), fwd[repr(p)], rev.get(repr(p))),
                     {"iset": iset, "program": list(p[1:]), "nzcv": p[0]})
    res.sample({"order_check": iset, "programs": len(progs)})


# ------------------------------------------------------------------------------------------------ (c)
# configurations whose differences the opcodes consult at execution time (version rules, profiles, extensions)
XCFGS = [
    {"arch_version": 4},
    {"arch_version": 5},
    {},
    {"arch_version": 7, "have_security_ext": False},
    {"arch_version": 7, "memory_system_architecture": "VMSA", "have_virt_ext": True, "have_lpae": True},
    {"arch_version": 7, "is_armv7r_profile": True},
]
# (NZCV, bits OR-ed into SCTLR): SCTLR<19> is DZ on the R profile and WXN elsewhere
XBACKGROUNDS = [(0b0000, 0), (0b0011, 1 << 19), (0b1111, 0)]


def xcfg_words():
    """Every harvested instruction word and its bit-20 (S bit of most 32-bit encodings) variant - the oracle is
    differential, so a variant need not be a valid or predictable instruction."""
    from .. import isa
    out, seen = [], set()
    for t, ol, w, cname in isa.harvest_words():
        for v in ((w, w ^ (1 << 20)) if ol == 32 else (w,)):
            k = (t, ol, v)
            if k not in seen:
                seen.add(k)
                out.append((t, ol, v, cname))
    return out


def xcfg_run(a, b):
    """In THIS process: for every word and background, step an instance of configuration a (if a >= 0) and then an
    instance of configuration b from equal prepared states; returns b's outcome + post-state digest per case."""
    from .. import isa
    envs = []
    for ci in ((a, b) if a >= 0 else (b,)):
        cpu, plan, base = isa.std_cpu(**XCFGS[ci])
        envs.append((cpu, plan, base, plan.index["cpsr"], plan.index["sctlr"]))
    out = []
    for t, ol, w, cname in xcfg_words():
        for nzcv, sctlr_or in XBACKGROUNDS:
            last = None
            for cpu, plan, base, icpsr, isctlr in envs:
                regs = list(base[0])
                regs[icpsr] = (regs[icpsr] & 0x0FFFFFFF) | (nzcv << 28)
                regs[isctlr] |= sctlr_or
                plan.restore((tuple(regs), base[1]))
                isa.place(cpu, w, bool(t), ol)
                o = machine.step(cpu)
                last = [list(map(str, o[:3])), digest(plan.snapshot())]
            out.append(last)
    return out


def xcfg_shard(res, a, b):
    import json
    import os
    import subprocess
    import sys

    def fresh(x, y):
        p = subprocess.run([sys.executable, "-B", "-m", "armmc.checks.c20", "xcfg", str(x), str(y)], capture_output=True,
                           cwd=os.path.dirname(os.path.dirname(os.path.dirname(__file__))),
                           env=dict(os.environ, PYTHONHASHSEED="0"))
        lines = p.stdout.decode().strip().splitlines()
        if p.returncode != 0 or not lines:
            raise RuntimeError("xcfg subprocess failed: %s" % p.stderr.decode()[-400:])
        return json.loads(lines[-1])

    pair = fresh(a, b)
    solo = fresh(-1, b)
    cases = [(wd, bg) for wd in xcfg_words() for bg in XBACKGROUNDS]
    if not (len(pair) == len(solo) == len(cases)):
        raise RuntimeError("xcfg: trace lengths differ")
    for (wd, bg), x, y in zip(cases, pair, solo):
        res.cases += 1
        res.transitions += 2
        res.add_state(hash((a, b, wd[:3], bg)))
        res.outcome("cross-config-pair")
        if x != y:
            t, ol, w, cname = wd
            res.fail("step-depends-on-an-earlier-instance-of-another-configuration (%s)" % cname,
                     "%s word %#x (%s, %d bit) NZCV=%s SCTLR|=%#x on configuration %r: %r alone in a fresh process, %r "
                     "after an instance of configuration %r stepped the same word in the same process" % (
                         cname, w, "Thumb" if t else "ARM", ol, format(bg[0], "04b"), bg[1], XCFGS[b], y, x, XCFGS[a]),
                     {"first_config": a, "second_config": b, "thumb": bool(t), "olen": ol, "word": w, "nzcv": bg[0],
                      "sctlr_or": bg[1]})
    res.sample({"xcfg": [XCFGS[a], XCFGS[b]], "cases": len(cases)})


def reset_shard(res):
    """take_reset() of one instance while an instance with another configuration is the one that was constructed /
    stepped last: the reset state must be that of the instance's own configuration (extensions, reset values)."""
    cfgs = CONFIGS + [{"arch_version": 7, "have_security_ext": False, "memory_system_architecture": "VMSA"}]

    def prepared(ci):
        cpu, plan = setup_instance(cfgs[ci], False, [(32, 0xE1A00000)])
        regs = cpu.registers
        regs.scr.value = 0x31 | 1            # Non-secure, AW / FW set
        regs.sctlr.value ^= 0x40002000       # TE, V flipped
        regs.cpsr.value = 0x600001F6 if not regs.bad_mode(0b10110) else 0x600001F3      # Monitor mode where it exists
        for n in range(13):
            regs.set(n, 0xABCD0000 + n)
        return cpu, plan

    for a in range(len(cfgs)):
        cpu0, plan0 = prepared(a)
        cpu0.take_reset()
        want = plan0.snapshot()
        for b in range(len(cfgs)):
            for other_steps in (0, 1):
                cpu, plan = prepared(a)
                ocpu, oplan = setup_instance(cfgs[b], False, [(32, 0xE1A00000)])     # constructed after `cpu`
                for _ in range(other_steps):
                    machine.step(ocpu)
                res.cases += 1
                res.transitions += 1
                res.add_state(hash((a, b, other_steps)))
                res.outcome("reset-next-to-other-instance")
                cpu.take_reset()
                got = plan.snapshot()
                if got != want:
                    res.fail("take_reset-depends-on-another-instance",
                             "configuration %r reset after an instance of configuration %r was %s: %s" % (
                                 cfgs[a], cfgs[b], "stepped" if other_steps else "constructed",
                                 machine.fmt_diff(plan.diff(want, got))), {"config": a, "other": b, "other_steps": other_steps})
    res.sample({"reset_isolation": "%d x %d configuration pairs" % (len(cfgs), len(cfgs))})


# ------------------------------------------------------------------------------------------------ (b)
ISO_PROGS = [
    ("arm", (2, 7, 1)),        # unaligned LDR, MOV pc (version dependent), ADDS
    ("arm", (5, 0, 3)),        # SVC (vector base depends on the security extension), ...
    ("thumb", (2, 0, 5)),      # ITE, MOVS, SVC
    ("arm", (6, 9, 4)),        # UDF, STMDB, BNE
]


def interleavings(counts):
    """All sequences over instance ids with counts[i] occurrences of i."""
    ids = []
    for i, c in enumerate(counts):
        ids += [i] * c
    return sorted(set(itertools.permutations(ids)))


def iso_shard(res, cfg_idx, fresh):
    k = len(cfg_idx)
    steps = 3 if k == 2 else 2
    cfgs = [CONFIGS[i] for i in cfg_idx]
    solo = {}

    def solo_trace(ci, pi):
        key = (ci, pi)
        if key not in solo:
            iset, idxs = ISO_PROGS[pi]
            cpu, plan = setup_instance(CONFIGS[ci], iset == "thumb", prog_of(iset, idxs))
            solo[key] = trace_steps(cpu, plan, steps)
            ref = fresh.get("%d,%d" % (ci, pi)) if fresh else None
            res.cases += 1
            if ref is not None and [list(map(str, t)) for t in solo[key]] != [list(map(str, t)) for t in
                                                                            [(tuple(x[0]), x[1]) for x in ref][:steps]]:
                res.fail("trace-differs-from-fresh-process",
                         "config %r program %r: this process gives %r, a fresh interpreter gives %r" % (
                             CONFIGS[ci], names_of(*ISO_PROGS[pi]), solo[key], ref[:steps]),
                         {"config": ci, "program": pi})
        return solo[key]

    prog_choices = list(itertools.product(range(len(ISO_PROGS)), repeat=k)) if k == 2 else \
        [(0, 1, 2), (1, 2, 3), (2, 0, 1)]
    scheds = interleavings([steps] * k)
    for progs in prog_choices:
        expected = [solo_trace(cfg_idx[i], progs[i]) for i in range(k)]
        for sched in scheds:
            first_use = [sched.index(i) for i in range(k)]
            # construction positions: instance i may be constructed at any schedule position <= its first step
            ranges = [range(first_use[i] + 1) for i in range(k)]
            for cons in itertools.product(*ranges):
                res.cases += 1
                res.add_state(hash((cfg_idx, progs, sched, cons)))
                inst = [None] * k
                traces = [[] for _ in range(k)]
                for pos in range(len(sched) + 1):
                    for i in range(k):
                        if cons[i] == pos and inst[i] is None:
                            iset, idxs = ISO_PROGS[progs[i]]
                            inst[i] = setup_instance(cfgs[i], iset == "thumb", prog_of(iset, idxs))
                    if pos == len(sched):
                        break
                    i = sched[pos]
                    cpu, plan = inst[i]
                    out = machine.step(cpu)
                    res.transitions += 1
                    traces[i].append((out[:3], digest(plan.snapshot())))
                for i in range(k):
                    same = "same-config" if len(set(cfg_idx)) == 1 else "different-config"
                    res.outcome("interleaved-" + same)
                    if traces[i] != expected[i]:
                        pos = next(j for j, (x, y) in enumerate(zip(traces[i], expected[i])) if x != y)
                        res.fail("interleaving-changes-trace (%s instances)" % same,
                                 "instance %d (config %r, program %r): step %d gives %r interleaved, %r alone; schedule=%r "
                                 "construction=%r, other configs %r" % (
                                     i, cfgs[i], names_of(*ISO_PROGS[progs[i]]), pos, traces[i][pos], expected[i][pos],
                                     sched, cons, [c for j, c in enumerate(cfgs) if j != i]),
                                 {"configs": list(cfg_idx), "programs": list(progs), "schedule": list(sched),
                                  "construction": list(cons)})
    res.sample({"configs": [CONFIGS[i] for i in cfg_idx], "schedules": len(scheds), "example_schedule": list(scheds[len(scheds) // 2])})


def replay(doc):
    r = doc["replay"]
    res = Result()
    if "schedule" in r:
        return "re-run: ./check C20 (shard iso %r); detail: %s" % (r["configs"], doc["detail"])
    return "re-run: ./check C20 (shard snap %s); detail: %s" % (r.get("iset"), doc["detail"])


if __name__ == "__main__":
    import json
    import os
    import sys
    if len(sys.argv) == 4 and sys.argv[1] == "xcfg":
        real = sys.stdout
        sys.stdout = open(os.devnull, "w")
        r_ = xcfg_run(int(sys.argv[2]), int(sys.argv[3]))
        real.write(json.dumps(r_) + "\n")
        sys.exit(0)
    if len(sys.argv) == 4 and sys.argv[1] == "solo":
        real = sys.stdout
        sys.stdout = open(os.devnull, "w")
        ci, pi = int(sys.argv[2]), int(sys.argv[3])
        iset, idxs = ISO_PROGS[pi]
        cpu, plan_ = setup_instance(CONFIGS[ci], iset == "thumb", prog_of(iset, idxs))
        tr = trace_steps(cpu, plan_, 3)
        real.write(json.dumps([[list(t[0]), t[1]] for t in tr]) + "\n")
