"""C16 - memory hub: explicit-state search over read/write histories against a flat reference (DESIGN 3 C16).

State = bytes and length of every device (the hub holds nothing else); successors are computed on a FRESH real hub
with the history replayed; the invariants and the flat model are evaluated after every event."""
import itertools

from ..runner import Result

ID = "C16"
BASE = 0x100
WIN = 40
SIZES = (1, 2, 4, 8)
HIGH = 1 << 32


def dev_range(entry):
    """(begin, end) of a layout entry (offset, size[, HIGH])."""
    off, size = entry[0], entry[1]
    hi = entry[2] if len(entry) > 2 else 0
    return BASE + off + hi, BASE + off + hi + size


def layouts(tier):
    """Lists of (begin_offset, size) in first-match priority order."""
    out = []
    for s in (1, 2, 3, 4, 8, 9):
        out.append([(8, s)])
    pair_sizes = (1, 3, 4, 8)
    for a, b in itertools.product(pair_sizes, repeat=2):
        out.append([(8, a), (8 + a, b)])             # adjacent
        out.append([(8, a), (8 + a + 1, b)])         # gap of 1
        out.append([(8, a), (8 + a + 5, b)])         # gap of 5
        out.append([(8, a), (8 + a - 1, b)])         # overlapping by one byte, first match wins
        out.append([(8 + a, b), (8, a)])             # adjacent, listed in descending address order
        out.append([(8, a), (8, b)])             # same begin: second is shadowed where the first covers
    tri_sizes = (3, 4, 8)
    for a, b, c in itertools.product(tri_sizes, repeat=3):
        out.append([(8, a), (8 + a, b), (8 + a + b, c)])
        out.append([(8, a), (8 + a + 2, b), (8 + a + b + 1, c)])
    out = [l for l in out if all(o + s <= WIN for o, s in l)]
    # devices above 4 GB (40-bit physical addresses of the Large Physical Address Extension): alone, and aliasing a low
    # device in the low 32 address bits, in both priority orders.  A third element HIGH adds 2^32 to the device address.
    for a, b in itertools.product((3, 4, 8), repeat=2):
        out.append([(8, a), (8, b, HIGH)])
        out.append([(8, a, HIGH), (8, b)])
    for a in (1, 4, 9):
        out.append([(8, a, HIGH)])
    return out


def plan(tier):
    ls = layouts(tier)
    depth = 2
    shards = [(i, l, depth, tier) for i, l in enumerate(ls)]
    return {
        "shards": shards,
        "rule": "BFS over histories of hub reads/writes (size 1/2/4/8 at every address of the window +-8) on every "
                "device layout; each transition executed on a fresh real MemoryControllerHub with the history replayed "
                "and compared with a flat first-match reference; invariants (device length, foreign bytes, no host "
                "error) evaluated in every state; state = (len, bytes) of every device",
        "bounds": {"layouts": len(ls), "window_bytes": WIN, "addresses": "BASE-8 .. BASE+%d" % (WIN + 8),
                   "sizes": list(SIZES), "depth": depth,
                   "read_write_read": "every (read X, write Y near X, re-read at X with every size) history, no state merging; thorough re-reads every address overlapping Y", "depth3": "thorough: depth 3 with the event menu restricted to addresses within 4 bytes of a "
                             "device boundary and sizes {1,4,8}"},
        "exhaustive": True,
        "high_devices": "layouts with a device 2^32 above the window (alone / aliasing a low device, both orders); events at both the low addresses and their aliases",
        "assumptions": ["bytes of a device written by an access that runs past the device end are don't-care "
                        "(the invariants are not)", "devices are RAM objects, as created by add_memory()"],
    }


def build(layout):
    from armulator.armv6.memory_controller_hub import MemoryControllerHub
    hub = MemoryControllerHub()
    model = []
    for k, entry in enumerate(layout):
        begin, end = dev_range(entry)
        size = end - begin
        hub.add_memory("RAM", begin, end)
        init = bytes(((0x10 * (k + 1)) + i) & 0xFF for i in range(size))
        hub.memories[-1].mem.memory_array[:] = init
        model.append([begin, end, bytearray(init)])
    return hub, model


def fresh_hub(model):
    from armulator.armv6.memory_controller_hub import MemoryControllerHub
    hub = MemoryControllerHub()
    for begin, end, data in model:
        hub.add_memory("RAM", begin, end)
        hub.memories[-1].mem.memory_array[:] = data
    return hub


class Desc:
    pass


def mkdesc(addr):
    from armulator.armv6.address_descriptor import AddressDescriptor
    d = AddressDescriptor()
    d.paddress.physicaladdress = addr
    return d


def wvalue(size, step):
    return int.from_bytes(bytes(((0xC1 + 0x10 * i + 5 * step) & 0xFF) for i in range(size)), "little")


def apply(hub, model, ev, step, res, layout, hist, check=True):
    """Applies one event to the real hub and to the model; returns False if the state can no longer be trusted."""
    op, addr, size = ev
    dev = None
    for m in model:
        if m[0] <= addr < m[1]:
            dev = m
            break
    if dev is None:
        kind = "unmapped"
    elif addr + size <= dev[1]:
        kind = "in-range"
    else:
        kind = "past-end"
    err = None
    got = None
    try:
        if op == "r":
            got = hub[mkdesc(addr), size]
        else:
            hub[mkdesc(addr), size] = wvalue(size, step)
    except Exception as e:  # noqa
        err = type(e).__name__
    label = "%s %s" % ("read" if op == "r" else "write", kind)
    if check:
        res.transitions += 1
        res.outcome(label)

    def fail(manner, detail):
        if not check:
            return
        res.fail("%s %s" % (label, manner), detail + " | layout=%r history=%r event=%r" % (layout, hist, ev),
                 {"layout": layout, "base": BASE, "history": [list(h) for h in hist], "event": list(ev)})

    ok = True
    if err is not None:
        fail("raises " + err, "host-level %s escaped the hub" % err)
        ok = False
    # model update
    dontcare = set()
    if op == "w" and dev is not None:
        data = wvalue(size, step).to_bytes(size, "little")
        o = addr - dev[0]
        n = min(size, dev[1] - addr)
        if kind == "in-range":
            dev[2][o:o + n] = data[:n]
        else:
            dontcare = set(range(o, o + n))
    if op == "r" and err is None:
        if kind == "unmapped" and got != 0:
            fail("wrong-value", "unmapped read returned %#x, expected 0" % got)
        elif kind == "in-range":
            o = addr - dev[0]
            exp = int.from_bytes(dev[2][o:o + size], "little")
            if got != exp:
                fail("wrong-value", "read returned %#x, device bytes give %#x" % (got, exp))
        elif kind == "past-end" and not isinstance(got, int):
            fail("wrong-type", "read returned %r" % (got,))
        elif kind == "past-end" and check:
            # the bytes beyond the device are not specified, but the value must be a function of the devices' current
            # contents: the same read on a freshly built hub holding the same bytes must give the same value (no bytes
            # left over from earlier accesses)
            fresh = fresh_hub(model)
            try:
                ref = fresh[mkdesc(addr), size]
            except Exception as e:  # noqa
                ref = type(e).__name__
            if got != ref:
                fail("value-depends-on-earlier-accesses", "read returned %#x after this history, %s on a fresh hub with "
                     "the same device contents" % (got, hex(ref) if isinstance(ref, int) else ref))
    # invariants in the reached state
    for k, (m, mc) in enumerate(zip(model, hub.memories)):
        arr = mc.mem.memory_array
        if len(arr) != m[1] - m[0] or mc.beginning != m[0] or mc.end != m[1]:
            fail("device-resized", "device %d now has %d bytes (was %d)" % (k, len(arr), m[1] - m[0]))
            ok = False
            continue
        if m is dev and dontcare:
            for i in range(len(arr)):
                if i in dontcare:
                    m[2][i] = arr[i]       # adopt the implementation's choice for don't-care bytes
        if bytes(arr) != bytes(m[2]):
            who = "wrong-bytes" if m is dev else "foreign-bytes-changed"
            fail(who, "device %d bytes %s, model %s" % (k, bytes(arr).hex(), bytes(m[2]).hex()))
            ok = False
    if len(hub.memories) != len(model):
        fail("device-list-changed", "%d devices" % len(hub.memories))
        ok = False
    return ok


def canon(model):
    return tuple(bytes(m[2]) for m in model)


def run_shard(arg):
    idx, layout, depth, tier = arg
    res = Result()
    lo, hi = BASE - 8, BASE + WIN + 8
    high = any(len(e) > 2 for e in layout)
    addrs = list(range(lo, hi))
    if high:
        # both the low window and its alias 2^32 above, a reduced window around the devices
        addrs = [a + h for h in (0, HIGH) for a in range(BASE, BASE + 24)]
    events = [(op, a, s) for op in ("r", "w") for s in SIZES for a in addrs]
    bounds = set()
    for entry in layout:
        bounds.update(dev_range(entry))
    near = [(op, a, s) for op in ("r", "w") for s in (1, 4, 8) for a in addrs
            if any(-8 <= a - b <= 3 for b in bounds)]
    levels = [events] * depth + ([near] if tier == "thorough" else [])
    hub, model = build(layout)
    seen = {canon(model)}
    res.add_state(hash((idx, canon(model))))
    frontier = [()]
    for d, menu in enumerate(levels):
        if d == 2:
            # depth 3 continues only from states reached by a write near a boundary (stated bound)
            nearset = set(near)
            frontier = [h for h in frontier if all(e in nearset for e in h)]
        nxt = []
        for hist in frontier:
            # all reads on one replayed object (state verified unchanged after each)
            hub, model = build(layout)
            good = all(apply(hub, model, ev, i, res, layout, hist[:i], check=False) for i, ev in enumerate(hist))
            if not good:
                continue
            for ev in menu:
                if ev[0] != "r":
                    continue
                res.cases += 1
                if not apply(hub, model, ev, len(hist), res, layout, hist):
                    hub, model = build(layout)
                    for i, e2 in enumerate(hist):
                        apply(hub, model, e2, i, res, layout, hist[:i], check=False)
            for ev in menu:
                if ev[0] != "w":
                    continue
                res.cases += 1
                hub, model = build(layout)
                for i, e2 in enumerate(hist):
                    apply(hub, model, e2, i, res, layout, hist[:i], check=False)
                ok = apply(hub, model, ev, len(hist), res, layout, hist)
                if not ok:
                    continue      # a violating state is reported, not extended
                k = canon(model)
                if k not in seen:
                    seen.add(k)
                    res.add_state(hash((idx, k)))
                    nxt.append(hist + (ev,))
        frontier = nxt
    # read / write / read histories: reads do not change the modelled state, so the BFS above never extends a history
    # with one - a hidden read-side cache would go unnoticed.  Enumerate every (read X, write Y overlapping X's
    # neighbourhood, re-read at X) history explicitly, without state merging.
    reads = [e for e in events if e[0] == "r"]
    writes = [e for e in events if e[0] == "w"]
    for y in writes:
        for x in reads:
            if not (y[1] - 8 <= x[1] < y[1] + y[2] + 8):
                continue
            hub, model = build(layout)
            res.cases += 1
            h = (x, y)
            if not apply(hub, model, x, 0, res, layout, ()):
                continue
            if not apply(hub, model, y, 1, res, layout, (x,)):
                continue
            finals = [("r", x[1], s) for s in SIZES] if tier == "quick" else \
                [("r", a, s) for s in SIZES for a in range(y[1] - 7, y[1] + y[2] + 1)]
            for z in finals:
                if not apply(hub, model, z, 2, res, layout, h):
                    break
    res.sample({"layout": layout, "states": len(seen), "example_history": [list(e) for e in (frontier[0] if frontier else ())]})
    return res.as_dict()


def replay(doc):
    r = doc["replay"]
    layout = [tuple(x) for x in r["layout"]]
    hub, model = build(layout)
    res = Result()
    hist = [tuple(e) for e in r["history"]]
    out = []
    for i, ev in enumerate(hist + [tuple(r["event"])]):
        apply(hub, model, ev, i, res, layout, tuple(hist[:i]))
        out.append("%r -> devices %s" % (ev, [bytes(mc.mem.memory_array).hex() for mc in hub.memories]))
    return "\n".join(out) + "\nviolations: %s" % sorted(res.violations)
