"""C11 - exception entry against ref.exc.

(a) API-driven: every exception kind x source mode x T x ITSTATE x A/I/F x PC x extension configuration x the full
    product of the routing bits that kind's pseudocode reads, plus every single deviation of the other routing bits.
(b) instruction-driven: SVC / SMC / UDF / an unallocated word / alignment-faulting LDR and STR (base r1 and the mode's own
    banked SP / LR) / WFI, WFE and SMC with and without their Hyp trap controls (HCR.TWI / TWE / TSC), in both instruction
    sets, stepped with emulate_cycle() - this checks the return-address arithmetic against the real PC."""
import itertools

from ..runner import Result
from .. import machine, sweep
from ..ref import exc as rexc, bv, rows_sys
from ..ref.state import St, ModelStop, Unpredictable, USR, FIQ, IRQ, SVC, MON, ABT, HYP, UND, SYS

ID = "C11"
CONFIGS = [
    ("nosec", {"have_security_ext": False, "arch_version": 7}),
    ("sec", {"have_security_ext": True, "arch_version": 7}),
    ("sec+virt", {"have_security_ext": True, "have_virt_ext": True, "have_lpae": True, "arch_version": 7}),
    ("sec-v6", {"have_security_ext": True, "arch_version": 6}),
]
# name -> (register location, bit)
BITS = {
    "SCTLR.V": ("sctlr", 13), "SCTLR.VE": ("sctlr", 24), "SCTLR.TE": ("sctlr", 30), "SCTLR.EE": ("sctlr", 25),
    "SCTLR.NMFI": ("sctlr", 27), "HSCTLR.TE": ("hsctlr", 30), "HSCTLR.EE": ("hsctlr", 25),
    "SCR.NS": ("scr", 0), "SCR.IRQ": ("scr", 1), "SCR.FIQ": ("scr", 2), "SCR.EA": ("scr", 3), "SCR.FW": ("scr", 4),
    "SCR.AW": ("scr", 5), "HCR.TGE": ("hcr", 27), "HCR.AMO": ("hcr", 5), "HCR.IMO": ("hcr", 4), "HCR.FMO": ("hcr", 3),
    "HCR.TWI": ("hcr", 13), "HCR.TWE": ("hcr", 14), "HCR.TSC": ("hcr", 19),
}
RELEVANT = {
    "undef": ["SCTLR.V", "SCTLR.TE", "SCTLR.EE", "HSCTLR.TE", "HSCTLR.EE", "SCR.NS", "HCR.TGE"],
    "svc": ["SCTLR.V", "SCTLR.TE", "SCTLR.EE", "HSCTLR.TE", "HSCTLR.EE", "SCR.NS", "HCR.TGE"],
    "smc": ["SCTLR.TE", "SCTLR.EE", "SCR.NS"],
    "dabort": ["SCTLR.V", "SCTLR.TE", "SCTLR.EE", "HSCTLR.TE", "SCR.NS", "SCR.AW", "SCR.EA", "HCR.TGE"],
    "dabort-align": ["SCTLR.V", "SCTLR.TE", "SCTLR.EE", "HSCTLR.TE", "SCR.NS", "SCR.AW", "HCR.TGE"],
    "irq": ["SCTLR.V", "SCTLR.VE", "SCTLR.TE", "SCTLR.EE", "SCR.NS", "SCR.IRQ", "SCR.AW", "HCR.IMO", "SCR.EA", "SCR.FIQ"],
    "fiq": ["SCTLR.V", "SCTLR.VE", "SCTLR.TE", "SCTLR.EE", "SCR.NS", "SCR.FIQ", "SCR.FW", "SCR.AW", "HCR.FMO", "SCR.IRQ"],
    "hyptrap": ["HSCTLR.TE", "HSCTLR.EE", "SCR.EA", "SCR.IRQ", "SCR.FIQ", "SCR.NS"],
    "reset": ["SCTLR.V", "SCTLR.TE", "SCTLR.EE", "SCR.NS"],
}
KINDS = list(RELEVANT)
MODES = [USR, FIQ, IRQ, SVC, MON, ABT, HYP, UND, SYS]
BASES = {"vbar": [0, 0x1000, 0xFFFF0000 & 0xFFFFFFE0], "mvbar": [0x2000, 0xFFFFFFE0], "hvbar": [0x3000, 0xFFFFFFE0]}


def plan(tier):
    shards = []
    for ci in range(len(CONFIGS)):
        for k in KINDS:
            for m in MODES:
                shards.append(("api", ci, k, m, tier))
    for ci in range(len(INSTR_CONFIGS)):
        for thumb in (0, 1):
            shards.append(("instr", ci, thumb, tier))
    return {
        "shards": shards,
        "rule": "exception kind x source mode x T x ITSTATE x A/I/F x PC x vector-base registers x extension configuration "
                "x full product of the routing bits relevant to the kind x every single deviation of the other routing "
                "bits; entry through Registers.take_*_exception()/ArmV6.take_reset() and through emulate_cycle() on "
                "SVC/SMC/UDF/unallocated/alignment-faulting LDR/STR; full snapshot compared with ref.exc",
        "bounds": {"configs": [c[0] for c in CONFIGS], "relevant_bits": RELEVANT,
                   "itstate": [0, 0xA5, 0x08] if tier != "quick" else [0, 0xA5],
                   "aif": "all 8" if tier != "quick" else [0, 7, 2, 5], "pc": ["0x10", "0x10800", "0xFFFFFFF8", "0xFFFFFFFC"],
                   "invalid_states_skipped": "Hyp mode with SCR.NS=0 or without the virtualisation extension; Monitor "
                                             "mode without the security extension"},
        "exhaustive": True,
        "assumptions": ["external / asynchronous aborts and debug exceptions are constant-false mocks in the emulator "
                        "and are not modelled", "HSR contents on Hyp entry are not compared (UNKNOWN / separate syndrome "
                        "logic)"],
    }


def valid_state(cfgd, mode, ns):
    if mode == MON and not cfgd.get("have_security_ext"):
        return False
    if mode == HYP and (not cfgd.get("have_virt_ext") or not ns):
        return False
    return True


# the instruction-level entries additionally run under a VMSA configuration (MMU off): alignment faults then take the
# VMSA abort path (alignment_fault_v -> data_abort) instead of the PMSA one
# (without LPAE: with it every VMSA fault report calls the unimplemented cache-maintenance hook)
INSTR_CONFIGS = CONFIGS + [("sec-vmsa", {"have_security_ext": True, "arch_version": 7, "memory_system_architecture": "VMSA"})]


class Ctx:
    def __init__(self, ci):
        name, cfg = INSTR_CONFIGS[ci]
        self.name = name
        self.env = sweep.Env("mpu-off", cfg)
        self.cpu = self.env.cpu
        self.plan = self.env.plan
        self.base = self.env.base("svc", "ram")
        full = dict(machine.base_config())
        full.update(cfg)
        self.cfg = full
        self.ix = self.plan.index


def setbit(regs, ix, name, val):
    loc, bit = BITS[name]
    i = ix[loc]
    regs[i] = (regs[i] & ~(1 << bit)) | (val << bit)


def api_call(cpu, kind):
    from armulator.armv6.arm_exceptions import DataAbortException
    from armulator.armv6.enums import DAbort
    r = cpu.registers
    if kind == "undef":
        return r.take_undef_instr_exception()
    if kind == "svc":
        return r.take_svc_exception()
    if kind == "smc":
        return r.take_smc_exception()
    if kind == "dabort":
        return r.take_data_abort_exception(DataAbortException(DAbort.PERMISSION, False))
    if kind == "dabort-align":
        return r.take_data_abort_exception(DataAbortException(DAbort.ALIGNMENT, False))
    if kind == "irq":
        return r.take_physical_irq_exception()
    if kind == "fiq":
        return r.take_physical_fiq_exception()
    if kind == "hyptrap":
        return r.take_hyp_trap_exception()
    if kind == "reset":
        return cpu.take_reset()
    raise KeyError(kind)


def model_call(st, kind):
    if kind == "undef":
        rexc.take_undef(st)
    elif kind == "svc":
        rexc.take_svc(st)
    elif kind == "smc":
        rexc.take_smc(st)
    elif kind == "dabort":
        rexc.take_data_abort(st, alignment=False)
    elif kind == "dabort-align":
        rexc.take_data_abort(st, alignment=True)
    elif kind == "irq":
        rexc.take_irq(st)
    elif kind == "fiq":
        rexc.take_fiq(st)
    elif kind == "hyptrap":
        rexc.take_hyp_trap(st)
    elif kind == "reset":
        take_reset_model(st)


def take_reset_model(st):
    """TakeReset (B1.9.1) for the features the emulator configures (no VFP / ThumbEE / Jazelle)."""
    st.M = SVC
    if st.cfg.get("have_security_ext"):
        st.loc["scr"] &= ~1
    # ResetControlRegisters(): IMPLEMENTATION DEFINED values; the emulator resets VBAR from its configuration file
    rv = st.cfg.get("reset_values", {}).get("VBAR")
    st.loc["vbar"] = int(rv, 0) if rv else 0
    st.I = 1
    st.F = 1
    st.A = 1
    st.IT = 0
    st.J = 0
    st.T = st.sctlr(30)
    st.E = st.sctlr(25)
    st.branch_to(rexc.exc_vector_base(st) & ~1)


def applicable(kind, cfgd, mode, ns):
    if kind == "smc":
        return bool(cfgd.get("have_security_ext")) and mode != USR
    if kind == "hyptrap":
        return bool(cfgd.get("have_virt_ext")) and bool(cfgd.get("have_security_ext")) and ns and mode not in (MON, HYP)
    return True


def run_shard(arg):
    res = Result()
    if arg[0] == "api":
        api_shard(res, *arg[1:])
    else:
        instr_shard(res, *arg[1:])
    return res.as_dict()


def api_shard(res, ci, kind, mode, tier):
    c = Ctx(ci)
    cfgd = c.cfg
    if mode == MON and not cfgd.get("have_security_ext"):
        return
    if mode == HYP and not cfgd.get("have_virt_ext"):
        return
    rel = [b for b in RELEVANT[kind] if not (b.startswith(("HSCTLR", "HCR")) and not cfgd.get("have_virt_ext"))
           and not (b.startswith("SCR") and not cfgd.get("have_security_ext"))]
    others = [b for b in BITS if b not in rel and not (b.startswith(("HSCTLR", "HCR")) and not cfgd.get("have_virt_ext"))
              and not (b.startswith("SCR") and not cfgd.get("have_security_ext"))]
    its = [0, 0xA5] if tier == "quick" else [0, 0xA5, 0x08]
    aifs = [0, 7, 2, 5] if tier == "quick" else list(range(8))
    pcs = [0x10, 0x10800, 0xFFFFFFF8, 0xFFFFFFFC]
    plan = c.plan
    ix = c.ix
    names = plan.names
    activate_done = False
    for relvals in itertools.product((0, 1), repeat=len(rel)):
        assign = dict(zip(rel, relvals))
        for dev in [None] + others:
            ns = assign.get("SCR.NS", 1 if dev == "SCR.NS" else 0)
            if not valid_state(cfgd, mode, ns):
                continue
            if not applicable(kind, cfgd, mode, ns):
                continue
            for T, it, aif in itertools.product((0, 1), its, aifs):
                if it and not T:
                    continue
                # rotate the remaining alphabets instead of multiplying them in (each value occurs with every routing point)
                k = res.cases
                pc = pcs[k % len(pcs)]
                if T and pc & 2:
                    pass
                regs = list(c.base[0])
                for b, v in assign.items():
                    setbit(regs, ix, b, v)
                if dev is not None:
                    setbit(regs, ix, dev, 1)
                regs[ix["vbar"]] = BASES["vbar"][k % 3]
                regs[ix["mvbar"]] = BASES["mvbar"][(k // 3) % 2]
                regs[ix["hvbar"]] = BASES["hvbar"][(k // 5) % 2]
                cpsr = mode | (T << 5) | (aif << 6) | (0x9 << 28) | ((k & 1) << 9) | (0xA << 16)
                if T:
                    cpsr |= ((it & 3) << 25) | ((it >> 2) << 10)
                    # CPSR.J: half of the Thumb-state cases are taken from ThumbEE state (J = T = 1); every entry clears J
                    cpsr |= (aif & 1) << 24
                regs[ix["cpsr"]] = cpsr
                regs[ix["R.PC"]] = pc
                pre = tuple(regs)
                plan.restore((pre, c.base[1]))
                if not activate_done:
                    machine.activate(c.cpu)
                    activate_done = True
                res.cases += 1
                res.add_state(hash((ci, kind, pre)))
                out = machine.call(api_call, c.cpu, kind)
                res.transitions += 1
                post = plan.regs()
                st = St(names, pre, c.base[1], cfgd)
                model_call(st, kind)
                if st.M == HYP:
                    st.unknown.add("hsr")
                rp = {"config": c.name, "kind": kind, "mode": mode, "bits": assign, "deviation": dev, "T": T, "it": it,
                      "aif": aif, "pc": pc, "cpsr": cpsr}
                if out[0] != "ok":
                    res.fail("%s entry raises %s" % (kind, " ".join(map(str, out[1:3]))),
                             "from %s %r: %r" % (machine.MODE_NAMES[mode], rp, out), rp)
                    continue
                res.outcome("%s->%s" % (kind, machine.MODE_NAMES.get(st.M, st.M)))
                d = st.compare(names, post, c.base[1])
                if d:
                    what = d[0][0]
                    res.fail("%s entry %s" % (kind, classify(what)),
                             "config=%s from %s T=%d it=%#x aif=%d pc=%#x bits=%r dev=%s | model->impl: %s" % (
                                 c.name, machine.MODE_NAMES[mode], T, it, aif, pc, assign, dev, machine.fmt_diff(d)), rp)
    res.sample({"config": c.name, "kind": kind, "mode": machine.MODE_NAMES[mode], "relevant_bits": rel, "deviations": len(others)})


def classify(loc):
    if loc == "cpsr":
        return "CPSR"
    if loc == "R.PC":
        return "vector"
    if loc.startswith("R.LR") or loc == "elr_hyp":
        return "return-address"
    if loc.startswith("spsr"):
        return "SPSR"
    if loc == "scr":
        return "SCR.NS"
    return loc


# ------------------------------------------------------------------------------------------------ instructions
def instr_shard(res, ci, thumb, tier):
    c = Ctx(ci)
    cfgd = c.cfg
    plan = c.plan
    ix = c.ix
    names = plan.names
    # (kind, word, length, base register of the misaligned access, trap-control bit enumerated in addition)
    if thumb:
        progs = [("svc", 0xDF05, 16, None, None), ("undef", 0xDE01, 16, None, None), ("smc", 0xF7F18000, 32, None, "HCR.TSC"),
                 ("undef", 0xF7F0A000, 32, None, None), ("ldr-align", 0x6808, 16, 1, None), ("str-align", 0x6008, 16, 1, None),
                 ("ldr-align", 0x9800, 16, 13, None), ("ldr-align", 0xF8DE0000, 32, 14, None),       # banked base registers
                 ("wfi", 0xBF30, 16, None, "HCR.TWI"), ("wfi", 0xF3AF8003, 32, None, "HCR.TWI"), ("wfe", 0xBF20, 16, None, "HCR.TWE")]
    else:
        progs = [("svc", 0xEF000005, 32, None, None), ("undef", 0xE7F000F0, 32, None, None), ("smc", 0xE1600071, 32, None, "HCR.TSC"),
                 ("ldr-align", 0xE5910000, 32, 1, None), ("str-align", 0xE5810000, 32, 1, None),
                 ("ldr-align", 0xE59E0000, 32, 14, None), ("str-align", 0xE58D0000, 32, 13, None),   # banked base registers
                 ("wfi", 0xE320F003, 32, None, "HCR.TWI"), ("wfe", 0xE320F002, 32, None, "HCR.TWE")]
    pcs = [0x10800, 0x10, 0xFFFFFFF8 if not thumb else 0xFFFFFFFA]
    bits = ["SCTLR.V", "SCTLR.TE", "SCTLR.EE", "SCR.NS", "HCR.TGE", "SCR.AW"]
    bits = [b for b in bits if not (b.startswith("HCR") and not cfgd.get("have_virt_ext"))
            and not (b.startswith("SCR") and not cfgd.get("have_security_ext"))]
    its = [0] if not thumb else [0, 0xE8, 0xE4, 0x08]     # AL / EQ(with Z=0: fails -> no exception)
    virt = bool(cfgd.get("have_virt_ext"))
    for (kind, word, olen, basereg, trapbit), mode, vals, pc, it, aif, trap in itertools.product(
            progs, MODES, itertools.product((0, 1), repeat=len(bits)), pcs, its, (0, 7), (0, 1)):
        if trap and not (trapbit and virt):
            continue
        assign = dict(zip(bits, vals))
        if trap:
            assign[trapbit] = 1
        ns = assign.get("SCR.NS", 0)
        if not valid_state(cfgd, mode, ns):
            continue
        if kind == "smc" and it & 0xF and it & 0xF != 8:
            continue          # SMC inside an IT block but not last: UNPREDICTABLE
        regs = list(c.base[0])
        for b, v in assign.items():
            setbit(regs, ix, b, v)
        regs[ix["sctlr"]] |= 2          # SCTLR.A (and HSCTLR.A for Hyp mode): unaligned word access faults
        regs[ix["hsctlr"]] |= 2
        regs[ix["sctlr"]] &= ~1
        cpsr = mode | (thumb << 5) | (aif << 6) | (0x2 << 28)
        if thumb:
            cpsr |= ((it & 3) << 25) | ((it >> 2) << 10)
        regs[ix["cpsr"]] = cpsr
        regs[ix["R.PC"]] = pc
        from ..ref.state import phys
        regs[ix[phys(0, mode)]] = 0x600DF00D
        if basereg is not None:
            regs[ix[phys(basereg, mode)]] = 0x10101  # unaligned base for LDR/STR (r1, or the mode's own SP / LR)
        if kind == "wfe":
            regs[ix["event_register"]] = bool(aif & 1)      # a pending event is consumed before HCR.TWE is looked at
        pre = tuple(regs)
        plan.restore((pre, c.base[1]))
        machine.put_instr(c.cpu, pc, word, bool(thumb), olen)
        pre_mem = plan.mem()
        res.cases += 1
        res.add_state(hash((ci, thumb, kind, word, pre)))
        out = machine.step(c.cpu)
        res.transitions += 1
        post = plan.regs()
        post_mem = plan.mem()
        st = St(names, pre, pre_mem, cfgd)
        st.ilen = olen // 8
        passed = True
        if thumb and it & 0xF:
            cond = it >> 4
            passed = bv.cond_holds(cond, st.N, st.Z, st.C, st.V)
        k = kind
        if not passed:
            if kind == "smc" and (not cfgd.get("have_security_ext") or mode == USR):
                k = "undef"
        elif kind in ("smc", "wfi", "wfe"):
            # the system-instruction semantics of the reference model decide between the plain effect, the Hyp trap
            # (HCR.TSC / TWI / TWE), UNDEFINED and the Secure Monitor Call
            try:
                {"smc": rows_sys.sem_smc, "wfi": rows_sys.sem_wfi, "wfe": rows_sys.sem_wfe}[kind](st, {}, {})
                k = "completes"
            except ModelStop as ms_:
                k = ms_.kind
            except Unpredictable:
                res.outcome("model-unpredictable")
                continue
        if not passed and k != "undef":
            st.finish()
            st.it_advance()
        elif not passed and k == "undef":
            res.outcome("impdef-skipped")     # UNDEFINED with a failing condition: IMPLEMENTATION DEFINED
            continue
        elif k == "completes":
            st.finish()
            if thumb and it & 0xF:
                st.it_advance()
        elif k in ("ldr-align", "str-align"):
            write = k == "str-align"
            addr = 0x10101
            if st.M == HYP or (rexc._virt_sec(st) and not st.secure() and st.M == USR and rexc.hcr(st, 27)):
                # reported through HSR/HDFAR: syndrome not modelled here
                st.unknown.update(("hsr", "hdfar", "hpfar", "dfsr", "dfar"))
                rexc.take_data_abort(st, alignment=True)
            else:
                rexc.take(st, ModelStop("dabort", alignment=True, addr=addr, write=write))
        else:
            rexc.take(st, ModelStop(k))
        if st.M == HYP:
            st.unknown.add("hsr")
        rp = {"config": c.name, "thumb": thumb, "kind": kind, "word": word, "mode": mode, "bits": assign, "pc": pc, "it": it,
              "aif": aif}
        if out[0] != "ok":
            res.fail("%s instruction step %s" % (kind, " ".join(map(str, out[:3]))), repr(rp), rp)
            continue
        res.outcome("instr-%s->%s" % (kind, machine.MODE_NAMES.get(st.M, st.M)))
        d = st.compare(names, post, post_mem)
        if d:
            res.fail("%s (%s) %s" % (kind, "thumb" if thumb else "arm", classify(d[0][0])),
                     "config=%s word=%#x from %s pc=%#x it=%#x bits=%r | model->impl: %s" % (
                         c.name, word, machine.MODE_NAMES[mode], pc, it, assign, machine.fmt_diff(d)), rp)
    res.sample({"config": c.name, "thumb": thumb, "programs": [p[0] for p in progs]})


def replay(doc):
    return "re-run ./check C11; case: %r\n%s" % (doc["replay"], doc["detail"])
