"""C05 - conditional execution.  (a) the 16-entry condition table, exhaustively over cond x NZCV, through ARM
cond fields, the Thumb conditional branch and IT-block conditions; (b) every conditional instruction of the harvested
alphabet x all (cond, NZCV): a failing condition is a no-op apart from PC / ITSTATE, a passing one equals the
unconditional execution (differential oracle, no model)."""
from ..runner import Result
from .. import machine, isa, sweep, lazyword
from ..ref import bv

ID = "C05"
NSHARD = 32


def plan(tier):
    arm = [w for w in isa.harvest_words(False)]
    thumb = [w for w in isa.harvest_words(True)]
    shards = [("table", None)]
    for i in range(NSHARD):
        shards.append(("arm", i))
        shards.append(("thumb", i))
    # the harvested words (and their S-bit variants) again under the other architecture versions: several execute()
    # bodies have version-specific flag / interworking rules that must sit inside the condition check as well
    for ver in (4, 5, 7):
        for i in range(0, NSHARD, 4):
            shards.append(("arm-ver", i // 4, ver))
            shards.append(("thumb-ver", i // 4, ver))
    # every conditional ENCODING, not only the harvested ones: all 2^16 Thumb halfwords in an IT block, and every leaf
    # of the lazy-word partition of ARM (cond field fixed to EQ, rewritten per variant) and Thumb-32 decode
    for blk in range(32):
        shards.append(("t16all", blk))
    cap = 8 if tier == "quick" else 12
    for cube in sweep.arm_shards():
        shards.append(("a32leaves", (cube[0] | 0xF0000000, cube[1]), cap, tier))
    for cube in sweep.thumb32_shards():
        shards.append(("t32leaves", cube, cap, tier))
    return {
        "shards": shards,
        "rule": "for every harvested instruction word with a condition (ARM cond field 0..14; Thumb instruction as the "
                "only instruction of an IT block with firstcond 0..14; B<c> T1/T3 cond 0..13) and every NZCV value: execute "
                "on the real emulator, compare the full snapshot diff with the AL execution (pass) or with {PC+len, "
                "ITSTATE advanced} (fail); state = (word, cond, NZCV)",
        "bounds": {"arm_words": len(arm), "thumb_words": len(thumb), "conds": "0..14", "nzcv": "0..15",
                   "versions": "ARMv6 for everything; the harvested words and their S-bit variants x all (cond, NZCV) again under ARMv4, v5 and v7",
                   "operands": "as harvested from the test-suite plus every single-bit flip of the word that stays in the same encoding class (those under conds {EQ,NE} x NZCV {0000,0100}); registers pointing into RAM",
                   "all_encodings": "all 2^16 Thumb halfwords as the single instruction of an IT block; every decode leaf of the "
                                    "ARM and Thumb-32 spaces (lazy-word partition, wide cap %d) with the free bits set to "
                                    "{all-0, all-1%s}; conds {EQ,NE} x NZCV {0000,0100} (each cond fails once and passes once)" % (
                                        cap, "" if tier == "quick" else ", 0101.., 1010.., every walking 1"),
                   "excluded_self_reading": "passing instances that read their own encoding as data (PC-relative loads onto the "
                                            "instruction itself): the conditional and the AL word differ there by construction",
                   "excluded": "instances whose AL execution is UNDEFINED (IMPLEMENTATION DEFINED when the condition "
                               "fails) or that from_bitarray rejects as UNPREDICTABLE in that context"},
        "exhaustive": True,
        "assumptions": ["register values are one file per run (registers pointing into RAM); operand FIELDS are covered per "
                        "decode leaf by pattern members, not every word of the leaf is stepped"],
        "deadline_s": 400 if tier == "quick" else 1500,
    }


def set_nzcv(regs, nzcv):
    regs.cpsr.value = (regs.cpsr.value & 0x0FFFFFFF) | (nzcv << 28)


def run_one(cpu, plan, base, word, thumb, olen, nzcv, it=0):
    plan.restore(base)
    regs = cpu.registers
    isa.place(cpu, word, thumb, olen)
    set_nzcv(regs, nzcv)
    regs.cpsr.it = it
    plan.reset_scratch()
    pre = plan.snapshot()
    out = machine.step(cpu)
    post = plan.snapshot()
    return pre, out, post


def reads_own_code(cpu, plan, base, word, thumb, olen, nzcv, it):
    """True iff executing the instruction reads its own encoding as DATA (e.g. LDR r0,[pc,#-8]).  The conditional and the
    AL form necessarily differ in those bytes, so the differential oracle has no verdict for such an instance.  Decided by
    watching the memory hub's reads during one more execution: any read overlapping the instruction beyond its fetch."""
    hub_cls = type(cpu.mem)
    orig = hub_cls.__getitem__
    reads = []

    def spy(self, key):
        try:
            reads.append((key[0].paddress.physicaladdress, key[1]))
        except Exception:  # noqa - a differently shaped key: no information, count nothing
            pass
        return orig(self, key)
    hub_cls.__getitem__ = spy
    try:
        run_one(cpu, plan, base, word, thumb, olen, nzcv, it)
    finally:
        hub_cls.__getitem__ = orig
    lo, hi = isa.CODE, isa.CODE + olen // 8
    overlapping = sum(1 for a, n in reads if a < hi and a + n > lo)
    return overlapping > (2 if (thumb and olen == 32) else 1)


def predictable(cpu, word, thumb, olen, it):
    """The implementation's own verdict (one-sided: a wrong 'unpredictable' only loses coverage)."""
    regs = cpu.registers
    regs.cpsr.t = 1 if thumb else 0
    regs.cpsr.it = it
    cpu.opcode = word
    cpu.opcode_len = olen
    try:
        cls = cpu.decode_instruction(word)
        return bool(cls) and cls.from_bitarray(word, cpu) is not None
    except Exception:  # noqa - the step itself will report it
        return True


def code_free(d):
    # (location, value after): 'before' legitimately differs between the conditional and the AL run (ITSTATE cond)
    return [(x[0], x[2]) for x in d if not (x[0].startswith("mem[") and isa.CODE <= int(x[0][4:-1], 16) < isa.CODE + 4)]


# UNPREDICTABLE inside an IT block (A8.8: IT, CBZ, B<c>, CPS, SETEND), or executed unconditionally there (BKPT)
NOT_IN_IT = {"CbzT1", "ItT1", "CpsThumbT1", "CpsThumbT2", "SetendT1", "BkptT1", "BT1", "BT3"}


def class_of(cpu, word, thumb, olen, it):
    regs = cpu.registers
    regs.cpsr.t = 1 if thumb else 0
    regs.cpsr.it = it
    cpu.opcode = word
    cpu.opcode_len = olen
    try:
        cls = cpu.decode_instruction(word)
        return cls.__name__ if cls else None
    except Exception:  # noqa
        return None


def all16(res, cpu, plan, base, blk):
    for w in range(blk * 2048, (blk + 1) * 2048):
        if (w >> 11) in (0b11101, 0b11110, 0b11111):
            continue
        cname = class_of(cpu, w, True, 16, 0x08)
        if cname is None:
            res.outcome("undefined-skipped")
            continue
        check_word(res, cpu, plan, base, w, True, 16, cname, (0, 1), (0b0000, 0b0100))
    res.sample({"thumb16_block": [hex(blk * 2048), hex((blk + 1) * 2048 - 1)]})


def leaves32(res, cpu, plan, base, kind, cube, cap, tier):
    thumb = kind == "t32leaves"
    it = 0x08 if thumb else 0
    f = sweep.decode_fn(cpu, 1 if thumb else 0, 32, it)
    leaves = []

    def on_leaf(mask, val, r, exc):
        if exc is None and r != "UNDEFINED" and not r.endswith(":unpredictable"):
            leaves.append((mask, val, r))
    plan.restore(base)
    t = lazyword.explore(f, 32, cube[0], cube[1], on_leaf, wide_cap=cap)
    res.count("leaves", t.leaves)
    res.count("words_in_leaves", t.words)
    res.count("words_outside_cap", t.capped_words)
    full = 0xFFFFFFFF
    for mask, val, cname in leaves:
        fm = full & ~mask
        mem = [val, val | fm]
        if tier != "quick":
            mem += [val | (fm & 0x55555555), val | (fm & 0xAAAAAAAA)]
            mem += [val | (1 << b) for b in range(32) if (fm >> b) & 1]          # every walking 1 of the free bits
        done = set()
        for w in mem:
            if w in done:
                continue
            done.add(w)
            res.count("leaf_members")
            check_word(res, cpu, plan, base, w, thumb, 32, cname, (0, 1), (0b0000, 0b0100))
    res.sample({"cube": [hex(cube[0]), hex(cube[1])], "conditional_leaves": len(leaves)})


def run_shard(arg):
    kind, idx = arg[0], arg[1]
    res = Result()
    if kind in ("arm-ver", "thumb-ver"):
        cpu, plan, base = isa.std_cpu(arch_version=arg[2])
        thumb = kind == "thumb-ver"
        for wi, (t, olen, word, cname) in enumerate(isa.harvest_words(thumb)):
            if wi % (NSHARD // 4) != idx:
                continue
            for w2 in ((word, word ^ (1 << 20)) if olen == 32 else (word,)):
                if w2 != word and class_of(cpu, w2, thumb, olen, 0x08 if thumb else 0) != cname:
                    continue
                check_word(res, cpu, plan, base, w2, thumb, olen, cname, range(15), range(16))
        res.sample({"version": arg[2], "thumb": thumb, "shard": idx})
        return res.as_dict()
    cpu, plan, base = isa.std_cpu()
    if kind == "t16all":
        all16(res, cpu, plan, base, idx)
        return res.as_dict()
    if kind in ("a32leaves", "t32leaves"):
        leaves32(res, cpu, plan, base, kind, arg[1], arg[2], arg[3])
        return res.as_dict()
    if kind == "table":
        table(res, cpu, plan, base)
        return res.as_dict()
    thumb = kind == "thumb"
    words = isa.harvest_words(thumb)
    for wi, (t, olen, word, cname) in enumerate(words):
        if wi % NSHARD != idx:
            continue
        check_word(res, cpu, plan, base, word, thumb, olen, cname, range(15), range(16))
        # operand variants: every single-bit flip that stays in the same encoding class (P/U/W/S bits, register
        # fields, immediates), under a reduced (cond, NZCV) alphabet that still has a failing and a passing pair
        it_ctx = 0 if not thumb else 0x08
        for b in range(olen):
            if not thumb and b >= 28:
                continue
            w2 = word ^ (1 << b)
            if thumb and olen == 32 and thumb_len_bits(w2) != 32:
                continue
            if thumb and olen == 16 and (w2 >> 11) in (0b11101, 0b11110, 0b11111):
                continue
            if class_of(cpu, w2, thumb, olen, it_ctx) != cname:
                continue
            res.count("operand_variants")
            check_word(res, cpu, plan, base, w2, thumb, olen, cname, (0, 1), (0b0000, 0b0100))
        res.sample({"class": cname, "word": hex(word), "thumb": thumb})
    return res.as_dict()


def thumb_len_bits(w32):
    return 32 if (w32 >> 27) in (0b11101, 0b11110, 0b11111) else 16


def check_word(res, cpu, plan, base, word, thumb, olen, cname, conds, nzcvs):
    iPC = plan.index["R.PC"]
    icpsr = plan.index["cpsr"]
    if not thumb:
        if word >> 28 == 0xF:
            return
        variants = [((word & 0x0FFFFFFF) | (c << 28), c, 0) for c in conds]
        ref_word, ref_it = (word & 0x0FFFFFFF) | (0xE << 28), 0
    else:
        if olen == 16 and (word >> 12) == 0xD and ((word >> 8) & 0xF) < 14:
            variants = [((word & 0xF0FF) | (c << 8), c, 0) for c in conds if c < 14]      # B<c> T1
            ref_word, ref_it = 0xE000 | (word & 0xFF) | (0x700 if word & 0x80 else 0), 0   # B T2, same offset
        elif olen == 32 and (word >> 27) == 0b11110 and (word >> 14) & 3 == 0b10 and not (word >> 12) & 1 and \
                ((word >> 23) & 0x7) != 7:
            variants = [((word & ~(0xF << 22)) | (c << 22), c, 0) for c in conds if c < 14]  # B<c>.W T3
            ref_word = None
        elif cname in NOT_IN_IT:
            return
        else:
            variants = [(word, c, (c << 4) | 0x8) for c in conds]
            ref_word, ref_it = word, 0xE8
    skip = set()
    first = True
    for nzcv in nzcvs:
        ref = None
        if ref_word is not None:
            pre_r, out_r, post_r = run_one(cpu, plan, base, ref_word, thumb, olen, nzcv, ref_it)
            ref = (out_r, code_free(plan.diff(pre_r, post_r)))
            if out_r[0] == "host":
                # crash of the unconditional form: C18's business; a differential oracle has no reference here
                res.outcome("ref-host-error")
                continue
            if out_r[0] == "ok" and (post_r[0][icpsr] & 0x1F) == 0b11011 and (pre_r[0][icpsr] & 0x1F) != 0b11011:
                res.outcome("ref-undefined-skipped")
                continue
        for w2, c, it in variants:
            if first and not predictable(cpu, w2, thumb, olen, it):
                skip.add((w2, it))
            if (w2, it) in skip:
                res.outcome("unpredictable-skipped")
                continue
            res.cases += 1
            res.add_state(hash((w2, c, nzcv, it)))
            pre, out, post = run_one(cpu, plan, base, w2, thumb, olen, nzcv, it)
            res.transitions += 1
            n, z, cf, v = (nzcv >> 3) & 1, (nzcv >> 2) & 1, (nzcv >> 1) & 1, nzcv & 1
            passed = bv.cond_holds(c, n, z, cf, v)
            d = code_free(plan.diff(pre, post))
            rp = {"thumb": thumb, "olen": olen, "word": w2, "class": cname, "cond": c, "nzcv": nzcv, "itstate": it}
            if out[0] == "host":
                if ref is not None and ref[0][0] == "host":
                    continue
                res.fail("%s %s@%s" % (cname, out[1], out[2]), "cond=%d nzcv=%d: %r" % (c, nzcv, out), rp)
                continue
            if not passed:
                res.outcome("fail-cond")
                exp = [("R.PC", (pre[0][iPC] + olen // 8) & 0xFFFFFFFF)]
                if it:
                    exp.append(("cpsr", pre[0][icpsr] & ~0x0600FC00))
                if out[0] != "ok" or sorted(d) != sorted(exp):
                    res.fail("%s executes-with-failed-condition" % cname,
                             "word %#x cond=%d NZCV=%s: %s %s" % (w2, c, format(nzcv, "04b"), out[0], repr(d)), rp)
            else:
                res.outcome("pass-cond")
                if ref is None:
                    continue
                if (out, d) != ref and reads_own_code(cpu, plan, base, w2, thumb, olen, nzcv, it):
                    res.outcome("reads-own-encoding-skipped")
                    continue
                if (out, d) != ref:
                    res.fail("%s passing-condition-differs-from-unconditional" % cname,
                             "word %#x cond=%d NZCV=%s: got %s %s; AL gives %s %s" % (
                                 w2, c, format(nzcv, "04b"), out[0], repr(d), ref[0][0], repr(ref[1])), rp)
        first = False


def table(res, cpu, plan, base):
    """ConditionPassed() through three routes, all cond x NZCV."""
    iR0 = plan.index["R.R0usr"]
    iPC = plan.index["R.PC"]
    for nzcv in range(16):
        n, z, cf, v = (nzcv >> 3) & 1, (nzcv >> 2) & 1, (nzcv >> 1) & 1, nzcv & 1
        for c in range(15):
            exp = bv.cond_holds(c, n, z, cf, v)
            routes = [("arm-cond-field", (c << 28) | 0x03A00000 | 0x5A, False, 32, 0)]          # MOV<c> r0,#0x5A
            routes.append(("it-block", 0x205A, True, 16, (c << 4) | 8))                         # MOV r0,#0x5A in IT
            routes.append(("it-block-t32", 0xF04F005A, True, 32, (c << 4) | 8))                 # MOV.W r0,#0x5A
            for name, word, thumb, olen, it in routes:
                res.cases += 1
                res.add_state(hash((name, c, nzcv)))
                pre, out, post = run_one(cpu, plan, base, word, thumb, olen, nzcv, it)
                res.transitions += 1
                executed = post[0][iR0] == 0x5A
                res.outcome("table-" + name)
                if out[0] != "ok" or executed != exp:
                    res.fail("condition-table %s cond=%d" % (name, c),
                             "NZCV=%s: executed=%s, architecture says %s (%r)" % (format(nzcv, "04b"), executed, exp, out),
                             {"route": name, "word": word, "cond": c, "nzcv": nzcv, "itstate": it})
            if c < 14:
                word = 0xD000 | (c << 8) | 0x10      # B<c> +0x20
                res.cases += 1
                pre, out, post = run_one(cpu, plan, base, word, True, 16, nzcv, 0)
                res.transitions += 1
                taken = post[0][iPC] == pre[0][iPC] + 4 + 0x20
                nottaken = post[0][iPC] == pre[0][iPC] + 2
                res.outcome("table-thumb-branch")
                if out[0] != "ok" or (taken if exp else nottaken) is not True:
                    res.fail("condition-table thumb-branch cond=%d" % c,
                             "NZCV=%s: PC %#x -> %#x, architecture says taken=%s" % (
                                 format(nzcv, "04b"), pre[0][iPC], post[0][iPC], exp),
                             {"route": "thumb-branch", "word": word, "cond": c, "nzcv": nzcv})
    res.sample({"table": "MOV<c> r0,#0x5A under every cond x NZCV"})


def replay(doc):
    r = doc["replay"]
    cpu, plan, base = isa.std_cpu()
    pre, out, post = run_one(cpu, plan, base, r["word"], r["thumb"], r.get("olen", 32), r["nzcv"], r.get("itstate", 0))
    return "word %#x NZCV=%s itstate=%#x -> %r\n  changes: %s" % (
        r["word"], format(r["nzcv"], "04b"), r.get("itstate", 0), out, machine.fmt_diff(plan.diff(pre, post), 40))
