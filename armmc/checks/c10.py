"""C10 - register file integrity and banking.

(a) banking as explicit-state search over histories of {mode switch, register write in the current mode, write by
    explicit mode, SPSR write, exception entry}: after EVERY event all 15 x 9 (n, mode) views, the SPSR view and the
    whole snapshot are compared with an independent banking model (ref.state.phys / ref.exc).
(b) range invariant: every general-purpose register, SPSR, ELR_hyp, CPSR and the PC is an int in 0..2^32-1 after any
    instruction, over the harvested alphabet + operand variants + all 2^16 Thumb halfwords, from boundary register files
    and from instruction addresses at both ends of the address space."""
import itertools

from ..runner import Result
from .. import machine, isa, sweep
from ..ref import exc as rexc
from ..ref.state import St, phys, spsr_name, USR, FIQ, IRQ, SVC, MON, ABT, HYP, UND, SYS

ID = "C10"
CONFIGS = [
    ("sec", {"arch_version": 7}),
    ("sec+virt", {"arch_version": 7, "have_virt_ext": True, "have_lpae": True}),
    ("nosec", {"arch_version": 7, "have_security_ext": False}),
]
ALLMODES = [USR, FIQ, IRQ, SVC, MON, ABT, HYP, UND, SYS]
EXC = ["svc", "undef", "irq", "fiq", "dabort", "smc"]


def plan(tier):
    shards = []
    depth = 3 if tier == "quick" else 4
    for ci in range(len(CONFIGS)):
        for ns in (0, 1):
            for m in (USR, FIQ, SVC, MON, HYP) if tier == "quick" else ALLMODES:
                shards.append(("bank", ci, ns, m, depth, tier))
    for ci in range(len(CONFIGS)):
        for m in ALLMODES:
            shards.append(("bank-instr", ci, m))
    for blk in range(32):
        shards.append(("range-t16", blk))
    for i in range(16):
        shards.append(("range-h", i))
    return {
        "shards": shards,
        "rule": "(a) DFS over all event histories of depth %d from every start mode x security state x configuration, all "
                "views compared after every event; state = (mode, tag in every physical register cell); "
                "(b) range predicate after every step of the instruction alphabets from 5 boundary register files" % depth,
        "bounds": {"depth": depth, "events": "mode switch (9) | set Rn current mode (n=0..14) | set_rmode(n in {0,8,12,13,14}, "
                   "every mode) | set_spsr | take svc/undef/irq/fiq/dabort/smc", "deeper_event_menus": "second event: set n in {0,8,13,14}, "
                   "set_rmode n in {8,13,14}; third: set n in {8,13,14}, no set_rmode; fourth (thorough): set n in {13,14}", "start_modes": "usr,fiq,svc,mon,hyp (thorough: all 9)"},
        "exhaustive": True,
        "assumptions": ["mode switches are made by assigning CPSR.M (the harness), exception entries through the public "
                        "take_*_exception API", "Hyp mode only with the virtualisation extension and SCR.NS=1; Monitor "
                        "mode only with the security extension"],
    }


def run_shard(arg):
    res = Result()
    if arg[0] == "bank":
        bank(res, *arg[1:])
    elif arg[0] == "bank-instr":
        bank_instr(res, arg[1], arg[2])
    elif arg[0] == "range-t16":
        range_t16(res, arg[1])
    else:
        range_h(res, arg[1])
    return res.as_dict()


# ------------------------------------------------------------------------------------------------ (a)
def legal_modes(cfgd, ns):
    out = []
    for m in ALLMODES:
        if m == MON and not cfgd.get("have_security_ext"):
            continue
        if m == HYP and (not cfgd.get("have_virt_ext") or not ns):
            continue
        out.append(m)
    return out


def bank(res, ci, ns, start, depth, tier):
    name, cfg = CONFIGS[ci]
    env = sweep.Env("mpu-off", cfg)
    cpu = env.cpu
    regs = cpu.registers
    plan = env.plan
    full = dict(machine.base_config())
    full.update(cfg)
    if ns and not full.get("have_security_ext"):
        return
    modes = legal_modes(full, ns)
    if start not in modes:
        return
    names = plan.names
    # initial state: every physical cell holds a distinct tag
    base = list(env.base("svc", "ram")[0])
    ix = plan.index
    for k, n in enumerate(names):
        if n.startswith("R.") and n != "R.PC":
            base[ix[n]] = 0x1000 + k
        if n.startswith("spsr_"):
            base[ix[n]] = 0x10 | (k << 8)
    base[ix["elr_hyp"]] = 0xE0E0E0E0
    base[ix["R.PC"]] = 0x10800
    base[ix["cpsr"]] = 0x1C0 | start
    if full.get("have_security_ext"):
        base[ix["scr"]] = (base[ix["scr"]] & ~1) | ns
    base = tuple(base)
    mem = env.base("svc", "ram")[1]
    reg_menu_full = list(range(15))
    rm_menu_full = [0, 8, 12, 13, 14]
    reg_menu_deep = [0, 8, 13, 14]
    rm_menu_deep = [8, 13, 14]
    counter = [0]

    def events(st, d):
        # event menus shrink with depth (stated bound): full at the first event, reduced registers at the second,
        # no explicit-mode writes at the third
        reg_menu = reg_menu_full if d == 0 else (reg_menu_deep if d == 1 else ([8, 13, 14] if d == 2 else [13, 14]))
        rm_menu = rm_menu_full if d == 0 else (rm_menu_deep if d == 1 else [])
        ev = [("mode", m) for m in modes if m != st.M]
        ev += [("set", n) for n in reg_menu]
        ev += [("set_rmode", n, m) for n in rm_menu for m in modes]
        if spsr_name(st.M):
            ev.append(("set_spsr",))
        for k in EXC:
            if k == "smc" and (not full.get("have_security_ext") or st.M == USR):
                continue
            ev.append(("exc", k))
        return ev

    def apply(ev, st):
        counter[0] += 1
        tag = 0xA0000000 + counter[0] * 0x10 + (st.M & 0xF)
        kind = ev[0]
        if kind == "mode":
            regs.cpsr.m = ev[1]
            st.M = ev[1]
        elif kind == "set":
            regs.set(ev[1], tag)
            st.setR(ev[1], tag)
        elif kind == "set_rmode":
            regs.set_rmode(ev[1], ev[2], tag)
            st.setRmode(ev[1], ev[2], tag)
        elif kind == "set_spsr":
            v = 0x10 | ((tag & 0xFFFF) << 8)
            regs.set_spsr(v)
            st.set_spsr(v)
        else:
            from .c11 import api_call, model_call
            api_call(cpu, ev[1])
            model_call(st, ev[1])
            if st.M == HYP:
                st.unknown.add("hsr")

    def check(st, hist):
        res.transitions += 1
        d = st.compare(names, plan.regs(), ())
        if d:
            res.fail("banking %s after %s" % (d[0][0].split("[")[0], hist[-1][0]),
                     "config=%s ns=%d history=%r | model->impl: %s" % (name, ns, hist, machine.fmt_diff(d)),
                     {"config": name, "ns": ns, "start": start, "history": [list(h) for h in hist]})
            return False
        # every (n, mode) view: get_rmode is a function of (n, mode, configuration, security state) only, so the full
        # 15 x 9 table is re-read after every first event and after every second event that is a mode switch or an
        # exception entry; deeper, the current mode's 15 views + SPSR are read after every event
        for m in (modes if (len(hist) <= 1 or (len(hist) == 2 and hist[-1][0] in ("mode", "exc"))) else ()):
            for n in range(15):
                try:
                    got = regs.get_rmode(n, m)
                except Exception as e:  # noqa
                    got = "raised " + type(e).__name__
                if got != st.loc[phys(n, m)]:
                    res.fail("view R%d in %s" % (n, machine.MODE_NAMES[m]),
                             "config=%s ns=%d history=%r: get_rmode(%d, %s) = %r, banking table says %s = %#x" % (
                                 name, ns, hist, n, machine.MODE_NAMES[m], got, phys(n, m), st.loc[phys(n, m)]),
                             {"config": name, "ns": ns, "start": start, "history": [list(h) for h in hist]})
                    return False
        cm = st.M
        for n in range(15):
            if regs.get(n) != st.loc[phys(n, cm)]:
                res.fail("view get(%d) in current mode" % n, "config=%s history=%r" % (name, hist),
                         {"config": name, "ns": ns, "start": start, "history": [list(h) for h in hist]})
                return False
        sn = spsr_name(cm)
        if sn and regs.get_spsr() != st.loc[sn]:
            res.fail("view SPSR in %s" % machine.MODE_NAMES[cm], "config=%s history=%r" % (name, hist),
                     {"config": name, "ns": ns, "start": start, "history": [list(h) for h in hist]})
            return False
        return True

    def dfs(pre, hist, d):
        st0 = St(names, pre, (), full)
        for ev in events(st0, d):
            plan.restore_regs(pre)
            st = St(names, pre, (), full)
            res.cases += 1
            try:
                apply(ev, st)
            except Exception as e:  # noqa
                res.fail("banking event %s raises %s" % (ev[0], type(e).__name__), "history=%r event=%r: %s" % (hist, ev, e),
                         {"config": name, "ns": ns, "start": start, "history": [list(h) for h in hist + (ev,)]})
                continue
            h2 = hist + (ev,)
            ok = check(st, h2)
            res.add_state(hash((ci, ns, plan.regs()[:40])))
            res.outcome(ev[0])
            if ok and d + 1 < depth:
                dfs(plan.regs(), h2, d + 1)

    machine.activate(cpu)
    plan.restore((base, mem))
    dfs(base, (), 0)
    res.sample({"config": name, "ns": ns, "start_mode": machine.MODE_NAMES[start], "modes": [machine.MODE_NAMES[m] for m in modes]})


# ------------------------------------------------------------------------------------------------ (a')
BANK_MENU = [
    ("MOV r8,#0x11", 0xE3A08011), ("MOV r12,#0x12", 0xE3A0C012), ("MOV sp,#0x20", 0xE3A0D020), ("MOV lr,#0x33", 0xE3A0E033),
    ("LDMIA r0,{r8-r14}^", 0xE8D07F00), ("STMIA r1,{r8-r14}^", 0xE8C17F00), ("LDMIA r0,{r3,r8,r13}^", 0xE8D02108),
    ("CPS #fiq", 0xF1020011), ("CPS #irq", 0xF1020012), ("CPS #svc", 0xF1020013), ("CPS #sys", 0xF102001F),
    ("MSR CPSR_c,r2", 0xE121F002), ("MRS r3,SPSR", 0xE14F3000), ("MSR SPSR_fsxc,r4", 0xE16FF004),
    ("SRSDB sp!,#abt", 0xF96D0517), ("STMDB sp!,{r8,r12,lr}", 0xE92D5100), ("LDMIA sp!,{r8,r12,lr}", 0xE8BD5100),
    # alignment-faulting loads (SCTLR.A = 1) whose base register is banked: the Data Abort must leave every bank intact
    ("LDR r0,[sp,#1] (aborts)", 0xE59D0001), ("LDR r0,[r8,#1] (aborts)", 0xE5980001), ("LDR r0,[lr,#2]! (aborts)", 0xE5BE0002),
    # histories across exception entries (the next instruction of the program is injected at the vector): an aborting
    # access without a base register field, an exception-ending instruction, a completing write-back to a banked base
    ("LDR r0,[pc,#1] (aborts)", 0xE59F0001), ("SVC #0", 0xEF000000), ("LDR r0,[lr],#4", 0xE49E0004),
]


def bank_instr(res, ci, start):
    """Banking through instructions: every program of 3 instructions over a menu of bank-sensitive ARM instructions
    (writes to R8-R14, LDM/STM of the User bank, CPS / MSR mode switches, SPSR access, SRS, PUSH/POP, aborting loads, SVC)
    from every start mode, co-simulated with the reference stepper; the whole snapshot (every bank) is compared after
    every step.  Each instruction is injected at the current PC, so a program continues at the vector after an
    exception entry (abort inside the abort handler, SVC then abort, ...)."""
    from ..ref import model
    from ..ref.state import Unpredictable
    name, cfg = CONFIGS[ci]
    env = sweep.Env("mpu-off", cfg)
    cpu = env.cpu
    plan = env.plan
    ix = plan.index
    names = plan.names
    full = dict(machine.base_config())
    full.update(cfg)
    for ns in ((0, 1) if full.get("have_security_ext") else (0,)):
        if start not in legal_modes(full, ns) or start == HYP:
            continue
        base = list(env.base("svc", "ram")[0])
        for k, n in enumerate(names):
            if n.startswith("R.") and n != "R.PC":
                base[ix[n]] = 0x10100 + 0x40 * (k % 32)          # every physical register a distinct RAM address
            if n.startswith("spsr_"):
                base[ix[n]] = 0x10 | (k << 8)
        base[ix["sctlr"]] |= 2                                  # SCTLR.A: unaligned word accesses fault
        base[ix["sctlr"]] &= ~(1 << 30)                         # SCTLR.TE = 0: exceptions are taken in ARM state
        base[ix["R.R2usr"]] = 0x000001D1                        # MSR CPSR_c source: FIQ mode
        base[ix["R.R4usr"]] = 0x600001D2
        base[ix["cpsr"]] = 0x1C0 | start
        if full.get("have_security_ext"):
            base[ix["scr"]] = (base[ix["scr"]] & ~1) | ns
        base[ix["R.PC"]] = 0x10800
        pre = tuple(base)
        mem0 = env.base("svc", "ram")[1]
        for prog in itertools.product(range(len(BANK_MENU)), repeat=3):
            plan.restore((pre, mem0))
            st = St(names, pre, plan.mem(), full)
            res.cases += 1
            res.add_state(hash((ci, ns, start, prog)))
            for k in range(3):
                # the k-th instruction is injected wherever control is (after an exception: at the vector), on both sides
                pc = st.pc
                if st.thumb() or pc & 3 or not (pc < 0xFFC or 0x10000 <= pc < 0x11FFC):
                    break
                word = BANK_MENU[prog[k]][1]
                machine.put_instr(cpu, pc, word, False, 32)
                for i_ in range(4):
                    st.mem.wr(pc + i_, (word >> (8 * i_)) & 0xFF)
                try:
                    label = model.step(st)
                except Unpredictable:
                    res.outcome("model-unpredictable-stop")
                    break
                out = machine.step(cpu)
                res.transitions += 1
                post = plan.regs()
                d = [("step", "ok", out)] if out[0] != "ok" else st.compare(names, post, plan.mem())
                if d:
                    res.fail("banking via instruction %s: %s" % (label.split("->")[0], d[0][0].split("[")[0]),
                             "config=%s ns=%d start=%s program=%r step %d | model->impl: %s" % (
                                 name, ns, machine.MODE_NAMES[start], [BANK_MENU[i][0] for i in prog], k, machine.fmt_diff(d)),
                             {"config": name, "ns": ns, "start": start, "program": [BANK_MENU[i][1] for i in prog]})
                    break
                for loc in st.unknown:
                    st.loc[loc] = post[ix[loc]]
                st.unknown.clear()
                res.outcome("instr-step")
    res.sample({"config": name, "start_mode": machine.MODE_NAMES[start], "menu": [m[0] for m in BANK_MENU]})


# ------------------------------------------------------------------------------------------------ (b)
REGFILES = {
    "zero": lambda n: 0,
    "ones": lambda n: 0xFFFFFFFF,
    "intmin": lambda n: 0x80000000,
    "top": lambda n: (0xFFFFFFF0 + n) & 0xFFFFFFFF,
    "bottom": lambda n: n,
}


def range_env():
    env = sweep.Env("mpu-off", {"arch_version": 7})
    bases = {}
    for rf, fn in REGFILES.items():
        for mode in ("svc", "usr", "fiq"):
            regs = list(env.base(mode, "ram")[0])
            for k, nm in enumerate(env.plan.names):
                if nm.startswith("R.") and nm != "R.PC":
                    regs[k] = fn(k)
            bases[(rf, mode)] = (tuple(regs), env.base(mode, "ram")[1])
    watch = [i for i, nm in enumerate(env.plan.names) if nm.startswith(("R.", "spsr_")) or nm in ("elr_hyp", "cpsr")]
    return env, bases, watch


def range_check(res, env, watch, label, rp):
    vals = env.plan.regs()
    for i in watch:
        v = vals[i]
        if type(v) is not int or v < 0 or v > 0xFFFFFFFF:
            res.fail("range %s" % env.plan.names[i].rstrip("0123456789"), "%s: %s = %r" % (label, env.plan.names[i], v), rp)
            return False
    return True


def range_t16(res, blk):
    env, bases, watch = range_env()
    for (rf, mode), base in bases.items():
        if mode == "fiq":
            continue
        for w in range(blk * 2048, (blk + 1) * 2048):
            if (w >> 11) in (0b11101, 0b11110, 0b11111):
                continue
            for addr in (isa.CODE, 0xFFFFFFF8, 0xFFFFFFFA, 0xFFFFFFFE):
                res.cases += 1
                out = sweep.step_word(env, base, w, True, 16, 0, addr=addr)
                res.transitions += 1
                if out[0] == "host":
                    res.outcome("host-error (C18)")
                    continue
                res.outcome("in-range")
                range_check(res, env, watch, "thumb16 %#06x at %#x, register file '%s', %s" % (w, addr, rf, mode),
                            {"word": w, "thumb": True, "olen": 16, "regfile": rf, "mode": mode, "addr": addr})
    res.states = set(range(blk * 2048, (blk + 1) * 2048))
    res.sample({"thumb16_block": blk, "register_files": list(REGFILES)})


def range_h(res, idx):
    from .c05 import class_of
    env, bases, watch = range_env()
    cpu = env.cpu
    words = isa.harvest_words()
    for wi, (t, olen, word, cname) in enumerate(words):
        if wi % 16 != idx:
            continue
        variants = [word]
        for b in range(olen):
            w2 = word ^ (1 << b)
            if t and olen == 32 and (w2 >> 27) not in (0b11101, 0b11110, 0b11111):
                continue
            if t and olen == 16 and (w2 >> 11) in (0b11101, 0b11110, 0b11111):
                continue
            if class_of(cpu, w2, bool(t), olen, 0) == cname:
                variants.append(w2)
        for w2 in variants:
            for (rf, mode), base in bases.items():
                # the last slots of the address space: PC + 4 / + 8 and the exception return addresses derived from them
                # cross 2^32 from 0xFFFFFFF8 (all), 0xFFFFFFFC (32-bit) and 0xFFFFFFFE (16-bit Thumb)
                for addr in (isa.CODE, 0xFFFFFFF8, 0xFFFFFFFC if not (t and olen == 16) else 0xFFFFFFFE):
                    res.cases += 1
                    res.add_state(hash((t, w2, rf, mode, addr)))
                    out = sweep.step_word(env, base, w2, bool(t), olen, 0, addr=addr)
                    res.transitions += 1
                    if out[0] == "host":
                        res.outcome("host-error (C18)")
                        continue
                    res.outcome("in-range")
                    range_check(res, env, watch, "%s %#x at %#x, register file '%s', %s" % (cname, w2, addr, rf, mode),
                                {"word": w2, "thumb": t, "olen": olen, "regfile": rf, "mode": mode, "addr": addr, "cls": cname})
    res.sample({"harvest_shard": idx})


def replay(doc):
    return "re-run ./check C10; case: %r\n%s" % (doc["replay"], doc["detail"])
