"""Shard runner, findings, replay files and evidence (DESIGN 2.1 / 2.6).

A check module provides
    ID                      property id
    plan(tier) -> dict      {'shards': [picklable args], 'bounds': {...}, 'rule': str, 'exhaustive': bool,
                             'assumptions': [...]}
    run_shard(arg) -> dict  produced with Result(...).as_dict()
    replay(doc) -> str      (optional) re-execute one replay file on the real code, return a report

The runner executes all shards on a pool of long-lived forked workers, merges results in shard
order (so output does not depend on scheduling), de-duplicates violations by key, matches them
against /verif/known_findings.jsonl, writes replay files and the evidence file, and prints
the VIOLATION / KNOWN-FINDING lines.
"""
import hashlib
import json
import multiprocessing as mp
import os
import re
import sys
import time
import traceback

from . import VERIF, REPO

MAX_LINES = 50
_REAL_STDOUT = sys.stdout


class Result:
    """Per-shard accumulator."""

    def __init__(self):
        self.cases = 0            # executions / inputs tried
        self.transitions = 0      # implementation steps executed AND compared with the oracle
        self.states = set()       # hashes of distinct pre-states / inputs (bounded, see add_state)
        self.state_overflow = 0
        self.outcomes = {}        # outcome label -> count
        self.violations = {}      # key -> {'detail':..., 'replay':..., 'count': n}
        self.samples = []
        self.extra = {}           # free counters, summed by the runner

    def add_state(self, h):
        if len(self.states) < 2_000_000:
            self.states.add(h)
        else:
            self.state_overflow += 1

    def outcome(self, label, n=1):
        self.outcomes[label] = self.outcomes.get(label, 0) + n

    def count(self, name, n=1):
        self.extra[name] = self.extra.get(name, 0) + n

    def sample(self, s, limit=3):
        if len(self.samples) < limit:
            self.samples.append(s)

    def fail(self, key, detail, replay=None):
        v = self.violations.get(key)
        if v is None:
            self.violations[key] = {"detail": detail, "replay": replay, "count": 1}
        else:
            v["count"] += 1

    def as_dict(self):
        return {
            "cases": self.cases, "transitions": self.transitions, "nstates": len(self.states) + self.state_overflow,
            "outcomes": self.outcomes, "violations": self.violations, "samples": self.samples, "extra": self.extra,
        }


def _worker_init():
    # the emulator prints 'unpredictable' / 'deprecated' constantly
    sys.stdout = open(os.devnull, "w")


def _call(job):
    modname, idx, arg = job
    mod = sys.modules.get(modname) or __import__(modname, fromlist=["x"])
    t0 = time.time()
    try:
        r = mod.run_shard(arg)
        r["error"] = None
    except BaseException as e:  # noqa - a crashing shard is reported, never swallowed
        tb = traceback.extract_tb(e.__traceback__)
        site = "?"
        for fr in reversed(tb):
            site = "%s:%s" % (os.path.relpath(fr.filename, REPO) if fr.filename.startswith(REPO) else
                              os.path.basename(fr.filename), fr.name)
            break
        r = Result().as_dict()
        r["error"] = {"type": type(e).__name__, "site": site, "text": "".join(traceback.format_exception(e))[-3000:]}
    r["wall"] = time.time() - t0
    return idx, r


def load_known():
    path = os.path.join(VERIF, "known_findings.jsonl")
    known = {}
    if os.path.exists(path):
        for line in open(path):
            line = line.strip()
            if not line or line.startswith("#"):
                continue
            d = json.loads(line)
            if d.get("status") == "open":
                known[(d["property"], d["key"])] = d
    return known


def _slug(s):
    s = re.sub(r"[^A-Za-z0-9_.=-]+", "_", s)[:100]
    return s + "-" + hashlib.sha1(s.encode()).hexdigest()[:6] if len(s) == 100 else s


def run_check(mod, tier, seed, deadline_s=None):
    t0 = time.time()
    pid = mod.ID
    plan = mod.plan(tier)
    shards = list(plan["shards"])
    n = len(shards)
    if deadline_s is None:
        deadline_s = float(os.environ.get("ARMMC_DEADLINE", plan.get("deadline_s", 300 if tier == "quick" else 1500)))
    order = list(range(n))
    if n and seed:
        k = seed % n
        order = order[k:] + order[:k]          # VERIF_SEED only rotates scheduling order
    jobs = [(mod.__name__, i, shards[i]) for i in order]
    nproc = int(os.environ.get("ARMMC_PROCS", "16"))
    results = [None] * n
    capped = False
    ctx = mp.get_context("fork")
    if nproc <= 1 or n <= 1:
        _worker_init()
        try:
            for j in jobs:
                i, r = _call(j)
                results[i] = r
                if time.time() - t0 > deadline_s:
                    capped = True
                    break
        finally:
            sys.stdout = _REAL_STDOUT
        first_again = _call(jobs[0])[1] if n else None
    else:
        with ctx.Pool(min(nproc, n), initializer=_worker_init) as pool:
            it = pool.imap_unordered(_call, jobs, chunksize=1)
            # determinism self-check: the first shard is executed a second time
            again = pool.apply_async(_call, (jobs[0],))
            done = 0
            while done < n:
                try:
                    i, r = it.next(timeout=max(1.0, deadline_s - (time.time() - t0)))
                except mp.TimeoutError:
                    capped = True
                    break
                results[i] = r
                done += 1
                if time.time() - t0 > deadline_s and done < n:
                    capped = True
                    break
            try:
                first_again = again.get(timeout=max(1.0, deadline_s)) [1] if not capped else None
            except mp.TimeoutError:
                first_again = None
            pool.terminate()
    engine_errors = []
    if first_again is not None and results[order[0]] is not None:
        a = dict(results[order[0]]); b = dict(first_again)
        a.pop("wall", None); b.pop("wall", None)
        if json.dumps(a, sort_keys=True, default=str) != json.dumps(b, sort_keys=True, default=str):
            engine_errors.append("nondeterminism: shard %d gave different results when run twice" % order[0])
    # ---- merge in shard order
    tot = Result()
    nstates = 0
    done_shards = 0
    for i in range(n):
        r = results[i]
        if r is None:
            continue
        done_shards += 1
        if r["error"]:
            e = r["error"]
            tot.fail("shard-crash %s@%s" % (e["type"], e["site"]), e["text"], {"shard": repr(shards[i])[:500]})
        tot.cases += r["cases"]
        tot.transitions += r["transitions"]
        nstates += r["nstates"]
        for k, v in r["outcomes"].items():
            tot.outcome(k, v)
        for k, v in r["extra"].items():
            tot.count(k, v)
        for s in r["samples"]:
            tot.sample(s, 6)
        for k, v in r["violations"].items():
            if k in tot.violations:
                tot.violations[k]["count"] += v["count"]
            else:
                tot.violations[k] = v
    known = load_known()
    new = []
    seen_known = []
    for key in sorted(tot.violations):
        if (pid, key) in known:
            seen_known.append(key)
        else:
            new.append(key)
    out = _REAL_STDOUT
    outdir = os.environ.get("ARMMC_OUT", VERIF)      # mutation sweeps divert replays + evidence to a scratch directory
    rdir = os.path.join(outdir, "replays", pid)
    for key in seen_known:
        print("KNOWN-FINDING: property=%s %s (%d cases) -- %s" % (
            pid, key, tot.violations[key]["count"], known[(pid, key)].get("what", "")), file=out)
    printed = 0
    for key in new:
        v = tot.violations[key]
        os.makedirs(rdir, exist_ok=True)
        path = os.path.join(rdir, _slug(key) + ".json")
        with open(path, "w") as f:
            json.dump({"property": pid, "key": key, "tier": tier, "count": v["count"], "detail": v["detail"],
                       "replay": v["replay"]}, f, indent=1, default=str)
        if printed < MAX_LINES:
            print("VIOLATION property=%s replay=%s" % (pid, path), file=out)
            print("  key: %s  (%d cases)\n  %s" % (key, v["count"], str(v["detail"])[:600].replace("\n", "\n  ")), file=out)
            printed += 1
    if len(new) > printed:
        print("... %d more distinct violations not printed" % (len(new) - printed), file=out)
    wall = time.time() - t0
    exhaustive = bool(plan.get("exhaustive", True)) and not capped and done_shards == n
    if tot.extra.get("words_outside_cap") or tot.extra.get("operand_enumerations_capped"):
        exhaustive = False         # a wide observation was resolved from the pattern alphabet: stated, not complete
    cov = {
        "states": max(nstates, 1) if done_shards else 0,
        "transitions": max(tot.transitions, 0),
        "traces_validated_against_impl": tot.transitions,
        "evaluations": tot.cases,
        "distinct_nontrivial": nstates,
        "samples": tot.samples or ["(no sample recorded)"],
        "exhaustive": exhaustive,
        "rule": plan.get("rule", ""),
        "bounds": plan.get("bounds", {}),
        "shards_done": done_shards, "shards_total": n,
        "distinct_outcomes": len(tot.outcomes),
        "outcomes": dict(sorted(tot.outcomes.items(), key=lambda kv: -kv[1])[:60]),
        "counters": tot.extra,
        "known_findings_seen": seen_known,
        "violation_keys": new[:100],
        "engine_errors": engine_errors,
    }
    if capped:
        cov["cap"] = "deadline %.0fs hit: %d of %d shards completed; counts cover completed shards only" % (
            deadline_s, done_shards, n)
    ev = {
        "property_id": pid, "tier": tier, "seed": int(seed), "level": "model_checking",
        "coverage": cov, "assumptions": plan.get("assumptions", []), "wall_s": round(wall, 2),
        "violations": len(new),
    }
    os.makedirs(os.path.join(outdir, "evidence"), exist_ok=True)
    with open(os.path.join(outdir, "evidence", pid + ".json"), "w") as f:
        json.dump(ev, f, indent=1, default=str)
    print("%s %s: shards %d/%d cases=%d transitions=%d states=%d outcomes=%d violations=%d known=%d wall=%.1fs%s" % (
        pid, tier, done_shards, n, tot.cases, tot.transitions, nstates, len(tot.outcomes), len(new), len(seen_known),
        wall, " CAPPED" if capped else ""), file=out)
    for e in engine_errors:
        print("ENGINE-ERROR: " + e, file=out)
    if new:
        return 1
    if engine_errors:
        return 2
    return 0
