"""Shared enumeration drivers for the invariant checks C18 / C19 (and the range monitor of C10):
brute force over all 2^16 Thumb halfwords, lazy-word cube exploration of the ARM and Thumb-32 spaces with concrete
stepping of cube members, and two-instruction programs over the harvested alphabet."""
from . import machine, isa, lazyword

CODE = isa.CODE


class Env:
    """One processor in one memory-system configuration, with base snapshots per (mode, register file)."""

    def __init__(self, memsys, cfg=None, secure=True):
        cfg = dict(cfg or {})
        self.memsys = memsys
        if memsys == "vmsa-off":
            cfg["memory_system_architecture"] = "VMSA"
        self.cpu = cpu = machine.new_cpu(**cfg)
        cpu.take_reset()
        regs = cpu.registers
        regs.sctlr.u = 1
        if memsys in ("mpu-off", "vmsa-off"):
            regs.sctlr.m = 0
        else:
            # region 0: whole address space, full access; region 1: the data window, privileged only
            regs.sctlr.m = 1
            # MPUIR.DREGION = the number of regions the configuration implements (regions 2.. stay disabled): the
            # region scan runs over its full architectural range
            regs.mpuir.dregion = len(regs.drsrs)
            regs.drsrs[0].value = (31 << 1) | 1
            regs.drbars[0] = 0
            regs.dracrs[0].ap = 0b011
            regs.drsrs[1].value = (7 << 1) | 1          # 256 bytes
            regs.drbars[1] = isa.DATA
            regs.dracrs[1].ap = 0b001
        if not secure:
            regs.scr.ns = 1
        self.plan = machine.Plan(cpu)
        self.bases = {}

    def base(self, mode, regfile):
        key = (mode, regfile)
        b = self.bases.get(key)
        if b is None:
            regs = self.cpu.registers
            for name, m in machine.MODES.items():
                if regs.bad_mode(m):
                    continue
                regs.cpsr.m = m
                for n in range(15):
                    if regfile == "ram":
                        v = isa.DATA + 0x40 * n + (0x400 if name == "fiq" and n >= 8 else 0)
                    else:
                        v = [0xFFFFFFF0 + n, 0x80000000 + 4 * n, 0x7FFFFFFD, 0x00000001][n % 4] if n else 0xFFFFFFFF
                    regs.set(n, v)
                    # tags for banked registers of other modes are set by the checks that need them
            regs.cpsr.value = 0x000001C0 | machine.MODES[mode]
            self.plan.reset_scratch()
            b = self.bases[key] = self.plan.snapshot()
        return b


def step_word(env, base, word, thumb, olen, it, nzcv=0b0110, addr=CODE):
    """Restores `base`, places the word at addr, steps once.  Returns the outcome tuple of machine.step()."""
    env.plan.restore(base)
    cpu = env.cpu
    regs = cpu.registers
    machine.put_instr(cpu, addr, word, thumb, olen)
    c = regs.cpsr
    v = c.value & 0x01FF03DF            # clear NZCVQ? keep Q/GE: clear flags, IT, T
    v |= nzcv << 28
    if thumb:
        v |= 0x20 | ((it & 3) << 25) | ((it >> 2) << 10)
    c.value = v
    regs.branch_to(addr)
    env.plan.reset_scratch()
    return machine.step(cpu)


def thumb_len(word16):
    return 32 if (word16 >> 11) in (0b11101, 0b11110, 0b11111) else 16


def decode_fn(cpu, thumb, olen, it=0):
    """w -> label, as explored by the lazy engine: decode + from_bitarray in a fixed context."""
    regs = cpu.registers

    def f(w):
        regs.cpsr.t = thumb
        regs.cpsr.it = it
        cpu.opcode = w
        cpu.opcode_len = olen
        c = cpu.decode_instruction(w)
        if not c:
            return "UNDEFINED"
        o = c.from_bitarray(w, cpu)
        if o is None:
            return c.__name__ + ":unpredictable"
        f.last = o
        return c.__name__
    f.last = None
    return f


def arm_shards():
    """256 cubes fixing bits 27..20; the condition field stays lazy."""
    return [(0x0FF00000, op << 20) for op in range(256)]


def thumb32_shards():
    out = []
    for top in (0b11101, 0b11110, 0b11111):
        for nxt in range(16):
            out.append((0xFF800000, (top << 27) | (nxt << 23)))
    return out
