import argparse
import importlib
import json
import os
import sys

from . import runner


def main():
    ap = argparse.ArgumentParser(prog="check")
    ap.add_argument("target", help="C01..C20 | selftest")
    ap.add_argument("--tier", default=os.environ.get("VERIF_TIER", "quick"), choices=["quick", "thorough"])
    ap.add_argument("--replay")
    a = ap.parse_args()
    try:
        seed = int(os.environ.get("VERIF_SEED", "0") or 0)
    except ValueError:
        seed = 0
    if a.target == "selftest":
        from . import selftest
        sys.exit(selftest.main())
    name = a.target.lower()
    mod = importlib.import_module("armmc.checks." + name)
    if a.replay:
        doc = json.load(open(a.replay))
        print(mod.replay(doc))
        sys.exit(0)
    sys.exit(runner.run_check(mod, a.tier, seed))


if __name__ == "__main__":
    main()
