"""Read-directed exhaustive exploration of instruction-word spaces (DESIGN 2.2).

A bit of the instruction word is an environment answer that is decided only when the code under test first OBSERVES
it.  `L` routes bits (and/or/shift/disjoint add) without revealing anything; other arithmetic yields an opaque `Op`
(representative value + dependency set); every observation (comparison, truth value, __index__, hash, format) raises
NeedBits *before* a value is revealed.  explore() splits the current cube on the requested bits and re-runs; a run
that completes is a leaf: every word of the cube takes the same path."""
import operator

Z = -1   # constant 0
O = -2   # constant 1


class NeedBits(BaseException):
    def __init__(self, bits):
        self.bits = bits


def _mk(ctx, prov):
    mask, val = ctx
    v = 0
    unresolved = False
    out = []
    for i, p in enumerate(prov):
        if p == O:
            v |= 1 << i
            out.append(O)
        elif p == Z:
            out.append(Z)
        elif (mask >> p) & 1:
            if (val >> p) & 1:
                v |= 1 << i
                out.append(O)
            else:
                out.append(Z)
        else:
            unresolved = True
            out.append(p)
    if not unresolved:
        return v
    while out and out[-1] == Z:
        out.pop()
    return L(ctx, tuple(out), v)


def _val(x):
    if isinstance(x, L):
        return x.base
    if isinstance(x, Op):
        return x.v
    return x


def _deps(x):
    if isinstance(x, L):
        return frozenset(p for p in x.prov if p >= 0)
    if isinstance(x, Op):
        return x.deps
    return frozenset()


class Op:
    """Opaque value: representative (free bits = 0) + the word bits it may depend on."""
    __slots__ = ("deps", "v")

    def __init__(self, deps, v):
        self.deps = deps
        self.v = v

    def force(self, *a):
        raise NeedBits(sorted(self.deps))

    def bit_length(self):
        self.force()

    __index__ = __int__ = __hash__ = __bool__ = __eq__ = __ne__ = __lt__ = __le__ = __gt__ = __ge__ = force
    __format__ = __repr__ = __str__ = __float__ = force


def _binop(op):
    def f(a, b):
        return _opaque(_deps(a) | _deps(b), op(_val(a), _val(b)))

    def r(a, b):
        return _opaque(_deps(a) | _deps(b), op(_val(b), _val(a)))
    return f, r


def _opaque(deps, v):
    return Op(deps, v) if deps else v


for _name, _op in [("add", operator.add), ("sub", operator.sub), ("mul", operator.mul), ("floordiv", operator.floordiv),
                   ("mod", operator.mod), ("pow", operator.pow), ("xor", operator.xor), ("and", operator.and_),
                   ("or", operator.or_), ("lshift", operator.lshift), ("rshift", operator.rshift)]:
    _f, _r = _binop(_op)
    setattr(Op, "__%s__" % _name, _f)
    setattr(Op, "__r%s__" % _name, _r)
Op.__neg__ = lambda s: Op(s.deps, -s.v)
Op.__invert__ = lambda s: Op(s.deps, ~s.v)
Op.__pos__ = lambda s: s


class L:
    """Routed lazy value: prov[i] is Z, O or the index of the word bit copied to result bit i."""
    __slots__ = ("ctx", "prov", "base")

    def __init__(self, ctx, prov, base):
        self.ctx = ctx
        self.prov = prov
        self.base = base      # value with every unresolved bit = 0

    def deps(self):
        return [p for p in self.prov if p >= 0]

    def force(self, *a):
        raise NeedBits(sorted(set(self.deps())))

    def bit_length(self):
        self.force()

    # ---- routing
    def __and__(self, o):
        if isinstance(o, (L, Op)):
            return Op(_deps(self) | _deps(o), _val(self) & _val(o))
        if o < 0:
            o &= (1 << len(self.prov)) - 1
        return _mk(self.ctx, [p if (o >> i) & 1 else Z for i, p in enumerate(self.prov)])

    __rand__ = __and__

    def __or__(self, o):
        if isinstance(o, Op):
            return Op(_deps(self) | o.deps, self.base | o.v)
        if isinstance(o, L):
            n = max(len(self.prov), len(o.prov))
            a = list(self.prov) + [Z] * (n - len(self.prov))
            b = list(o.prov) + [Z] * (n - len(o.prov))
            out = []
            for x, y in zip(a, b):
                if x == Z:
                    out.append(y)
                elif y == Z:
                    out.append(x)
                elif x == O or y == O:
                    out.append(O)
                elif x == y:
                    out.append(x)
                else:
                    return Op(_deps(self) | _deps(o), self.base | o.base)
            return _mk(self.ctx, out)
        if o < 0:
            return Op(_deps(self), self.base | o)
        n = max(len(self.prov), o.bit_length())
        a = list(self.prov) + [Z] * (n - len(self.prov))
        return _mk(self.ctx, [O if (o >> i) & 1 else a[i] for i in range(n)])

    __ror__ = __or__

    def __lshift__(self, n):
        if isinstance(n, (L, Op)):
            return Op(_deps(self) | _deps(n), self.base << _val(n))
        return _mk(self.ctx, [Z] * n + list(self.prov))

    def __rshift__(self, n):
        if isinstance(n, (L, Op)):
            return Op(_deps(self) | _deps(n), self.base >> _val(n))
        return _mk(self.ctx, list(self.prov[n:]))

    def __add__(self, o):
        if isinstance(o, Op):
            return Op(_deps(self) | o.deps, self.base + o.v)
        if isinstance(o, L):
            n = max(len(self.prov), len(o.prov))
            a = list(self.prov) + [Z] * (n - len(self.prov))
            b = list(o.prov) + [Z] * (n - len(o.prov))
            if all(x == Z or y == Z for x, y in zip(a, b)):
                return self | o
            return Op(_deps(self) | _deps(o), self.base + o.base)
        if o >= 0 and all(((o >> i) & 1) == 0 or i >= len(self.prov) or self.prov[i] == Z
                          for i in range(max(o.bit_length(), 1))):
            return self | o
        return Op(_deps(self), self.base + o)

    __radd__ = __add__

    def __mod__(self, o):
        # x % 2**k is routing
        if isinstance(o, int) and o > 0 and o & (o - 1) == 0:
            return self & (o - 1)
        return Op(_deps(self) | _deps(o), self.base % _val(o))

    def __mul__(self, o):
        if isinstance(o, int) and o > 0 and o & (o - 1) == 0:
            return self << (o.bit_length() - 1)
        return Op(_deps(self) | _deps(o), self.base * _val(o))

    __rmul__ = __mul__

    def __floordiv__(self, o):
        if isinstance(o, int) and o > 0 and o & (o - 1) == 0:
            return self >> (o.bit_length() - 1)
        return Op(_deps(self) | _deps(o), self.base // _val(o))

    def __neg__(self):
        return Op(_deps(self), -self.base)

    def __invert__(self):
        return Op(_deps(self), ~self.base)

    def __pos__(self):
        return self

    # ---- observations
    def __index__(self):
        self.force()

    __int__ = __hash__ = __format__ = __repr__ = __str__ = __float__ = __index__

    def __bool__(self):
        if any(p == O for p in self.prov):
            return True
        raise NeedBits([self.deps()[-1]])

    def _cmp(self, o, op):
        if isinstance(o, L):
            # two routed values: MSB-first, one bit position (at most two word bits) at a time
            n = max(len(self.prov), len(o.prov))
            for i in range(n - 1, -1, -1):
                pa = self.prov[i] if i < len(self.prov) else Z
                pb = o.prov[i] if i < len(o.prov) else Z
                if pa >= 0 and pa == pb:
                    continue                      # the same word bit on both sides
                need = [p for p in (pa, pb) if p >= 0]
                if need:
                    raise NeedBits(sorted(set(need)))
                sa = 1 if pa == O else 0
                sb = 1 if pb == O else 0
                if sa != sb:
                    return op(sa, sb)
            return op(0, 0)
        if isinstance(o, Op):
            raise NeedBits(sorted(_deps(self) | _deps(o)))
        if not isinstance(o, int):
            return NotImplemented
        if o < 0:
            # a routed value is never negative
            return op(1, 0)
        n = max(len(self.prov), o.bit_length())
        for i in range(n - 1, -1, -1):
            p = self.prov[i] if i < len(self.prov) else Z
            ob = (o >> i) & 1
            if p == Z:
                sb = 0
            elif p == O:
                sb = 1
            else:
                raise NeedBits([p])       # MSB-first decision list: one more bit
            if sb != ob:
                return op(sb, ob)
        return op(0, 0)

    def __eq__(self, o):
        return self._cmp(o, operator.eq)

    def __ne__(self, o):
        return self._cmp(o, operator.ne)

    def __lt__(self, o):
        return self._cmp(o, operator.lt)

    def __le__(self, o):
        return self._cmp(o, operator.le)

    def __gt__(self, o):
        return self._cmp(o, operator.gt)

    def __ge__(self, o):
        return self._cmp(o, operator.ge)


def _l_arith(op, rev=False):
    def f(a, b):
        return Op(_deps(a) | _deps(b), op(_val(b), _val(a)) if rev else op(_val(a), _val(b)))
    return f


for _name, _op in [("sub", operator.sub), ("pow", operator.pow), ("xor", operator.xor)]:
    setattr(L, "__%s__" % _name, _l_arith(_op))
    setattr(L, "__r%s__" % _name, _l_arith(_op, True))
L.__rmod__ = _l_arith(operator.mod, True)
L.__rfloordiv__ = _l_arith(operator.floordiv, True)
L.__rlshift__ = _l_arith(operator.lshift, True)
L.__rrshift__ = _l_arith(operator.rshift, True)


def match(w, mask, value):
    """(w & mask) == value for a plain int or a lazy word, MSB-first, requesting one unresolved bit at a time."""
    if isinstance(w, int):
        return (w & mask) == value
    prov = w.prov
    n = len(prov)
    b = mask.bit_length() - 1
    while b >= 0:
        if (mask >> b) & 1:
            p = prov[b] if b < n else Z
            want = (value >> b) & 1
            if p == Z:
                if want:
                    return False
            elif p == O:
                if not want:
                    return False
            else:
                raise NeedBits([p])
        b -= 1
    return True


def field(w, positions):
    """Concatenation of the given bit positions (MSB first) of a plain int or lazy word - pure routing."""
    if isinstance(w, int):
        v = 0
        for b in positions:
            v = (v << 1) | ((w >> b) & 1)
        return v
    prov = w.prov
    n = len(prov)
    return _mk(w.ctx, [prov[b] if b < n else Z for b in reversed(positions)])


def word(mask, val, width=32):
    return _mk((mask, val), list(range(width)))


def patterns(k):
    """Fixed alphabet for a wide observation: all-0, all-1, every walking 1, every walking 0, every pair of 1s."""
    ps = {0, (1 << k) - 1}
    for i in range(k):
        ps.add(1 << i)
        ps.add(((1 << k) - 1) ^ (1 << i))
        for j in range(i + 1, k):
            ps.add((1 << i) | (1 << j))
    return sorted(ps)


class Tiling:
    def __init__(self):
        self.runs = 0
        self.leaves = 0
        self.words = 0          # sum of 2^free over leaves
        self.capped = {}        # k -> number of capped observations
        self.capped_words = 0   # words NOT covered because of the cap


def explore(f, width, mask0, val0, on_leaf, wide_cap=None, budget=None):
    """Runs f(L) over the cube (mask0,val0); on_leaf(mask, val, result, exc) for every leaf."""
    t = Tiling()
    stack = [(mask0, val0)]
    while stack:
        mask, val = stack.pop()
        t.runs += 1
        exc = None
        r = None
        try:
            r = f(word(mask, val, width))
        except NeedBits as nb:
            bits = [b for b in nb.bits if not (mask >> b) & 1]
            if not bits:
                raise RuntimeError("engine error: NeedBits on resolved bits %r" % (nb.bits,))
            k = len(bits)
            if wide_cap is not None and k > wide_cap:
                assigns = patterns(k)
                t.capped[k] = t.capped.get(k, 0) + 1
                free = width - bin(mask).count("1")
                t.capped_words += (1 << free) - len(assigns) * (1 << (free - k))
            else:
                assigns = range(1 << k)
            for a in assigns:
                m = mask
                v = val
                for j, b in enumerate(bits):
                    m |= 1 << b
                    if (a >> j) & 1:
                        v |= 1 << b
                stack.append((m, v))
            continue
        except Exception as e:  # noqa - an exception of the code under test is a leaf outcome
            exc = e
        t.leaves += 1
        t.words += 1 << (width - bin(mask).count("1"))
        on_leaf(mask, val, r, exc)
        if budget is not None and t.leaves >= budget:
            break
    return t


def members(mask, val, width, extra_walk=False):
    """Concrete members of a cube: free bits all-0, all-1, 0101.., 1010.. (+ each single free bit set)."""
    free = [b for b in range(width) if not (mask >> b) & 1]
    full = (1 << width) - 1
    fm = full & ~mask
    out = [val, val | fm, val | (fm & 0x55555555), val | (fm & 0xAAAAAAAA)]
    if extra_walk:
        out += [val | (1 << b) for b in free]
    seen = []
    for w in out:
        if w not in seen:
            seen.append(w)
    return seen


def selftest():
    """Engine self-check (DESIGN 2.2 'keeping the engine honest', part i): the lazy partition of the Thumb-16 decoder
    must predict the brute-force result for all 2^16 halfwords, and tile the space."""
    import io
    import contextlib
    from armulator.armv6.opcodes.decoders import thumb_instruction_set_encoding_16_bit as t16
    leaves = []

    def f(w):
        c = t16.decode_instruction(w)
        return getattr(c, "__name__", repr(c))

    with contextlib.redirect_stdout(io.StringIO()):
        t = explore(f, 16, 0, 0, lambda m, v, r, e: leaves.append((m, v, r if e is None else "EXC:" + type(e).__name__)))
        ok = t.words == 1 << 16
        pred = {}
        for m, v, r in leaves:
            pred[(m, v)] = r
        groups = {}
        for (m, v), r in pred.items():
            groups.setdefault(m, {})[v] = r
        for w in range(1 << 16):
            try:
                c = t16.decode_instruction(w)
                got = getattr(c, "__name__", repr(c))
            except Exception as e:  # noqa
                got = "EXC:" + type(e).__name__
            hit = [g[w & m] for m, g in groups.items() if (w & m) in g]
            if len(hit) != 1 or hit[0] != got:
                ok = False
                break
    print("lazyword selftest: thumb16 leaves=%d tiling=%s brute-force-agreement=%s" % (len(leaves), t.words == 1 << 16, ok))
    return ok and selftest_subcubes()


def selftest_subcubes():
    """Part (iii): 2^16-word sub-cubes of the ARM and Thumb-32 spaces: the lazy partition of decode + from_bitarray must
    predict the outcome label of every concrete word of the cube (brute force), and tile it."""
    import io
    import contextlib
    from . import sweep
    ok = True
    report = []
    with contextlib.redirect_stdout(io.StringIO()):
        env = sweep.Env("mpu-off", {"arch_version": 7})
        for thumb, top in ((0, 0xE591), (0, 0xE7B1), (0, 0xE8BD), (0, 0xE12F), (1, 0xF85D), (1, 0xEB01), (1, 0xF3EF), (1, 0xE8BD)):
            f = sweep.decode_fn(env.cpu, thumb, 32, 0)
            leaves = []

            def lab(w):
                try:
                    return f(w)
                except Exception as e:  # noqa
                    return "EXC:" + type(e).__name__
            t = explore(f, 32, 0xFFFF0000, top << 16, lambda m, v, r, e: leaves.append((m, v, r if e is None else "EXC:" + type(e).__name__)))
            good = t.words == 1 << 16
            groups = {}
            for m, v, r in leaves:
                groups.setdefault(m, {})[v] = r
            for w in range(top << 16, (top << 16) + (1 << 16)):
                hit = [g[w & m] for m, g in groups.items() if (w & m) in g]
                if len(hit) != 1 or hit[0] != lab(w):
                    good = False
                    break
            report.append((hex(top), len(leaves), good))
            ok = ok and good
    print("lazyword selftest: sub-cubes (top halfword, leaves, agrees-with-brute-force): %r" % (report,))
    return ok
