"""Encoding rows + reference semantics for the branch group (ARM ARM DDI 0406C A8.8: B, BL / BLX (immediate), BLX (register),
BX, BXJ, CBZ / CBNZ, TBB / TBH; encodings A1 / A2, T1..T4).  Transcribed from the manual's encoding diagrams and operation
pseudocode (BranchWritePC / BXWritePC of A2.3.1 live in ref.state.St); shares no code with /repo.

Field letters: c cond | i the immediate bits in encoding order (all occurrences concatenated MSB first: imm6:imm11 for T3,
imm10:imm11 for T4 / BL T1, imm10H:imm10L for BLX T2, i:imm5 for CBZ) | S sign | J = J1, K = J2 | H | m n registers | o op.

Conventions
* `target_instr_set` is carried as the string "ARM" / "THUMB" (enumerations are strings throughout the row modules);
* every row evaluates its own condition: the cond field for the ARM rows and for B T1 / T3, ITSTATE<7:4> for the other
  Thumb rows when they are (last) in an IT block, else always - a failed condition makes the instruction a NOP;
* EXISTS_FROM[cls] is the first architecture version the encoding exists in (liberal: before ARMv6T2 the two halves of
  BL / BLX are separate 16-bit instructions, which behave like the 32-bit encoding only with J1 = J2 = 1);
* BXJ: with JMCR.JE = 0 (Jazelle not implemented / disabled: the only situation the model takes a position on) it is BX."""
from . import bv
from .enc import Row, A32, T16, T32
from .state import Unpredictable, ModelStop, HYP

G = "branch"
M32 = bv.M32
ARM, THUMB = "ARM", "THUMB"

EXISTS_FROM = {
    "BA1": 4, "BlBlxImmediateA1": 4, "BlBlxImmediateA2": 5, "BlxRegisterA1": 5, "BxA1": 4, "BxjA1": 6,
    "BT1": 4, "BT2": 4, "BT3": 6, "BT4": 6, "BlBlxImmediateT1": 4, "BlBlxImmediateT2": 5, "BlxRegisterT1": 5, "BxT1": 4,
    "BxjT1": 6, "CbzT1": 6, "TbbTbhT1": 6,
}


# ------------------------------------------------------------------------------------------------- immediates
def sx(value, width):
    """SignExtend(value<width-1:0>, 32)."""
    return bv.sign_extend(value, width, 32)


def imm_a(f):
    """B / BL A1: SignExtend(imm24:'00', 32)."""
    return sx(f["i"] << 2, 26)


def imm_blx_a2(f):
    """BLX A2: SignExtend(imm24:H:'0', 32)."""
    return sx((f["i"] << 2) | (f["H"] << 1), 26)


def imm_t1(f):
    return sx(f["i"] << 1, 9)


def imm_t2(f):
    return sx(f["i"] << 1, 12)


def imm_t3(f):
    """S:J2:J1:imm6:imm11:'0' (21 bits); f['i'] = imm6:imm11."""
    return sx((f["S"] << 20) | (f["K"] << 19) | (f["J"] << 18) | (f["i"] << 1), 21)


def i1i2(f):
    s = f["S"]
    return (~(f["J"] ^ s)) & 1, (~(f["K"] ^ s)) & 1


def imm_t4(f):
    """S:I1:I2:imm10:imm11:'0' (25 bits); f['i'] = imm10:imm11."""
    i1, i2 = i1i2(f)
    return sx((f["S"] << 24) | (i1 << 23) | (i2 << 22) | (f["i"] << 1), 25)


def imm_blx_t2(f):
    """S:I1:I2:imm10H:imm10L:'00' (25 bits); f['i'] = imm10H:imm10L."""
    i1, i2 = i1i2(f)
    return sx((f["S"] << 24) | (i1 << 23) | (i2 << 22) | (f["i"] << 2), 25)


# ------------------------------------------------------------------------------------------------- semantics
def condition(st, f, own):
    """Condition code in force for this instruction (A8.3.1 CurrentCond())."""
    if own or not st.thumb():
        return f.get("c", 0xE)
    if st.in_it_block():
        return st.IT >> 4
    return 0xE


def conditional(sem, own=False):
    def wrapped(st, o, f):
        cond = condition(st, f, own)
        if cond == 0xF or bv.cond_holds(cond, st.N, st.Z, st.C, st.V):
            sem(st, o, f)
    return wrapped


def select_instr_set(st, iset):
    st.J = 0
    st.T = 1 if iset == THUMB else 0


def sem_b(st, o, f):
    st.branch_write_pc((st.R(15) + o["imm32"]) & M32)


def sem_bl_imm(st, o, f):
    pc = st.R(15)
    if st.thumb():
        lr = (pc & ~1 & M32) | 1                       # PC<31:1> : '1'
    else:
        lr = (pc - 4) & M32
    if o["target_instr_set"] == ARM:
        target = (bv.align(pc, 4) + o["imm32"]) & M32
    else:
        target = (pc + o["imm32"]) & M32
    st.setR(14, lr)
    select_instr_set(st, o["target_instr_set"])
    st.branch_write_pc(target)


def sem_blx_t2(st, o, f):
    if f["H"] == 1:
        raise ModelStop("undef")
    sem_bl_imm(st, o, f)


def sem_blx_reg(st, o, f):
    target = st.R(o["m"])
    pc = st.R(15)
    if st.thumb():
        lr = ((pc - 2) & M32 & ~1) | 1                 # (PC - 2)<31:1> : '1'
    else:
        lr = (pc - 4) & M32
    st.setR(14, lr)
    st.bx_write_pc(target)


def sem_bx(st, o, f):
    st.bx_write_pc(st.R(o["m"]))


def sem_bxj(st, o, f):
    if st.cfg.get("have_virt_ext") and not st.secure() and st.M != HYP and bv.bit(st.loc.get("hstr", 0), 17):
        raise Unpredictable("BXJ trapped to Hyp mode (HSTR.TJDBX): not modelled")
    if st.loc.get("jmcr", 0) & 1:
        raise Unpredictable("JMCR.JE = 1: SUBARCHITECTURE DEFINED")
    st.bx_write_pc(st.R(o["m"]))


def sem_cbz(st, o, f):
    if o["nonzero"] != (st.R(o["n"]) == 0):
        st.branch_write_pc((st.R(15) + o["imm32"]) & M32)


def sem_tbb(st, o, f):
    base = st.R(o["n"])
    if o["is_tbh"]:
        halfwords = st.mem_u_get((base + ((st.R(o["m"]) << 1) & M32)) & M32, 2)
    else:
        halfwords = st.mem_u_get((base + st.R(o["m"])) & M32, 1)
    st.branch_write_pc((st.R(15) + 2 * halfwords) & M32)


# ------------------------------------------------------------------------------------------------- predicates
def mid_it(c):
    return c["in_it"] and not c["last_it"]


def too_old(cls):
    v = EXISTS_FROM[cls]
    return lambda c: c["ver"] < v


def unp(cls, pred=None, it="mid"):
    """UNPREDICTABLE predicate: version floor + IT-block rule ('mid' = only as last instruction, 'any' = never
    inside, None = ARM) + an encoding-specific predicate."""
    old = too_old(cls)

    def u(f, c):
        if old(c):
            return True
        if it == "mid" and mid_it(c):
            return True
        if it == "any" and c["in_it"]:
            return True
        return bool(pred(f, c)) if pred else False
    return u


def split_halves(f, c):
    """Before ARMv6T2 (taken as arch_version < 6) BL / BLX are two 16-bit instructions whose second half has
    bits<13,11> = '11': only J1 = J2 = 1 behaves like the 32-bit encoding."""
    return c["ver"] < 6 and not (f["J"] == 1 and f["K"] == 1)


def T(x):
    return bool(x)


# ------------------------------------------------------------------------------------------------- rows
def arm_rows():
    R = []
    notnv = lambda f: f["c"] != 15
    R.append(Row("BA1", A32, "cccc1010iiiiiiiiiiiiiiiiiiiiiiii", guard=notnv,
                 operands=lambda f, c: {"imm32": imm_a(f)}, unpredictable=unp("BA1", it=None),
                 sem=conditional(sem_b), group=G))
    R.append(Row("BlBlxImmediateA1", A32, "cccc1011iiiiiiiiiiiiiiiiiiiiiiii", guard=notnv,
                 operands=lambda f, c: {"imm32": imm_a(f), "target_instr_set": ARM},
                 unpredictable=unp("BlBlxImmediateA1", it=None), sem=conditional(sem_bl_imm), group=G))
    R.append(Row("BlBlxImmediateA2", A32, "1111101Hiiiiiiiiiiiiiiiiiiiiiiii",
                 operands=lambda f, c: {"imm32": imm_blx_a2(f), "target_instr_set": THUMB},
                 unpredictable=unp("BlBlxImmediateA2", it=None), sem=sem_bl_imm, group=G))
    R.append(Row("BxA1", A32, "cccc00010010++++++++++++0001mmmm", guard=notnv,
                 operands=lambda f, c: {"m": f["m"]}, unpredictable=unp("BxA1", it=None),
                 sem=conditional(sem_bx), group=G))
    R.append(Row("BxjA1", A32, "cccc00010010++++++++++++0010mmmm", guard=notnv,
                 operands=lambda f, c: {"m": f["m"]}, unpredictable=unp("BxjA1", lambda f, c: f["m"] == 15, it=None),
                 sem=conditional(sem_bxj), group=G))
    R.append(Row("BlxRegisterA1", A32, "cccc00010010++++++++++++0011mmmm", guard=notnv,
                 operands=lambda f, c: {"m": f["m"]}, unpredictable=unp("BlxRegisterA1", lambda f, c: f["m"] == 15, it=None),
                 sem=conditional(sem_blx_reg), group=G))
    return R


def t16_rows():
    R = []
    R.append(Row("BxT1", T16, "010001110mmmm---", operands=lambda f, c: {"m": f["m"]},
                 unpredictable=unp("BxT1"), sem=conditional(sem_bx), group=G))
    R.append(Row("BlxRegisterT1", T16, "010001111mmmm---", operands=lambda f, c: {"m": f["m"]},
                 unpredictable=unp("BlxRegisterT1", lambda f, c: f["m"] == 15), sem=conditional(sem_blx_reg), group=G))
    R.append(Row("CbzT1", T16, "1011o0i1iiiiinnn",
                 operands=lambda f, c: {"n": f["n"], "imm32": f["i"] << 1, "nonzero": T(f["o"])},
                 unpredictable=unp("CbzT1", it="any"), sem=sem_cbz, group=G))
    # cond = 1110 is UDF (permanently UNDEFINED), cond = 1111 is SVC
    R.append(Row("BT1", T16, "1101cccciiiiiiii", guard=lambda f: f["c"] < 14,
                 operands=lambda f, c: {"imm32": imm_t1(f)}, unpredictable=unp("BT1", it="any"),
                 sem=conditional(sem_b, own=True), group=G))
    R.append(Row("BT2", T16, "11100iiiiiiiiiii", operands=lambda f, c: {"imm32": imm_t2(f)},
                 unpredictable=unp("BT2"), sem=conditional(sem_b), group=G))
    return R


def t32_rows():
    R = []
    # branches and miscellaneous control (A6.3.4): op1 = 0x0 with cond<3:1> = '111' is the MSR / hints / misc space
    R.append(Row("BT3", T32, "11110Scccciiiiii10J0Kiiiiiiiiiii", guard=lambda f: (f["c"] >> 1) != 7,
                 operands=lambda f, c: {"imm32": imm_t3(f)}, unpredictable=unp("BT3", it="any"),
                 sem=conditional(sem_b, own=True), group=G))
    R.append(Row("BT4", T32, "11110Siiiiiiiiii10J1Kiiiiiiiiiii", operands=lambda f, c: {"imm32": imm_t4(f)},
                 unpredictable=unp("BT4"), sem=conditional(sem_b), group=G))
    R.append(Row("BlBlxImmediateT1", T32, "11110Siiiiiiiiii11J1Kiiiiiiiiiii",
                 operands=lambda f, c: {"imm32": imm_t4(f), "target_instr_set": THUMB},
                 unpredictable=unp("BlBlxImmediateT1", split_halves), sem=conditional(sem_bl_imm), group=G))
    R.append(Row("BlBlxImmediateT2", T32, "11110Siiiiiiiiii11J0KiiiiiiiiiiH",
                 operands=lambda f, c: {"imm32": imm_blx_t2(f), "target_instr_set": ARM},
                 undefined=lambda f, c: f["H"] == 1,
                 unpredictable=unp("BlBlxImmediateT2", split_halves), sem=conditional(sem_blx_t2), group=G))
    R.append(Row("BxjT1", T32, "111100111100mmmm10-0++++--------", operands=lambda f, c: {"m": f["m"]},
                 unpredictable=unp("BxjT1", lambda f, c: f["m"] in (13, 15)), sem=conditional(sem_bxj), group=G))
    R.append(Row("TbbTbhT1", T32, "111010001101nnnn++++----000Hmmmm",
                 operands=lambda f, c: {"n": f["n"], "m": f["m"], "is_tbh": T(f["H"])},
                 unpredictable=unp("TbbTbhT1", lambda f, c: f["n"] == 13 or f["m"] in (13, 15)),
                 sem=conditional(sem_tbb), group=G))
    return R


ROWS = arm_rows() + t16_rows() + t32_rows()
