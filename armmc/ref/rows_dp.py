"""Encoding rows + reference semantics for the data-processing group (ARM ARM A8.8: ADC..TST, shifts, MOV/MVN, ADR,
MOVW/MOVT, ADD/SUB SP forms; encodings A1/A2, T1..T4).  Transcribed from the manual's encoding diagrams and
operation pseudocode.  Operand attribute names are the ones the repository's tests assert on decoded objects."""
from . import bv
from .enc import Row, A32, T16, T32
from .state import Unpredictable

G = "dp"
ARITH = {"ADD", "ADC", "SUB", "SBC", "RSB", "RSC", "CMP", "CMN"}


# ------------------------------------------------------------------------------------------------- semantics
def alu(kind, x, y, c):
    """(result, carry or None (=shifter carry), overflow or None)."""
    nx, ny = x ^ bv.M32, y ^ bv.M32
    if kind in ("ADD", "CMN"):
        return bv.add_with_carry(x, y, 0)
    if kind == "ADC":
        return bv.add_with_carry(x, y, c)
    if kind in ("SUB", "CMP"):
        return bv.add_with_carry(x, ny, 1)
    if kind == "SBC":
        return bv.add_with_carry(x, ny, c)
    if kind == "RSB":
        return bv.add_with_carry(nx, y, 1)
    if kind == "RSC":
        return bv.add_with_carry(nx, y, c)
    if kind in ("AND", "TST"):
        return x & y, None, None
    if kind in ("EOR", "TEQ"):
        return x ^ y, None, None
    if kind == "ORR":
        return x | y, None, None
    if kind == "BIC":
        return x & ny, None, None
    if kind == "ORN":
        return (x | ny) & bv.M32, None, None
    if kind == "MOV":
        return y, None, None
    if kind == "MVN":
        return ny, None, None
    raise KeyError(kind)


def sem_dp(kind, rn=None):
    """rn: fixed first operand register (13 for the SP forms), else ops['n'] (absent for MOV/MVN)."""
    compare = kind in ("TST", "TEQ", "CMP", "CMN")

    def sem(st, o, f):
        c_in = st.C
        if "imm32" in o:
            op2 = o["imm32"]
            sh_carry = o.get("carry", c_in)
        elif "s" in o:
            amount = st.R(o["s"]) & 0xFF
            op2, sh_carry = bv.shift_c(st.R(o["m"]), 32, o["shift_t"], amount, c_in)
        else:
            op2, sh_carry = bv.shift_c(st.R(o["m"]), 32, o.get("shift_t", "LSL"), o.get("shift_n", 0), c_in)
        if kind in ("MOV", "MVN"):
            x = 0
        else:
            x = st.R(rn if rn is not None else o["n"])
        res, carry, ovf = alu(kind, x, op2, c_in)
        if carry is None:
            carry = sh_carry
        if compare:
            st.set_nz(res)
            st.C = carry
            if ovf is not None:
                st.V = ovf
            return
        d = o["d"]
        if d == 15:
            st.alu_write_pc(res)          # setflags is always False here (S=1 forms are SUBS PC, LR rows)
            return
        st.setR(d, res)
        if o.get("setflags"):
            st.set_nz(res)
            st.C = carry
            if ovf is not None:
                st.V = ovf
    return sem


def sem_shift_imm(typ):
    def sem(st, o, f):
        res, carry = bv.shift_c(st.R(o["m"]), 32, typ, o["shift_n"] if typ != "RRX" else 1, st.C)
        d = o["d"]
        if d == 15:
            st.alu_write_pc(res)
            return
        st.setR(d, res)
        if o["setflags"]:
            st.set_nz(res)
            st.C = carry
    return sem


def sem_shift_reg(typ):
    def sem(st, o, f):
        amount = st.R(o["m"]) & 0xFF
        res, carry = bv.shift_c(st.R(o["n"]), 32, typ, amount, st.C)
        st.setR(o["d"], res)
        if o["setflags"]:
            st.set_nz(res)
            st.C = carry
    return sem


def sem_mov_reg(st, o, f):
    res = st.R(o["m"])
    d = o["d"]
    if d == 15:
        st.alu_write_pc(res)
        return
    st.setR(d, res)
    if o["setflags"]:
        st.set_nz(res)


def sem_adr(st, o, f):
    base = bv.align(st.R(15), 4)
    res = (base + o["imm32"]) & bv.M32 if o["add"] else (base - o["imm32"]) & bv.M32
    if o["d"] == 15:
        st.alu_write_pc(res)
    else:
        st.setR(o["d"], res)


def sem_movt(st, o, f):
    d = o["d"]
    st.setR(d, (st.R(d) & 0xFFFF) | (o["imm16"] << 16))


# ------------------------------------------------------------------------------------------------- operand helpers
def T(x):
    return bool(x)


def imm_shift(f):
    t, n = bv.decode_imm_shift(f["t"], f["i"])
    return {"shift_t": t, "shift_n": n}


def arm_imm(f, ctx, with_carry):
    v, c = bv.arm_expand_imm_c(f["i"], ctx["C"])
    o = {"imm32": v}
    if with_carry:
        o["carry"] = c
    return o


def thumb_imm(f, ctx, with_carry):
    v, c, unp = bv.thumb_expand_imm_c(f["i"], ctx["C"])
    o = {"imm32": v}
    if with_carry:
        o["carry"] = c
    return o


def thumb_imm_unp(f):
    return bv.thumb_expand_imm_c(f["i"], 0)[2]


def badreg(*r):
    return any(x in (13, 15) for x in r)


ROWS = []
A_OPC = {0b0000: "AND", 0b0001: "EOR", 0b0010: "SUB", 0b0011: "RSB", 0b0100: "ADD", 0b0101: "ADC", 0b0110: "SBC",
         0b0111: "RSC", 0b1100: "ORR", 0b1110: "BIC"}
CLSNAME = {"AND": "And", "EOR": "Eor", "SUB": "Sub", "RSB": "Rsb", "ADD": "Add", "ADC": "Adc", "SBC": "Sbc",
           "RSC": "Rsc", "ORR": "Orr", "BIC": "Bic", "TST": "Tst", "TEQ": "Teq", "CMP": "Cmp", "CMN": "Cmn",
           "MOV": "Mov", "MVN": "Mvn", "ORN": "Orn"}
LOGICAL = {"AND", "EOR", "ORR", "BIC", "TST", "TEQ", "MOV", "MVN", "ORN"}


def b4(x):
    return format(x, "04b")


def arm_rows():
    R = []
    # ---- special cases carved out of ADD/SUB (listed first)
    # ADR A1 / A2: ADD/SUB immediate with Rn = PC, S = 0
    R.append(Row("AdrA1", A32, "cccc001010001111ddddiiiiiiiiiiii",
                 operands=lambda f, c: {"d": f["d"], "add": True, "imm32": bv.arm_expand_imm_c(f["i"], 0)[0]},
                 sem=sem_adr, group=G))
    R.append(Row("AdrA2", A32, "cccc001001001111ddddiiiiiiiiiiii",
                 operands=lambda f, c: {"d": f["d"], "add": False, "imm32": bv.arm_expand_imm_c(f["i"], 0)[0]},
                 sem=sem_adr, group=G))
    # ADD/SUB (SP plus/minus immediate) A1, (SP plus/minus register) A1: Rn = SP
    for kind, opc, cls_i, cls_r in (("ADD", "0100", "AddSpPlusImmediateA1", "AddSpPlusRegisterArmA1"),
                                    ("SUB", "0010", "SubSpMinusImmediateA1", "SubSpMinusRegisterA1")):
        R.append(Row(cls_i, A32, "cccc001%sS1101ddddiiiiiiiiiiii" % opc,
                     guard=lambda f: not (f["d"] == 15 and f["S"] == 1),
                     operands=lambda f, c: dict(d=f["d"], setflags=T(f["S"]), **arm_imm(f, c, False)),
                     sem=sem_dp(kind, 13), group=G))
        R.append(Row(cls_r, A32, "cccc000%sS1101ddddiiiiitt0mmmm" % opc,
                     guard=lambda f: not (f["d"] == 15 and f["S"] == 1),
                     operands=lambda f, c: dict(d=f["d"], m=f["m"], setflags=T(f["S"]), **imm_shift(f)),
                     unpredictable=(lambda f, c: f["d"] == 13 and f["m"] == 15) if kind == "SUB" else None,
                     sem=sem_dp(kind, 13), group=G))
    # ---- the ten three-operand opcodes
    for opc, kind in A_OPC.items():
        cn = CLSNAME[kind]
        wc = kind in LOGICAL
        suffix_i = {"ADD": "AddImmediateArmA1", "SUB": "SubImmediateArmA1"}.get(kind, cn + "ImmediateA1")
        suffix_r = {"ADD": "AddRegisterArmA1"}.get(kind, cn + "RegisterA1")
        notsubs = (lambda f: not (f["d"] == 15 and f["S"] == 1))
        # ADDS/SUBS Rd, PC, #imm: the instruction page reads it as ADD/SUB (immediate), the decode table A5-4 as ADR
        # for both values of S.  The manual being ambiguous, the model takes no position (instance not generated).
        amb = (lambda f, c: f["n"] == 15) if kind in ("ADD", "SUB") else None
        R.append(Row(suffix_i, A32, "cccc001%sSnnnnddddiiiiiiiiiiii" % b4(opc), guard=notsubs,
                     operands=(lambda wc: lambda f, c: dict(d=f["d"], n=f["n"], setflags=T(f["S"]), **arm_imm(f, c, wc)))(wc),
                     unpredictable=amb, alt=("AdrA1", "AdrA2") if amb else (), sem=sem_dp(kind), group=G))
        R.append(Row(suffix_r, A32, "cccc000%sSnnnnddddiiiiitt0mmmm" % b4(opc), guard=notsubs,
                     operands=lambda f, c: dict(d=f["d"], n=f["n"], m=f["m"], setflags=T(f["S"]), **imm_shift(f)),
                     sem=sem_dp(kind), group=G))
        R.append(Row(cn + "RegisterShiftedRegisterA1", A32, "cccc000%sSnnnnddddssss0tt1mmmm" % b4(opc),
                     operands=lambda f, c: dict(d=f["d"], n=f["n"], m=f["m"], s=f["s"], setflags=T(f["S"]),
                                                shift_t=bv.decode_reg_shift(f["t"])),
                     unpredictable=lambda f, c: 15 in (f["d"], f["n"], f["m"], f["s"]),
                     sem=sem_dp(kind), group=G))
    # ---- compares (S = 1, Rd field should be zero)
    for opc, kind in ((0b1000, "TST"), (0b1001, "TEQ"), (0b1010, "CMP"), (0b1011, "CMN")):
        cn = CLSNAME[kind]
        wc = kind in LOGICAL
        R.append(Row(cn + "ImmediateA1", A32, "cccc001%s1nnnn----iiiiiiiiiiii" % b4(opc),
                     operands=(lambda wc: lambda f, c: dict(n=f["n"], **arm_imm(f, c, wc)))(wc), sem=sem_dp(kind), group=G))
        R.append(Row(cn + "RegisterA1", A32, "cccc000%s1nnnn----iiiiitt0mmmm" % b4(opc),
                     operands=lambda f, c: dict(n=f["n"], m=f["m"], **imm_shift(f)), sem=sem_dp(kind), group=G))
        R.append(Row(cn + "RegisterShiftedRegisterA1", A32, "cccc000%s1nnnn----ssss0tt1mmmm" % b4(opc),
                     operands=lambda f, c: dict(n=f["n"], m=f["m"], s=f["s"], shift_t=bv.decode_reg_shift(f["t"])),
                     unpredictable=lambda f, c: 15 in (f["n"], f["m"], f["s"]), sem=sem_dp(kind), group=G))
    # ---- MOV / MVN / shifts (opcode 1101 / 1111, Rn field should be zero)
    notsubs = (lambda f: not (f["d"] == 15 and f["S"] == 1))
    R.append(Row("MovImmediateA1", A32, "cccc0011101S----ddddiiiiiiiiiiii", guard=notsubs,
                 operands=lambda f, c: dict(d=f["d"], setflags=T(f["S"]), **arm_imm(f, c, True)), sem=sem_dp("MOV"), group=G))
    R.append(Row("MovImmediateA2", A32, "cccc00110000iiiiddddjjjjjjjjjjjj",
                 operands=lambda f, c: dict(d=f["d"], setflags=False, imm32=(f["i"] << 12) | f["j"]),
                 unpredictable=lambda f, c: f["d"] == 15, sem=sem_dp("MOV"), group=G))
    R.append(Row("MovtA1", A32, "cccc00110100iiiiddddjjjjjjjjjjjj",
                 operands=lambda f, c: dict(d=f["d"], imm16=(f["i"] << 12) | f["j"]),
                 unpredictable=lambda f, c: f["d"] == 15, sem=sem_movt, group=G))
    R.append(Row("MvnImmediateA1", A32, "cccc0011111S----ddddiiiiiiiiiiii", guard=notsubs,
                 operands=lambda f, c: dict(d=f["d"], setflags=T(f["S"]), **arm_imm(f, c, True)), sem=sem_dp("MVN"), group=G))
    R.append(Row("MvnRegisterA1", A32, "cccc0001111S----ddddiiiiitt0mmmm", guard=notsubs,
                 operands=lambda f, c: dict(d=f["d"], m=f["m"], setflags=T(f["S"]), **imm_shift(f)), sem=sem_dp("MVN"), group=G))
    R.append(Row("MvnRegisterShiftedRegisterA1", A32, "cccc0001111S----ddddssss0tt1mmmm",
                 operands=lambda f, c: dict(d=f["d"], m=f["m"], s=f["s"], setflags=T(f["S"]),
                                            shift_t=bv.decode_reg_shift(f["t"])),
                 unpredictable=lambda f, c: 15 in (f["d"], f["m"], f["s"]), sem=sem_dp("MVN"), group=G))
    R.append(Row("MovRegisterArmA1", A32, "cccc0001101S----dddd00000000mmmm", guard=notsubs,
                 operands=lambda f, c: dict(d=f["d"], m=f["m"], setflags=T(f["S"])), sem=sem_mov_reg, group=G))
    R.append(Row("RrxA1", A32, "cccc0001101S----dddd00000110mmmm", guard=notsubs,
                 operands=lambda f, c: dict(d=f["d"], m=f["m"], setflags=T(f["S"])), sem=sem_shift_imm("RRX"), group=G))
    for tt, typ in (("00", "LSL"), ("01", "LSR"), ("10", "ASR"), ("11", "ROR")):
        cn = typ.capitalize()
        R.append(Row(cn + "ImmediateA1", A32, "cccc0001101S----ddddiiiii%s0mmmm" % tt, guard=notsubs,
                     operands=(lambda t_: lambda f, c: dict(d=f["d"], m=f["m"], setflags=T(f["S"]),
                                                            shift_n=bv.decode_imm_shift(t_, f["i"])[1]))(int(tt, 2)),
                     sem=sem_shift_imm(typ), group=G))
        R.append(Row(cn + "RegisterA1", A32, "cccc0001101S----ddddmmmm0%s1nnnn" % tt,
                     operands=lambda f, c: dict(d=f["d"], n=f["n"], m=f["m"], setflags=T(f["S"])),
                     unpredictable=lambda f, c: 15 in (f["d"], f["n"], f["m"]), sem=sem_shift_reg(typ), group=G))
    return R


def t16_rows():
    R = []
    sf = (lambda c: not c["in_it"])
    R.append(Row("MovRegisterThumbT2", T16, "0000000000mmmddd",
                 operands=lambda f, c: dict(d=f["d"], m=f["m"], setflags=True),
                 unpredictable=lambda f, c: c["in_it"], sem=sem_mov_reg, group=G))
    for op, typ in (("00", "LSL"), ("01", "LSR"), ("10", "ASR")):
        R.append(Row(typ.capitalize() + "ImmediateT1", T16, "000%siiiiimmmddd" % op,
                     operands=(lambda t_: lambda f, c: dict(d=f["d"], m=f["m"], setflags=sf(c),
                                                            shift_n=bv.decode_imm_shift(t_, f["i"])[1]))(int(op, 2)),
                     sem=sem_shift_imm(typ), group=G))
    lsl0 = {"shift_t": "LSL", "shift_n": 0}
    R.append(Row("AddRegisterThumbT1", T16, "0001100mmmnnnddd",
                 operands=lambda f, c: dict(d=f["d"], n=f["n"], m=f["m"], setflags=sf(c), **lsl0), sem=sem_dp("ADD"), group=G))
    R.append(Row("SubRegisterT1", T16, "0001101mmmnnnddd",
                 operands=lambda f, c: dict(d=f["d"], n=f["n"], m=f["m"], setflags=sf(c), **lsl0), sem=sem_dp("SUB"), group=G))
    R.append(Row("AddImmediateThumbT1", T16, "0001110iiinnnddd",
                 operands=lambda f, c: dict(d=f["d"], n=f["n"], setflags=sf(c), imm32=f["i"]), sem=sem_dp("ADD"), group=G))
    R.append(Row("SubImmediateThumbT1", T16, "0001111iiinnnddd",
                 operands=lambda f, c: dict(d=f["d"], n=f["n"], setflags=sf(c), imm32=f["i"]), sem=sem_dp("SUB"), group=G))
    R.append(Row("MovImmediateT1", T16, "00100dddiiiiiiii",
                 operands=lambda f, c: dict(d=f["d"], setflags=sf(c), imm32=f["i"], carry=c["C"]), sem=sem_dp("MOV"), group=G))
    R.append(Row("CmpImmediateT1", T16, "00101nnniiiiiiii",
                 operands=lambda f, c: dict(n=f["n"], imm32=f["i"]), sem=sem_dp("CMP"), group=G))
    R.append(Row("AddImmediateThumbT2", T16, "00110dddiiiiiiii",
                 operands=lambda f, c: dict(d=f["d"], n=f["d"], setflags=sf(c), imm32=f["i"]), sem=sem_dp("ADD"), group=G))
    R.append(Row("SubImmediateThumbT2", T16, "00111dddiiiiiiii",
                 operands=lambda f, c: dict(d=f["d"], n=f["d"], setflags=sf(c), imm32=f["i"]), sem=sem_dp("SUB"), group=G))
    # data processing 010000 oooo
    for opc, kind, cls in ((0b0000, "AND", "AndRegisterT1"), (0b0001, "EOR", "EorRegisterT1"), (0b0101, "ADC", "AdcRegisterT1"),
                           (0b0110, "SBC", "SbcRegisterT1"), (0b1100, "ORR", "OrrRegisterT1"), (0b1110, "BIC", "BicRegisterT1")):
        R.append(Row(cls, T16, "010000%smmmddd" % b4(opc),
                     operands=lambda f, c: dict(d=f["d"], n=f["d"], m=f["m"], setflags=sf(c), **lsl0), sem=sem_dp(kind), group=G))
    for opc, typ in ((0b0010, "LSL"), (0b0011, "LSR"), (0b0100, "ASR"), (0b0111, "ROR")):
        R.append(Row(typ.capitalize() + "RegisterT1", T16, "010000%smmmddd" % b4(opc),
                     operands=lambda f, c: dict(d=f["d"], n=f["d"], m=f["m"], setflags=sf(c)), sem=sem_shift_reg(typ), group=G))
    R.append(Row("TstRegisterT1", T16, "0100001000mmmnnn", operands=lambda f, c: dict(n=f["n"], m=f["m"], **lsl0),
                 sem=sem_dp("TST"), group=G))
    R.append(Row("RsbImmediateT1", T16, "0100001001nnnddd",
                 operands=lambda f, c: dict(d=f["d"], n=f["n"], setflags=sf(c), imm32=0), sem=sem_dp("RSB"), group=G))
    R.append(Row("CmpRegisterT1", T16, "0100001010mmmnnn", operands=lambda f, c: dict(n=f["n"], m=f["m"], **lsl0),
                 sem=sem_dp("CMP"), group=G))
    R.append(Row("CmnRegisterT1", T16, "0100001011mmmnnn", operands=lambda f, c: dict(n=f["n"], m=f["m"], **lsl0),
                 sem=sem_dp("CMN"), group=G))
    R.append(Row("MvnRegisterT1", T16, "0100001111mmmddd",
                 operands=lambda f, c: dict(d=f["d"], m=f["m"], setflags=sf(c), **lsl0), sem=sem_dp("MVN"), group=G))
    # special data instructions 010001 oo
    R.append(Row("AddSpPlusRegisterThumbT1", T16, "01000100D1101ddd",
                 operands=lambda f, c: dict(d=(f["D"] << 3) | f["d"], m=(f["D"] << 3) | f["d"], setflags=False, **lsl0),
                 unpredictable=lambda f, c: ((f["D"] << 3) | f["d"]) == 15 and c["in_it"] and not c["last_it"],
                 sem=sem_dp("ADD", 13), group=G))
    R.append(Row("AddSpPlusRegisterThumbT2", T16, "010001001mmmm101",
                 operands=lambda f, c: dict(d=13, m=f["m"], setflags=False, **lsl0), sem=sem_dp("ADD", 13), group=G))
    R.append(Row("AddRegisterThumbT2", T16, "01000100Dmmmmddd",
                 operands=lambda f, c: dict(d=(f["D"] << 3) | f["d"], n=(f["D"] << 3) | f["d"], m=f["m"], setflags=False, **lsl0),
                 unpredictable=lambda f, c: (((f["D"] << 3) | f["d"]) == 15 and (f["m"] == 15 or (c["in_it"] and not c["last_it"]))),
                 sem=sem_dp("ADD"), group=G))
    R.append(Row("CmpRegisterT2", T16, "01000101Nmmmmnnn",
                 operands=lambda f, c: dict(n=(f["N"] << 3) | f["n"], m=f["m"], **lsl0),
                 unpredictable=lambda f, c: (f["N"] == 0 and f["m"] < 8) or ((f["N"] << 3) | f["n"]) == 15 or f["m"] == 15,
                 sem=sem_dp("CMP"), group=G))
    R.append(Row("MovRegisterThumbT1", T16, "01000110Dmmmmddd",
                 operands=lambda f, c: dict(d=(f["D"] << 3) | f["d"], m=f["m"], setflags=False),
                 unpredictable=lambda f, c: (((f["D"] << 3) | f["d"]) == 15 and c["in_it"] and not c["last_it"]) or
                                            (c["ver"] < 6 and f["D"] == 0 and f["m"] < 8),
                 sem=sem_mov_reg, group=G))
    R.append(Row("AdrT1", T16, "10100dddiiiiiiii", operands=lambda f, c: dict(d=f["d"], add=True, imm32=f["i"] << 2),
                 sem=sem_adr, group=G))
    R.append(Row("AddSpPlusImmediateT1", T16, "10101dddiiiiiiii",
                 operands=lambda f, c: dict(d=f["d"], setflags=False, imm32=f["i"] << 2), sem=sem_dp("ADD", 13), group=G))
    R.append(Row("AddSpPlusImmediateT2", T16, "101100000iiiiiii",
                 operands=lambda f, c: dict(d=13, setflags=False, imm32=f["i"] << 2), sem=sem_dp("ADD", 13), group=G))
    R.append(Row("SubSpMinusImmediateT1", T16, "101100001iiiiiii",
                 operands=lambda f, c: dict(d=13, setflags=False, imm32=f["i"] << 2), sem=sem_dp("SUB", 13), group=G))
    return R


def t32_rows():
    R = []
    mi = "11110i0%sSnnnn0iiiddddiiiiiiii"          # modified immediate

    def tsh(f):
        t, n = bv.decode_imm_shift(f["t"], f["i"])
        return {"shift_t": t, "shift_n": n}

    # ---- modified immediate: compares / moves first (Rd = 1111 with S = 1, Rn = 1111), then SP forms, then general
    for opc, kind, cls in (("0000", "TST", "TstImmediateT1"), ("0100", "TEQ", "TeqImmediateT1"),
                           ("1000", "CMN", "CmnImmediateT1"), ("1101", "CMP", "CmpImmediateT2")):
        wc = kind in LOGICAL
        R.append(Row(cls, T32, ("11110i0%s1nnnn0iii1111iiiiiiii" % opc),
                     operands=(lambda wc: lambda f, c: dict(n=f["n"], **thumb_imm(f, c, wc)))(wc),
                     unpredictable=(lambda k: lambda f, c: f["n"] == 15 or (f["n"] == 13 and k in ("TST", "TEQ")) or
                                    thumb_imm_unp(f))(kind),
                     sem=sem_dp(kind), group=G))
    R.append(Row("MovImmediateT2", T32, "11110i00010S11110iiiddddiiiiiiii",
                 operands=lambda f, c: dict(d=f["d"], setflags=T(f["S"]), **thumb_imm(f, c, True)),
                 unpredictable=lambda f, c: badreg(f["d"]) or thumb_imm_unp(f), sem=sem_dp("MOV"), group=G))
    R.append(Row("MvnImmediateT1", T32, "11110i00011S11110iiiddddiiiiiiii",
                 operands=lambda f, c: dict(d=f["d"], setflags=T(f["S"]), **thumb_imm(f, c, True)),
                 unpredictable=lambda f, c: badreg(f["d"]) or thumb_imm_unp(f), sem=sem_dp("MVN"), group=G))
    R.append(Row("AddSpPlusImmediateT3", T32, "11110i01000S11010iiiddddiiiiiiii",
                 operands=lambda f, c: dict(d=f["d"], setflags=T(f["S"]), **thumb_imm(f, c, False)),
                 unpredictable=lambda f, c: (f["d"] == 15 and f["S"] == 0) or thumb_imm_unp(f), sem=sem_dp("ADD", 13), group=G))
    R.append(Row("SubSpMinusImmediateT2", T32, "11110i01101S11010iiiddddiiiiiiii",
                 operands=lambda f, c: dict(d=f["d"], setflags=T(f["S"]), **thumb_imm(f, c, False)),
                 unpredictable=lambda f, c: (f["d"] == 15 and f["S"] == 0) or thumb_imm_unp(f), sem=sem_dp("SUB", 13), group=G))
    for opc, kind, cls in (("0000", "AND", "AndImmediateT1"), ("0001", "BIC", "BicImmediateT1"), ("0010", "ORR", "OrrImmediateT1"),
                           ("0011", "ORN", "OrnImmediateT1"), ("0100", "EOR", "EorImmediateT1"), ("1000", "ADD", "AddImmediateThumbT3"),
                           ("1010", "ADC", "AdcImmediateT1"), ("1011", "SBC", "SbcImmediateT1"), ("1101", "SUB", "SubImmediateThumbT3"),
                           ("1110", "RSB", "RsbImmediateT2")):
        wc = kind in LOGICAL
        R.append(Row(cls, T32, mi % opc,
                     operands=(lambda wc: lambda f, c: dict(d=f["d"], n=f["n"], setflags=T(f["S"]), **thumb_imm(f, c, wc)))(wc),
                     unpredictable=(lambda kind: lambda f, c: f["d"] == 13 or (f["d"] == 15) or
                                    (f["n"] == 15) or (f["n"] == 13 and kind not in ("ADD", "SUB")) or thumb_imm_unp(f))(kind),
                     sem=sem_dp(kind), group=G))
    # ---- plain binary immediate
    def imm12(f):
        return f["i"]
    R.append(Row("AdrT3", T32, "11110i10000011110iiiddddiiiiiiii",
                 operands=lambda f, c: dict(d=f["d"], add=True, imm32=f["i"]), unpredictable=lambda f, c: badreg(f["d"]),
                 sem=sem_adr, group=G))
    R.append(Row("AdrT2", T32, "11110i10101011110iiiddddiiiiiiii",
                 operands=lambda f, c: dict(d=f["d"], add=False, imm32=f["i"]), unpredictable=lambda f, c: badreg(f["d"]),
                 sem=sem_adr, group=G))
    R.append(Row("AddSpPlusImmediateT4", T32, "11110i10000011010iiiddddiiiiiiii",
                 operands=lambda f, c: dict(d=f["d"], setflags=False, imm32=f["i"]), unpredictable=lambda f, c: f["d"] == 15,
                 sem=sem_dp("ADD", 13), group=G))
    R.append(Row("SubSpMinusImmediateT3", T32, "11110i10101011010iiiddddiiiiiiii",
                 operands=lambda f, c: dict(d=f["d"], setflags=False, imm32=f["i"]), unpredictable=lambda f, c: f["d"] == 15,
                 sem=sem_dp("SUB", 13), group=G))
    R.append(Row("AddImmediateThumbT4", T32, "11110i100000nnnn0iiiddddiiiiiiii",
                 operands=lambda f, c: dict(d=f["d"], n=f["n"], setflags=False, imm32=f["i"]),
                 unpredictable=lambda f, c: badreg(f["d"]), sem=sem_dp("ADD"), group=G))
    R.append(Row("SubImmediateThumbT4", T32, "11110i101010nnnn0iiiddddiiiiiiii",
                 operands=lambda f, c: dict(d=f["d"], n=f["n"], setflags=False, imm32=f["i"]),
                 unpredictable=lambda f, c: badreg(f["d"]), sem=sem_dp("SUB"), group=G))
    R.append(Row("MovImmediateT3", T32, "11110i100100jjjj0iiiddddiiiiiiii",
                 operands=lambda f, c: dict(d=f["d"], setflags=False, imm32=(f["j"] << 12) | f["i"]),
                 unpredictable=lambda f, c: badreg(f["d"]), sem=sem_dp("MOV"), group=G))
    R.append(Row("MovtT1", T32, "11110i101100jjjj0iiiddddiiiiiiii",
                 operands=lambda f, c: dict(d=f["d"], imm16=(f["j"] << 12) | f["i"]),
                 unpredictable=lambda f, c: badreg(f["d"]), sem=sem_movt, group=G))
    # ---- shifted register: compares, moves/shifts (Rn = 1111), SP forms, general
    for opc, kind, cls in (("0000", "TST", "TstRegisterT2"), ("0100", "TEQ", "TeqRegisterT1"), ("1000", "CMN", "CmnRegisterT2"),
                           ("1101", "CMP", "CmpRegisterT3")):
        R.append(Row(cls, T32, "1110101%s1nnnn-iii1111iittmmmm" % opc,
                     operands=lambda f, c: dict(n=f["n"], m=f["m"], **tsh(f)),
                     unpredictable=(lambda k: lambda f, c: f["n"] == 15 or badreg(f["m"]) or
                                    (f["n"] == 13 and k in ("TST", "TEQ")))(kind), sem=sem_dp(kind), group=G))
    R.append(Row("MovRegisterThumbT3", T32, "11101010010S1111-000dddd0000mmmm",
                 operands=lambda f, c: dict(d=f["d"], m=f["m"], setflags=T(f["S"])),
                 unpredictable=lambda f, c: badreg(f["d"]) or badreg(f["m"]), sem=sem_mov_reg, group=G))
    R.append(Row("RrxT1", T32, "11101010010S1111-000dddd0011mmmm",
                 operands=lambda f, c: dict(d=f["d"], m=f["m"], setflags=T(f["S"])),
                 unpredictable=lambda f, c: badreg(f["d"], f["m"]), sem=sem_shift_imm("RRX"), group=G))
    for tt, typ, cls in (("00", "LSL", "LslImmediateT2"), ("01", "LSR", "LsrImmediateT2"), ("10", "ASR", "AsrImmediateT2"),
                         ("11", "ROR", "RorImmediateT1")):
        R.append(Row(cls, T32, "11101010010S1111-iiiddddii%smmmm" % tt,
                     operands=(lambda t_: lambda f, c: dict(d=f["d"], m=f["m"], setflags=T(f["S"]),
                                                            shift_n=bv.decode_imm_shift(t_, f["i"])[1]))(int(tt, 2)),
                     unpredictable=lambda f, c: badreg(f["d"], f["m"]), sem=sem_shift_imm(typ), group=G))
    R.append(Row("MvnRegisterT2", T32, "11101010011S1111-iiiddddiittmmmm",
                 operands=lambda f, c: dict(d=f["d"], m=f["m"], setflags=T(f["S"]), **tsh(f)),
                 unpredictable=lambda f, c: badreg(f["d"], f["m"]), sem=sem_dp("MVN"), group=G))
    R.append(Row("AddSpPlusRegisterThumbT3", T32, "11101011000S1101-iiiddddiittmmmm",
                 operands=lambda f, c: dict(d=f["d"], m=f["m"], setflags=T(f["S"]), **tsh(f)),
                 unpredictable=lambda f, c: True if (f["d"] == 13 and (f["t"] != 0 or f["i"] > 3)) else
                 (f["d"] == 15 or badreg(f["m"])), sem=sem_dp("ADD", 13), group=G))
    R.append(Row("SubSpMinusRegisterT1", T32, "11101011101S1101-iiiddddiittmmmm",
                 operands=lambda f, c: dict(d=f["d"], m=f["m"], setflags=T(f["S"]), **tsh(f)),
                 unpredictable=lambda f, c: True if (f["d"] == 13 and (f["t"] != 0 or f["i"] > 3)) else
                 (f["d"] == 15 or badreg(f["m"])), sem=sem_dp("SUB", 13), group=G))
    for opc, kind, cls in (("0000", "AND", "AndRegisterT2"), ("0001", "BIC", "BicRegisterT2"), ("0010", "ORR", "OrrRegisterT2"),
                           ("0011", "ORN", "OrnRegisterT1"), ("0100", "EOR", "EorRegisterT2"), ("1000", "ADD", "AddRegisterThumbT3"),
                           ("1010", "ADC", "AdcRegisterT2"), ("1011", "SBC", "SbcRegisterT2"), ("1101", "SUB", "SubRegisterT2"),
                           ("1110", "RSB", "RsbRegisterT1")):
        R.append(Row(cls, T32, "1110101%sSnnnn-iiiddddiittmmmm" % opc,
                     operands=lambda f, c: dict(d=f["d"], n=f["n"], m=f["m"], setflags=T(f["S"]), **tsh(f)),
                     unpredictable=lambda f, c: badreg(f["d"], f["m"]) or f["n"] in (13, 15), sem=sem_dp(kind), group=G))
    # ---- shift by register T2
    for tt, typ in (("00", "LSL"), ("01", "LSR"), ("10", "ASR"), ("11", "ROR")):
        R.append(Row(typ.capitalize() + "RegisterT2", T32, "111110100%sSnnnn1111dddd0000mmmm" % tt,
                     operands=lambda f, c: dict(d=f["d"], n=f["n"], m=f["m"], setflags=T(f["S"])),
                     unpredictable=lambda f, c: badreg(f["d"], f["n"], f["m"]), sem=sem_shift_reg(typ), group=G))
    return R


ROWS = arm_rows() + t16_rows() + t32_rows()
