"""Reference model of exception entry (ARM ARM B1.8.1-B1.9: ExcVectorBase, EnterMonitorMode, EnterHypMode,
TakeUndefInstrException, TakeSVCException, TakeSMCException, TakeDataAbortException, TakePhysicalIRQException,
TakePhysicalFIQException, TakeHypTrapException, TakeReset) on ref.state.St.  Independent transcription."""
from . import bv
from .state import St, USR, FIQ, IRQ, SVC, MON, ABT, HYP, UND, Unpredictable

M32 = 0xFFFFFFFF


def cfg(st, k):
    return bool(st.cfg.get(k))


def scr(st, bit):
    return bv.bit(st.loc["scr"], bit)


def hcr(st, bit):
    return bv.bit(st.loc["hcr"], bit)


SCR_NS, SCR_IRQ, SCR_FIQ, SCR_EA, SCR_FW, SCR_AW = 0, 1, 2, 3, 4, 5
HCR_TGE, HCR_AMO, HCR_IMO, HCR_FMO = 27, 5, 4, 3


def exc_vector_base(st):
    if st.sctlr(13):
        return 0xFFFF0000
    if cfg(st, "have_security_ext"):
        return st.loc["vbar"]
    return 0


def clear_ns_if_monitor(st):
    if st.M == MON:
        st.loc["scr"] &= ~1


def enter_monitor(st, new_spsr, new_lr, off):
    st.M = MON
    st.set_spsr(new_spsr)
    st.setR(14, new_lr)
    st.J = 0
    st.T = st.sctlr(30)
    st.E = st.sctlr(25)
    st.A = 1
    st.F = 1
    st.I = 1
    st.IT = 0
    st.branch_to(st.loc["mvbar"] + off)


def enter_hyp(st, new_spsr, preferred_return, off):
    st.M = HYP
    st.set_spsr(new_spsr)
    st.loc["elr_hyp"] = preferred_return & M32
    st.J = 0
    st.T = bv.bit(st.loc["hsctlr"], 30)
    st.E = bv.bit(st.loc["hsctlr"], 25)
    if not scr(st, SCR_EA):
        st.A = 1
    if not scr(st, SCR_FIQ):
        st.F = 1
    if not scr(st, SCR_IRQ):
        st.I = 1
    st.IT = 0
    st.branch_to(st.loc["hvbar"] + off)


def _enter(st, mode, new_spsr, new_lr, off, mask_a=False, mask_f=False, vector=None):
    st.M = mode
    st.set_spsr(new_spsr)
    st.setR(14, new_lr)
    st.I = 1
    if mask_f:
        st.F = 1
    if mask_a:
        st.A = 1
    st.IT = 0
    st.J = 0
    st.T = st.sctlr(30)
    st.E = st.sctlr(25)
    st.branch_to(vector if vector is not None else exc_vector_base(st) + off)


def _virt_sec(st):
    return cfg(st, "have_virt_ext") and cfg(st, "have_security_ext")


def take_undef(st):
    pc = st.R(15)
    new_lr = (pc - 2) & M32 if st.T else (pc - 4) & M32
    spsr = st.cpsr
    take_to_hyp = _virt_sec(st) and scr(st, SCR_NS) and st.M == HYP
    route_to_hyp = _virt_sec(st) and not st.secure() and hcr(st, HCR_TGE) and st.M == USR
    pref = (new_lr - (2 if st.T else 4)) & M32
    if take_to_hyp:
        enter_hyp(st, spsr, pref, 4)
    elif route_to_hyp:
        enter_hyp(st, spsr, pref, 20)
    else:
        clear_ns_if_monitor(st)
        _enter(st, UND, spsr, new_lr, 4)


def take_svc(st):
    st.it_advance()
    pc = st.R(15)
    new_lr = (pc - 2) & M32 if st.T else (pc - 4) & M32
    spsr = st.cpsr
    take_to_hyp = _virt_sec(st) and scr(st, SCR_NS) and st.M == HYP
    route_to_hyp = _virt_sec(st) and not st.secure() and hcr(st, HCR_TGE) and st.M == USR
    if take_to_hyp:
        enter_hyp(st, spsr, new_lr, 8)
    elif route_to_hyp:
        enter_hyp(st, spsr, new_lr, 20)
    else:
        clear_ns_if_monitor(st)
        _enter(st, SVC, spsr, new_lr, 8)


def take_smc(st):
    st.it_advance()
    pc = st.R(15)
    new_lr = pc if st.T else (pc - 4) & M32
    spsr = st.cpsr
    clear_ns_if_monitor(st)
    enter_monitor(st, spsr, new_lr, 8)


def mask_a_rule(st):
    return (not cfg(st, "have_security_ext")) or cfg(st, "have_virt_ext") or not scr(st, SCR_NS) or scr(st, SCR_AW)


def mask_f_rule(st):
    return (not cfg(st, "have_security_ext")) or cfg(st, "have_virt_ext") or not scr(st, SCR_NS) or scr(st, SCR_FW)


def take_data_abort(st, alignment=False, second_stage=False):
    """Synchronous, internal aborts only (the emulator's IsExternalAbort/IsAsyncAbort/DebugException are constant
    False mocks)."""
    pc = st.R(15)
    new_lr = (pc + 4) & M32 if st.T else pc
    spsr = st.cpsr
    pref = (new_lr - 8) & M32
    take_to_hyp = _virt_sec(st) and scr(st, SCR_NS) and st.M == HYP
    route_to_hyp = _virt_sec(st) and not st.secure() and (
        second_stage or (st.M == USR and hcr(st, HCR_TGE) and alignment))
    if take_to_hyp:
        enter_hyp(st, spsr, pref, 16)
    elif route_to_hyp:
        enter_hyp(st, spsr, pref, 20)
    else:
        if cfg(st, "have_security_ext"):
            clear_ns_if_monitor(st)
        _enter(st, ABT, spsr, new_lr, 16, mask_a=mask_a_rule(st))


def take_irq(st):
    pc = st.R(15)
    new_lr = pc if st.T else (pc - 4) & M32
    spsr = st.cpsr
    route_to_monitor = cfg(st, "have_security_ext") and scr(st, SCR_IRQ)
    route_to_hyp = (_virt_sec(st) and not scr(st, SCR_IRQ) and hcr(st, HCR_IMO) and not st.secure()) or st.M == HYP
    if route_to_monitor:
        clear_ns_if_monitor(st)
        enter_monitor(st, spsr, new_lr, 24)
    elif route_to_hyp:
        st.unknown.add("hsr")
        enter_hyp(st, spsr, (new_lr - 4) & M32, 24)
    else:
        clear_ns_if_monitor(st)
        vec = st.cfg.get("impdef_irq_vector") if st.sctlr(24) else None
        _enter(st, IRQ, spsr, new_lr, 24, mask_a=mask_a_rule(st), vector=vec)


def take_fiq(st):
    pc = st.R(15)
    new_lr = pc if st.T else (pc - 4) & M32
    spsr = st.cpsr
    route_to_monitor = cfg(st, "have_security_ext") and scr(st, SCR_FIQ)
    route_to_hyp = (_virt_sec(st) and not scr(st, SCR_FIQ) and hcr(st, HCR_FMO) and not st.secure()) or st.M == HYP
    if route_to_monitor:
        clear_ns_if_monitor(st)
        enter_monitor(st, spsr, new_lr, 28)
    elif route_to_hyp:
        st.unknown.add("hsr")
        enter_hyp(st, spsr, (new_lr - 4) & M32, 28)
    else:
        clear_ns_if_monitor(st)
        vec = st.cfg.get("impdef_fiq_vector") if st.sctlr(24) else None
        _enter(st, FIQ, spsr, new_lr, 28, mask_a=mask_a_rule(st), mask_f=mask_f_rule(st), vector=vec)


def take_hyp_trap(st):
    pc = st.R(15)
    pref = (pc - 4) & M32 if st.T else (pc - 8) & M32
    enter_hyp(st, st.cpsr, pref, 20)


# ---- fault status encoding for synchronous internal data aborts (B3.13 / B5.6 DFSR formats)
PMSA_FS = {"alignment": 0b00001, "permission": 0b01101, "background": 0b00000}


def sdfsr_fs(kind, level):
    if kind == "alignment":
        return 0b00001
    if kind == "access_flag":
        return 0b00011 if level == 1 else 0b00110
    base = {"translation": 0b001, "domain": 0b010, "permission": 0b011}[kind]
    return (base << 2) | (bv.bit(level, 1) << 1) | 1


def data_abort_record(st, kind, addr, write, domain=0, level=0):
    """DFAR / DFSR[13:0] written by a synchronous data abort reported in the short-descriptor / PMSA format."""
    vmsa = st.cfg.get("memory_system_architecture") == "VMSA"
    st.loc["dfar"] = addr & M32
    if vmsa:
        fs = sdfsr_fs(kind, level)
        dom_valid = kind == "domain" or (level == 2 and kind in ("translation", "access_flag")) or \
            (not cfg(st, "have_lpae") and kind == "permission")
        v = (int(write) << 11) | (bv.bit(fs, 4) << 10) | ((domain if dom_valid else 0) << 4) | (fs & 0xF)
        if not dom_valid:
            st.dfsr_domain_unknown = True
    else:
        fs = PMSA_FS[kind]
        v = (int(write) << 11) | (bv.bit(fs, 4) << 10) | (fs & 0xF)
    st.loc["dfsr"] = (st.loc["dfsr"] & ~0x3FFF) | v


def take(st, stop):
    """Dispatch for ModelStop raised inside instruction semantics."""
    k = stop.kind
    if k == "undef":
        take_undef(st)
    elif k == "svc":
        take_svc(st)
    elif k == "smc":
        take_smc(st)
    elif k == "hyptrap":
        take_hyp_trap(st)
    elif k == "dabort":
        info = stop.info
        kind = info.get("fault", "alignment" if info.get("alignment") else "permission")
        data_abort_record(st, kind, info["addr"], info["write"], info.get("domain", 0), info.get("level", 0))
        take_data_abort(st, alignment=(kind == "alignment"))
    elif k == "notimpl":
        pass
    else:
        raise KeyError(k)
