"""Reference bit-vector functions transcribed from the ARM ARM (DDI 0406C) pseudocode, A2.2 / A8.4 / A5.2.4 /
A6.3.2.  Masks and shifts only; shares no code with /repo.  Bit-vectors are non-negative ints."""

M32 = 0xFFFFFFFF
LSL, LSR, ASR, ROR, RRX = "LSL", "LSR", "ASR", "ROR", "RRX"


def mask(n):
    return (1 << n) - 1


def bit(x, i):
    return (x >> i) & 1


def bits(x, hi, lo):
    return (x >> lo) & ((1 << (hi - lo + 1)) - 1)


def sint(x, n):
    x &= mask(n)
    return x - (1 << n) if x >> (n - 1) else x


def uint(x, n):
    return x & mask(n)


def sign_extend(x, frm, to):
    x &= mask(frm)
    if x >> (frm - 1):
        x |= mask(to) & ~mask(frm)
    return x


def add_with_carry(x, y, cin, n=32):
    us = uint(x, n) + uint(y, n) + cin
    ss = sint(x, n) + sint(y, n) + cin
    r = us & mask(n)
    return r, int(r != us), int(sint(r, n) != ss)


def lsl_c(x, n, sh):
    assert sh > 0
    ext = uint(x, n) << sh
    return ext & mask(n), (ext >> n) & 1


def lsr_c(x, n, sh):
    assert sh > 0
    x = uint(x, n)
    return x >> sh, (x >> (sh - 1)) & 1


def asr_c(x, n, sh):
    assert sh > 0
    s = sint(x, n)
    return (s >> sh) & mask(n), (s >> (sh - 1)) & 1


def ror_c(x, n, sh):
    assert sh != 0
    m = sh % n
    x = uint(x, n)
    r = ((x >> m) | (x << (n - m))) & mask(n)
    return r, (r >> (n - 1)) & 1


def rrx_c(x, n, cin):
    x = uint(x, n)
    return (cin << (n - 1)) | (x >> 1), x & 1


def shift_c(value, n, typ, amount, cin):
    assert not (typ == RRX and amount != 1)
    if amount == 0:
        return uint(value, n), cin
    if typ == LSL:
        return lsl_c(value, n, amount)
    if typ == LSR:
        return lsr_c(value, n, amount)
    if typ == ASR:
        return asr_c(value, n, amount)
    if typ == ROR:
        return ror_c(value, n, amount)
    return rrx_c(value, n, cin)


def shift(value, n, typ, amount, cin):
    return shift_c(value, n, typ, amount, cin)[0]


def decode_imm_shift(typ, imm5):
    if typ == 0:
        return LSL, imm5
    if typ == 1:
        return LSR, (32 if imm5 == 0 else imm5)
    if typ == 2:
        return ASR, (32 if imm5 == 0 else imm5)
    if imm5 == 0:
        return RRX, 1
    return ROR, imm5


def decode_reg_shift(typ):
    return (LSL, LSR, ASR, ROR)[typ]


def arm_expand_imm_c(imm12, cin):
    return shift_c(imm12 & 0xFF, 32, ROR, 2 * ((imm12 >> 8) & 0xF), cin)


def thumb_expand_imm_c(imm12, cin):
    """Returns (imm32, carry, unpredictable)."""
    if (imm12 >> 10) & 3 == 0:
        b = imm12 & 0xFF
        sel = (imm12 >> 8) & 3
        unp = sel != 0 and b == 0
        if sel == 0:
            v = b
        elif sel == 1:
            v = (b << 16) | b
        elif sel == 2:
            v = (b << 24) | (b << 8)
        else:
            v = (b << 24) | (b << 16) | (b << 8) | b
        return v, cin, unp
    unrot = 0x80 | (imm12 & 0x7F)
    r, c = ror_c(unrot, 32, (imm12 >> 7) & 0x1F)
    return r, c, False


def signed_sat_q(i, n):
    hi = (1 << (n - 1)) - 1
    lo = -(1 << (n - 1))
    if i > hi:
        return hi & mask(n), True
    if i < lo:
        return lo & mask(n), True
    return i & mask(n), False


def unsigned_sat_q(i, n):
    hi = (1 << n) - 1
    if i > hi:
        return hi, True
    if i < 0:
        return 0, True
    return i, False


def bit_count(x):
    c = 0
    while x:
        c += x & 1
        x >>= 1
    return c


def lowest_set_bit(x, n):
    for i in range(n):
        if (x >> i) & 1:
            return i
    return n


def count_leading_zero_bits(x, n=32):
    for i in range(n - 1, -1, -1):
        if (x >> i) & 1:
            return n - 1 - i
    return n


def big_endian_reverse(v, nbytes):
    r = 0
    for i in range(nbytes):
        r = (r << 8) | ((v >> (8 * i)) & 0xFF)
    return r


def align(x, y):
    return x - (x % y)


def cond_holds(cond, n, z, c, v):
    """ConditionPassed() table (A8.3)."""
    base = cond >> 1
    if base == 0:
        r = z == 1
    elif base == 1:
        r = c == 1
    elif base == 2:
        r = n == 1
    elif base == 3:
        r = v == 1
    elif base == 4:
        r = c == 1 and z == 0
    elif base == 5:
        r = n == v
    elif base == 6:
        r = n == v and z == 0
    else:
        r = True
    if cond & 1 and cond != 0xF:
        r = not r
    return r
