"""Encoding rows + reference semantics for the single-register load/store group (ARM ARM A8.8: LDR/LDRB/LDRH/LDRSB/
LDRSH/LDRD, STR/STRB/STRH/STRD in their immediate, literal and register forms, the unprivileged xxxT forms and the
exclusives LDREX*/STREX*; encodings A1/A2, T1..T4).  Transcribed from the manual's encoding diagrams and operation
pseudocode (offset_addr / address / wback; MemU, MemA, MemU_unpriv; LoadWritePC; PCStoreValue).

Conventions
* the xxxT rows carry post_index / register_form instead of index / wback (the attribute names of the repository);
* `st.excl_pass` (set by the check through model_hook) selects which of the two architecturally permitted outcomes of
  a store-exclusive the model predicts: False = monitors fail (status 1, no store), True = status 0 + store;
* SCTLR.U is RAO in ARMv7: UnalignedSupport() is taken as (version >= 7 or SCTLR.U)."""
from . import bv
from .enc import Row, A32, T16, T32
from .state import Unpredictable, ModelStop

G = "ldst"
M32 = bv.M32


# ------------------------------------------------------------------------------------------------- semantics
def unaligned_support(st):
    return st.ver >= 7 or st.sctlr(22) == 1


def is_arm(st):
    return st.T == 0


def addressing(st, o, literal=False):
    """(address, offset_addr or None when there is no write-back)."""
    if literal:
        base = bv.align(st.R(15), 4)
        index, wback = True, False
    else:
        base = st.R(o["n"])
        if "post_index" in o:
            index, wback = (not o["post_index"]), o["post_index"]
        else:
            index, wback = o.get("index", True), o.get("wback", False)
    if "m" in o:
        offset = bv.shift(st.R(o["m"]), 32, o.get("shift_t", "LSL"), o.get("shift_n", 0), st.C)
    else:
        offset = o.get("imm32", 0)
    offset_addr = (base + offset) & M32 if o.get("add", True) else (base - offset) & M32
    address = offset_addr if index else base
    return address, (offset_addr if wback else None)


def sem_load(size, signed=False, literal=False):
    """LDR / LDRB / LDRH / LDRSB / LDRSH (immediate, literal, register) and the unprivileged forms (MemU_unpriv is MemU
    on a flat, unprotected memory)."""
    def sem(st, o, f):
        t = o["t"]
        address, wb = addressing(st, o, literal)
        data = st.mem_u_get(address, size)
        if wb is not None:
            st.setR(o["n"], wb)
        if size == 4:
            if t == 15:
                if address & 3:
                    raise Unpredictable("load to PC from an unaligned address")
                st.load_write_pc(data)
            elif unaligned_support(st) or address & 3 == 0:
                st.setR(t, data)
            elif is_arm(st):
                st.setR(t, bv.ror_c(data, 32, 8 * (address & 3))[0])
            else:
                st.setR_unknown(t)
        elif size == 2:
            if unaligned_support(st) or address & 1 == 0:
                st.setR(t, bv.sign_extend(data, 16, 32) if signed else data)
            else:
                st.setR_unknown(t)
        else:
            st.setR(t, bv.sign_extend(data, 8, 32) if signed else data)
    return sem


def sem_store(size):
    def sem(st, o, f):
        t = o["t"]
        address, wb = addressing(st, o)
        data = st.R(15) if t == 15 else st.R(t)          # PCStoreValue() = address of the instruction + 8
        data &= bv.mask(8 * size)
        known = size == 1 or unaligned_support(st) or address % size == 0
        if size == 4 and is_arm(st):
            known = True
        st.mem_u_set(address, size, data)
        if not known:
            st.mem_unknown_range(bv.align(address, size), size)
        if wb is not None:
            st.setR(o["n"], wb)
    return sem


def dual_alignment(st, address, write):
    """LDRD / STRD: MemA on two words.  Before ARMv7 the doubleword rules of the ARMv6 alignment table differ from
    word MemA in ways the model does not take a position on."""
    A, U = st.sctlr(1), st.sctlr(22)
    if address & 3:
        if st.ver >= 7 or A or U:
            raise ModelStop("dabort", alignment=True, addr=address, write=write)
        raise Unpredictable("legacy unaligned LDRD/STRD")
    if address & 4 and st.ver < 7 and not (U and not A):
        raise Unpredictable("ARMv6 LDRD/STRD not doubleword aligned")


def sem_ldrd(literal=False):
    def sem(st, o, f):
        address, wb = addressing(st, o, literal)
        dual_alignment(st, address, False)
        v1 = st.mem_a_get(address, 4)
        v2 = st.mem_a_get((address + 4) & M32, 4)
        st.setR(o["t"], v1)
        st.setR(o["t2"], v2)
        if wb is not None:
            st.setR(o["n"], wb)
    return sem


def sem_strd(st, o, f):
    address, wb = addressing(st, o)
    dual_alignment(st, address, True)
    v1, v2 = st.R(o["t"]), st.R(o["t2"])
    st.mem_a_set(address, 4, v1)
    st.mem_a_set((address + 4) & M32, 4, v2)
    if wb is not None:
        st.setR(o["n"], wb)


def excl_alignment(st, address, size, write):
    """Exclusives fault on any unaligned address from ARMv7 (and with SCTLR.A or .U before); the legacy ARMv6
    configuration makes them UNPREDICTABLE.  Doubleword before ARMv7 with U=1, A=0: word alignment suffices for MemA
    but ExclusiveMonitorsPass demands size alignment - no position taken."""
    if address % size == 0:
        return
    if st.ver >= 7:
        raise ModelStop("dabort", alignment=True, addr=address, write=write)
    A, U = st.sctlr(1), st.sctlr(22)
    if (A or U) and not (size == 8 and address % 4 == 0):
        raise ModelStop("dabort", alignment=True, addr=address, write=write)
    raise Unpredictable("unaligned exclusive before ARMv7")


def sem_ldrex(size):
    def sem(st, o, f):
        address = (st.R(o["n"]) + o.get("imm32", 0)) & M32
        excl_alignment(st, address, size, False)
        v = st.mem_a_get(address, size)
        if size == 8:
            if st.E:
                st.setR(o["t"], v >> 32)
                st.setR(o["t2"], v & M32)
            else:
                st.setR(o["t"], v & M32)
                st.setR(o["t2"], v >> 32)
        else:
            st.setR(o["t"], v)
    return sem


def sem_strex(size):
    def sem(st, o, f):
        address = (st.R(o["n"]) + o.get("imm32", 0)) & M32
        excl_alignment(st, address, size, True)
        if getattr(st, "excl_pass", False):
            if size == 8:
                lo, hi = st.R(o["t"]), st.R(o["t2"])
                v = ((lo << 32) | hi) if st.E else ((hi << 32) | lo)
            else:
                v = st.R(o["t"]) & bv.mask(8 * size)
            st.mem_a_set(address, size, v)
            st.setR(o["d"], 0)
        else:
            st.setR(o["d"], 1)
    return sem


# ------------------------------------------------------------------------------------------------- operand helpers
def T(x):
    return bool(x)


def badreg(*r):
    return any(x in (13, 15) for x in r)


def puw(f):
    return {"index": f["P"] == 1, "add": f["U"] == 1, "wback": f["P"] == 0 or f["W"] == 1}


def wb(f):
    return f["P"] == 0 or f["W"] == 1


def imm_shift(f):
    t, n = bv.decode_imm_shift(f["s"], f["i"])
    return {"shift_t": t, "shift_n": n}


LSL0 = {"shift_t": "LSL", "shift_n": 0}
SIZE = {"Ldr": 4, "Ldrb": 1, "Ldrh": 2, "Ldrsb": 1, "Ldrsh": 2, "Str": 4, "Strb": 1, "Strh": 2}
SIGNED = {"Ldrsb", "Ldrsh"}


def semof(kind, literal=False):
    if kind.startswith("Ld"):
        return sem_load(SIZE[kind], kind in SIGNED, literal)
    return sem_store(SIZE[kind])


def notcond15(g=None):
    if g is None:
        return lambda f: f["c"] != 15
    return lambda f: f["c"] != 15 and g(f)


# ------------------------------------------------------------------------------------------------- ARM rows
def arm_rows():
    R = []

    def add(cls, pat, operands, sem, unp=None, guard=None):
        R.append(Row(cls, A32, pat, operands=operands, sem=sem, unpredictable=unp, guard=notcond15(guard), group=G))

    lit = lambda f, c: {"t": f["t"], "imm32": f["i"], "add": f["U"] == 1}
    # ---- literal forms (Rn = 1111), listed before everything they are carved out of
    add("LdrLiteralA1", "cccc010+U0-11111ttttiiiiiiiiiiii", lit, semof("Ldr", True))
    add("LdrbLiteralA1", "cccc010+U1-11111ttttiiiiiiiiiiii", lit, semof("Ldrb", True), lambda f, c: f["t"] == 15)
    for cls, op2, kind in (("LdrhLiteralA1", "1011", "Ldrh"), ("LdrsbLiteralA1", "1101", "Ldrsb"),
                           ("LdrshLiteralA1", "1111", "Ldrsh")):
        add(cls, "cccc000+U1-11111ttttiiii%siiii" % op2, lit, semof(kind, True), lambda f, c: f["t"] == 15)
    add("LdrdLiteralA1", "cccc000+U1-01111ttttiiii1101iiii",
        lambda f, c: {"t": f["t"], "t2": f["t"] + 1, "imm32": f["i"], "add": f["U"] == 1}, sem_ldrd(True),
        lambda f, c: f["t"] & 1 == 1 or f["t"] + 1 == 15)

    # ---- unprivileged forms (P = 0, W = 1)
    def t_imm(f, c):
        return {"t": f["t"], "n": f["n"], "post_index": True, "add": f["U"] == 1, "register_form": False, "imm32": f["i"]}

    def t_reg(f, c):
        return dict(t=f["t"], n=f["n"], m=f["m"], post_index=True, add=f["U"] == 1, register_form=True, **imm_shift(f))

    def t_reg0(f, c):
        return dict(t=f["t"], n=f["n"], m=f["m"], post_index=True, add=f["U"] == 1, register_form=True)

    for kind, bl in (("Ldr", "01"), ("Ldrb", "11"), ("Str", "00"), ("Strb", "10")):
        pcok = kind == "Str"
        add(kind + "tA1", "cccc0100U%s1%snnnnttttiiiiiiiiiiii" % (bl[0], bl[1]), t_imm, semof(kind),
            (lambda pcok: lambda f, c: (f["t"] == 15 and not pcok) or f["n"] == 15 or f["n"] == f["t"])(pcok))
        add(kind + "tA2", "cccc0110U%s1%snnnnttttiiiiiss0mmmm" % (bl[0], bl[1]), t_reg, semof(kind),
            (lambda pcok: lambda f, c: (f["t"] == 15 and not pcok) or f["n"] == 15 or f["n"] == f["t"] or f["m"] == 15 or
             (c["ver"] < 6 and f["m"] == f["n"]))(pcok))
    for kind, lbit, op2 in (("Ldrh", "1", "1011"), ("Ldrsb", "1", "1101"), ("Ldrsh", "1", "1111"), ("Strh", "0", "1011")):
        add(kind + "tA1", "cccc0000U11%snnnnttttiiii%siiii" % (lbit, op2), t_imm, semof(kind),
            lambda f, c: f["t"] == 15 or f["n"] == 15 or f["n"] == f["t"])
        add(kind + "tA2", "cccc0000U01%snnnntttt----%smmmm" % (lbit, op2), t_reg0, semof(kind),
            lambda f, c: f["t"] == 15 or f["n"] == 15 or f["n"] == f["t"] or f["m"] == 15)

    # ---- word / unsigned byte, immediate and register offset
    def i_ops(f, c):
        return dict(t=f["t"], n=f["n"], imm32=f["i"], **puw(f))

    def r_ops(f, c):
        return dict(t=f["t"], n=f["n"], m=f["m"], **puw(f), **imm_shift(f))

    def r_ops0(f, c):
        return dict(t=f["t"], n=f["n"], m=f["m"], **puw(f), **LSL0)

    def unp_imm(load, pc_ok):
        def u(f, c):
            if f["t"] == 15 and not pc_ok:
                return True
            if wb(f):
                return f["n"] == f["t"] or f["n"] == 15
            return False
        return u

    def unp_reg(pc_ok):
        def u(f, c):
            if (f["t"] == 15 and not pc_ok) or f["m"] == 15:
                return True
            if wb(f):
                return f["n"] == 15 or f["n"] == f["t"] or (c["ver"] < 6 and f["m"] == f["n"])
            return False
        return u

    pop = lambda f: not (f["n"] == 13 and f["P"] == 0 and f["U"] == 1 and f["W"] == 0 and f["i"] == 4)      # POP A2
    push = lambda f: not (f["n"] == 13 and f["P"] == 1 and f["U"] == 0 and f["W"] == 1 and f["i"] == 4)     # PUSH A2
    for kind, bl, cls_i, cls_r, g in (("Ldr", "01", "LdrImmediateArmA1", "LdrRegisterArmA1", pop),
                                      ("Str", "00", "StrImmediateArmA1", "StrRegisterA1", push),
                                      ("Ldrb", "11", "LdrbImmediateArmA1", "LdrbRegisterA1", None),
                                      ("Strb", "10", "StrbImmediateArmA1", "StrbRegisterA1", None)):
        load = kind.startswith("Ld")
        pc_ok = kind in ("Ldr", "Str")
        add(cls_i, "cccc010PU%sW%snnnnttttiiiiiiiiiiii" % (bl[0], bl[1]), i_ops, semof(kind), unp_imm(load, pc_ok), g)
        add(cls_r, "cccc011PU%sW%snnnnttttiiiiiss0mmmm" % (bl[0], bl[1]), r_ops, semof(kind), unp_reg(pc_ok))

    # ---- halfword / signed byte / signed halfword
    for kind, lbit, op2, cls_i, cls_r in (("Ldrh", "1", "1011", "LdrhImmediateArmA1", "LdrhRegisterA1"),
                                          ("Ldrsb", "1", "1101", "LdrsbImmediateA1", "LdrsbRegisterA1"),
                                          ("Ldrsh", "1", "1111", "LdrshImmediateA1", "LdrshRegisterA1"),
                                          ("Strh", "0", "1011", "StrhImmediateArmA1", "StrhRegisterA1")):
        load = kind.startswith("Ld")
        add(cls_i, "cccc000PU1W%snnnnttttiiii%siiii" % (lbit, op2), i_ops, semof(kind), unp_imm(load, False))
        add(cls_r, "cccc000PU0W%snnnntttt----%smmmm" % (lbit, op2), r_ops0, semof(kind), unp_reg(False))

    # ---- doubleword
    def d_unp(reg, load):
        def u(f, c):
            t = f["t"]
            t2 = t + 1
            if t & 1 or t2 == 15 or (f["P"] == 0 and f["W"] == 1):
                return True
            if reg and (f["m"] == 15 or (load and f["m"] in (t, t2))):
                return True
            if wb(f):
                if f["n"] == 15 or f["n"] in (t, t2):
                    return True
                if reg and c["ver"] < 6 and f["m"] == f["n"]:
                    return True
            return False
        return u

    def di_ops(f, c):
        return dict(t=f["t"], t2=f["t"] + 1, n=f["n"], imm32=f["i"], **puw(f))

    def dr_ops(f, c):
        return dict(t=f["t"], t2=f["t"] + 1, n=f["n"], m=f["m"], **puw(f))

    add("LdrdImmediateA1", "cccc000PU1W0nnnnttttiiii1101iiii", di_ops, sem_ldrd(), d_unp(False, True))
    add("LdrdRegisterA1", "cccc000PU0W0nnnntttt----1101mmmm", dr_ops, sem_ldrd(), d_unp(True, True))
    add("StrdImmediateA1", "cccc000PU1W0nnnnttttiiii1111iiii", di_ops, sem_strd, d_unp(False, False))
    add("StrdRegisterA1", "cccc000PU0W0nnnntttt----1111mmmm", dr_ops, sem_strd, d_unp(True, False))

    # ---- exclusives
    for cls, op, size in (("Ldrex", "100", 4), ("Ldrexd", "101", 8), ("Ldrexb", "110", 1), ("Ldrexh", "111", 2)):
        if size == 8:
            ops = lambda f, c: {"t": f["t"], "t2": f["t"] + 1, "n": f["n"]}
            unp = lambda f, c: f["t"] & 1 == 1 or f["t"] == 14 or f["n"] == 15
        elif size == 4:
            ops = lambda f, c: {"t": f["t"], "n": f["n"], "imm32": 0}
            unp = lambda f, c: f["t"] == 15 or f["n"] == 15
        else:
            ops = lambda f, c: {"t": f["t"], "n": f["n"]}
            unp = lambda f, c: f["t"] == 15 or f["n"] == 15
        add(cls + "A1", "cccc0001%s1nnnntttt++++1001++++" % op, ops, sem_ldrex(size), unp)
    for cls, op, size in (("Strex", "100", 4), ("Strexd", "101", 8), ("Strexb", "110", 1), ("Strexh", "111", 2)):
        if size == 8:
            ops = lambda f, c: {"d": f["d"], "t": f["t"], "t2": f["t"] + 1, "n": f["n"]}
            unp = lambda f, c: (f["d"] == 15 or f["t"] & 1 == 1 or f["t"] == 14 or f["n"] == 15 or
                                f["d"] in (f["n"], f["t"], f["t"] + 1))
        else:
            ops = (lambda f, c: {"d": f["d"], "t": f["t"], "n": f["n"], "imm32": 0}) if size == 4 else \
                  (lambda f, c: {"d": f["d"], "t": f["t"], "n": f["n"]})
            unp = lambda f, c: 15 in (f["d"], f["t"], f["n"]) or f["d"] in (f["n"], f["t"])
        add(cls + "A1", "cccc0001%s0nnnndddd++++1001tttt" % op, ops, sem_strex(size), unp)
    return R


# ------------------------------------------------------------------------------------------------- Thumb 16-bit rows
def t16_rows():
    R = []

    def add(cls, pat, operands, sem):
        R.append(Row(cls, T16, pat, operands=operands, sem=sem, group=G))

    add("LdrLiteralT1", "01001tttiiiiiiii", lambda f, c: {"t": f["t"], "imm32": f["i"] << 2, "add": True}, semof("Ldr", True))
    full = {"index": True, "add": True, "wback": False}
    for op, kind, cls, thumbcls in (("000", "Str", "StrRegisterT1", False), ("001", "Strh", "StrhRegisterT1", False),
                                    ("010", "Strb", "StrbRegisterT1", False), ("011", "Ldrsb", "LdrsbRegisterT1", False),
                                    ("100", "Ldr", "LdrRegisterThumbT1", True), ("101", "Ldrh", "LdrhRegisterT1", False),
                                    ("110", "Ldrb", "LdrbRegisterT1", False), ("111", "Ldrsh", "LdrshRegisterT1", False)):
        if thumbcls:
            ops = lambda f, c: dict(t=f["t"], n=f["n"], m=f["m"], **LSL0)
        else:
            ops = lambda f, c: dict(t=f["t"], n=f["n"], m=f["m"], **full, **LSL0)
        add(cls, "0101%smmmnnnttt" % op, ops, semof(kind))
    for op, kind, cls, sh in (("01100", "Str", "StrImmediateThumbT1", 2), ("01101", "Ldr", "LdrImmediateThumbT1", 2),
                              ("01110", "Strb", "StrbImmediateThumbT1", 0), ("01111", "Ldrb", "LdrbImmediateThumbT1", 0),
                              ("10000", "Strh", "StrhImmediateThumbT1", 1), ("10001", "Ldrh", "LdrhImmediateThumbT1", 1)):
        add(cls, "%siiiiinnnttt" % op,
            (lambda sh: lambda f, c: dict(t=f["t"], n=f["n"], imm32=f["i"] << sh, **full))(sh), semof(kind))
    add("StrImmediateThumbT2", "10010tttiiiiiiii", lambda f, c: dict(t=f["t"], n=13, imm32=f["i"] << 2, **full), semof("Str"))
    add("LdrImmediateThumbT2", "10011tttiiiiiiii", lambda f, c: dict(t=f["t"], n=13, imm32=f["i"] << 2, **full), semof("Ldr"))
    return R


# ------------------------------------------------------------------------------------------------- Thumb 32-bit rows
def t32_rows():
    R = []

    def add(cls, pat, operands, sem, unp=None, guard=None):
        R.append(Row(cls, T32, pat, operands=operands, sem=sem, unpredictable=unp, guard=guard, group=G))

    full = {"index": True, "add": True, "wback": False}
    pc_it = lambda f, c: f["t"] == 15 and c["in_it"] and not c["last_it"]
    # encoding bits 24 (sign), 22:21 (size) of 1111100 S x sz L
    KINDS = (("Ldr", "0", "10", "1"), ("Ldrb", "0", "00", "1"), ("Ldrh", "0", "01", "1"), ("Ldrsb", "1", "00", "1"),
             ("Ldrsh", "1", "01", "1"), ("Str", "0", "10", "0"), ("Strb", "0", "00", "0"), ("Strh", "0", "01", "0"))
    NAMES = {
        "Ldr": ("LdrLiteralT2", "LdrtT1", "LdrImmediateThumbT3", "LdrImmediateThumbT4", "LdrRegisterThumbT2"),
        "Ldrb": ("LdrbLiteralT1", "LdrbtT1", "LdrbImmediateThumbT2", "LdrbImmediateThumbT3", "LdrbRegisterT2"),
        "Ldrh": ("LdrhLiteralT1", "LdrhtT1", "LdrhImmediateThumbT2", "LdrhImmediateThumbT3", "LdrhRegisterT2"),
        "Ldrsb": ("LdrsbLiteralT1", "LdrsbtT1", "LdrsbImmediateT1", "LdrsbImmediateT2", "LdrsbRegisterT2"),
        "Ldrsh": ("LdrshLiteralT1", "LdrshtT1", "LdrshImmediateT1", "LdrshImmediateT2", "LdrshRegisterT2"),
        "Str": (None, "StrtT1", "StrImmediateThumbT3", "StrImmediateThumbT4", "StrRegisterT2"),
        "Strb": (None, "StrbtT1", "StrbImmediateThumbT2", "StrbImmediateThumbT3", "StrbRegisterT2"),
        "Strh": (None, "StrhtT1", "StrhImmediateThumbT2", "StrhImmediateThumbT3", "StrhRegisterT2"),
    }
    for kind, S, sz, L in KINDS:
        c_lit, c_t, c_i12, c_i8, c_reg = NAMES[kind]
        load = L == "1"
        word = kind in ("Ldr", "Str")
        # Rt = 1111 on byte/halfword loads is the PLD / PLI / unallocated-hint space; Rn = 1111 on stores is UNDEFINED
        if load and not word:
            g0 = lambda f: f["t"] != 15
        elif not load:
            g0 = lambda f: f["n"] != 15
        else:
            g0 = None
        if c_lit:
            add(c_lit, "1111100%sU%s11111ttttiiiiiiiiiiii" % (S, sz),
                lambda f, c: {"t": f["t"], "imm32": f["i"], "add": f["U"] == 1}, semof(kind, True),
                pc_it if word else (lambda f, c: f["t"] == 13), g0)
        add(c_t, "1111100%s0%s%snnnntttt1110iiiiiiii" % (S, sz, L),
            lambda f, c: {"t": f["t"], "n": f["n"], "post_index": False, "add": True, "register_form": False, "imm32": f["i"]},
            semof(kind), lambda f, c: badreg(f["t"]), (lambda f: f["n"] != 15) if not load else None)
        # imm12
        if word and load:
            u12 = pc_it
        elif word:
            u12 = lambda f, c: f["t"] == 15
        elif load:
            u12 = lambda f, c: f["t"] == 13
        else:
            u12 = lambda f, c: badreg(f["t"])
        add(c_i12, "1111100%s1%s%snnnnttttiiiiiiiiiiii" % (S, sz, L),
            lambda f, c: dict(t=f["t"], n=f["n"], imm32=f["i"], **full), semof(kind), u12, g0)
        # imm8 with P, U, W
        if word and load:
            u8 = lambda f, c: (wb(f) and f["n"] == f["t"]) or pc_it(f, c)
            g8 = lambda f: (f["P"] or f["W"]) and not (f["n"] == 13 and (f["P"], f["U"], f["W"]) == (0, 1, 1) and f["i"] == 4)
        elif word:
            u8 = lambda f, c: f["t"] == 15 or (wb(f) and f["n"] == f["t"])
            g8 = lambda f: (f["P"] or f["W"]) and f["n"] != 15 and \
                not (f["n"] == 13 and (f["P"], f["U"], f["W"]) == (1, 0, 1) and f["i"] == 4)
        else:
            u8 = lambda f, c: badreg(f["t"]) or (wb(f) and f["n"] == f["t"])
            g8 = (lambda f: (f["P"] or f["W"]) and f["t"] != 15) if load else (lambda f: (f["P"] or f["W"]) and f["n"] != 15)
        add(c_i8, "1111100%s0%s%snnnntttt1PUWiiiiiiii" % (S, sz, L),
            lambda f, c: dict(t=f["t"], n=f["n"], imm32=f["i"], **puw(f)), semof(kind), u8, g8)
        # register, LSL #imm2
        if word and load:
            ur = lambda f, c: badreg(f["m"]) or pc_it(f, c)
        elif word:
            ur = lambda f, c: f["t"] == 15 or badreg(f["m"])
        elif load:
            ur = lambda f, c: f["t"] == 13 or badreg(f["m"])
        else:
            ur = lambda f, c: badreg(f["t"]) or badreg(f["m"])
        if kind == "Ldr":
            rops = lambda f, c: dict(t=f["t"], n=f["n"], m=f["m"], shift_t="LSL", shift_n=f["i"])
        else:
            rops = lambda f, c: dict(t=f["t"], n=f["n"], m=f["m"], shift_t="LSL", shift_n=f["i"], **full)
        add(c_reg, "1111100%s0%s%snnnntttt000000iimmmm" % (S, sz, L), rops, semof(kind), ur, g0)

    # ---- doubleword (P = 0 and W = 0 is the exclusive / table-branch space)
    dg = lambda f: f["P"] == 1 or f["W"] == 1
    dops = lambda f, c: dict(t=f["t"], t2=f["T"], n=f["n"], imm32=f["i"] << 2, **puw(f))
    add("LdrdLiteralT1", "1110100PU1W11111ttttTTTTiiiiiiii",
        lambda f, c: {"t": f["t"], "t2": f["T"], "imm32": f["i"] << 2, "add": f["U"] == 1}, sem_ldrd(True),
        lambda f, c: badreg(f["t"], f["T"]) or f["t"] == f["T"] or f["W"] == 1, dg)
    add("LdrdImmediateT1", "1110100PU1W1nnnnttttTTTTiiiiiiii", dops, sem_ldrd(),
        lambda f, c: (wb(f) and f["n"] in (f["t"], f["T"])) or badreg(f["t"], f["T"]) or f["t"] == f["T"], dg)
    add("StrdImmediateT1", "1110100PU1W0nnnnttttTTTTiiiiiiii", dops, sem_strd,
        lambda f, c: (wb(f) and f["n"] in (f["t"], f["T"])) or f["n"] == 15 or badreg(f["t"], f["T"]), dg)

    # ---- exclusives
    add("LdrexT1", "111010000101nnnntttt++++iiiiiiii", lambda f, c: {"t": f["t"], "n": f["n"], "imm32": f["i"] << 2},
        sem_ldrex(4), lambda f, c: badreg(f["t"]) or f["n"] == 15)
    add("StrexT1", "111010000100nnnnttttddddiiiiiiii",
        lambda f, c: {"d": f["d"], "t": f["t"], "n": f["n"], "imm32": f["i"] << 2}, sem_strex(4),
        lambda f, c: badreg(f["d"], f["t"]) or f["n"] == 15 or f["d"] in (f["n"], f["t"]))
    for cls, op, size in (("Ldrexb", "0100", 1), ("Ldrexh", "0101", 2)):
        add(cls + "T1", "111010001101nnnntttt++++%s++++" % op, lambda f, c: {"t": f["t"], "n": f["n"]}, sem_ldrex(size),
            lambda f, c: badreg(f["t"]) or f["n"] == 15)
    add("LdrexdT1", "111010001101nnnnttttTTTT0111++++", lambda f, c: {"t": f["t"], "t2": f["T"], "n": f["n"]}, sem_ldrex(8),
        lambda f, c: badreg(f["t"], f["T"]) or f["t"] == f["T"] or f["n"] == 15)
    for cls, op, size in (("Strexb", "0100", 1), ("Strexh", "0101", 2)):
        add(cls + "T1", "111010001100nnnntttt++++%sdddd" % op, lambda f, c: {"d": f["d"], "t": f["t"], "n": f["n"]},
            sem_strex(size), lambda f, c: badreg(f["d"], f["t"]) or f["n"] == 15 or f["d"] in (f["n"], f["t"]))
    add("StrexdT1", "111010001100nnnnttttTTTT0111dddd",
        lambda f, c: {"d": f["d"], "t": f["t"], "t2": f["T"], "n": f["n"]}, sem_strex(8),
        lambda f, c: badreg(f["d"], f["t"], f["T"]) or f["n"] == 15 or f["d"] in (f["n"], f["t"], f["T"]))
    return R


ROWS = arm_rows() + t16_rows() + t32_rows()
