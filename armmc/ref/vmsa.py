"""Reference model of VMSAv7 stage-1 address translation for data accesses at PL1&0 (ARM ARM DDI 0406C, B3.2 FCSE,
B3.5 Short-descriptor format, B3.6 Long-descriptor format, B3.7 memory access control, B3.8 memory region attributes
with TEX remap, B3.12/B3.13 fault reporting, B4.1.51/52 DFSR/DFAR).  Independent transcription - shares no code with
/repo.

    translate(loc, cfg, mem, va, priv, write)

`loc` is a mapping of system-register values under the location names of machine.Plan / ref.state.St
("sctlr", "ttbcr", "ttbr0_64", "ttbr1_64", "dacr", "fcseidr", "prrr", "nmrr", "mair0", "mair1", "scr", "cpsr"),
`cfg` the configuration dict, `mem` an object with rd(physical byte address) -> byte (ref.memmodel.Flat: a byte that
no device maps reads as zero - the emulator has no external aborts).

The result is one of
    ("ok", Ok)                         translation succeeds: Ok.pa (40 bit), .ns, .attrs (None = not specified), ...
    ("fault", Fault)                   synchronous data abort: Fault.kind/level/domain (None = field UNKNOWN)/mva/ld
    ("notimpl", hook)                  the access needs a facility that the emulator documents as a mock hook
    ("any", reason)                    UNPREDICTABLE / IMPLEMENTATION DEFINED / outside the modelled subset
    ("either", [outcome, outcome...])  each of the listed outcomes is architecturally acceptable

Covered: the Short-descriptor format completely (TTBCR.N split, PD0/PD1, sections, supersections incl. the extended
base address bits, large and small pages, domains / DACR, AP<2:0> with and without SCTLR.AFE, access flag, TEX remap
attributes, SCTLR.EE, FCSE) and the Long-descriptor stage-1 format of the PL1&0 regime (TTBCR.EAE = 1: T0SZ/T1SZ
region selection, EPD0/EPD1, start level 1 or 2, table / block / page / invalid descriptors, APTable / NSTable /
XNTable / PXNTable accumulation, AF, AP<2:1>, NS, SH, MAIR type).  Long-descriptor faults are returned as Fault(ld=True);
their DFSR encoding is not modelled because the emulator reaches a mock hook on every one of them.

Not modelled (-> "any"): Hyp mode and stage 2 of the virtualization extensions (HCR.VM / DC / TGE set), instruction fetches (XN / PXN),
alignment faults caused by the memory type (an unaligned access to Device / Strongly-ordered memory is UNPREDICTABLE
without the virtualization extensions), external aborts on walks.
"""
from . import bv

bits, bit = bv.bits, bv.bit
M32 = 0xFFFFFFFF

SCTLR_M, SCTLR_HA, SCTLR_EE, SCTLR_TRE, SCTLR_AFE = 0, 17, 25, 28, 29
SO, DEVICE, NORMAL = "STRONGLY_ORDERED", "DEVICE", "NORMAL"
MON, HYP = 0b10110, 0b11010


class Ok:
    def __init__(self, **kw):
        self.pa = 0
        self.ns = 0
        self.attrs = None       # dict(type=..., [shareable, outershareable, inner, outer]) or None when not specified
        self.domain = None
        self.level = 0
        self.ap = None
        self.kind = ""
        self.mva = 0
        self.xn = self.pxn = self.ng = 0
        self.blocksize = 0
        self.__dict__.update(kw)

    def key(self):
        return ("ok", self.pa, self.ns, None if self.attrs is None else tuple(sorted(self.attrs.items())))

    def __repr__(self):
        return "ok(pa=%#x ns=%d %s L%d dom=%r ap=%r attrs=%r)" % (self.pa, self.ns, self.kind, self.level, self.domain,
                                                                 self.ap, self.attrs)


class Fault:
    def __init__(self, kind, level, domain, mva, ld=False):
        self.kind = kind        # "translation" | "access_flag" | "domain" | "permission"
        self.level = level
        self.domain = domain    # the domain of the faulting entry, None if no descriptor supplied one
        self.mva = mva
        self.ld = ld            # reported in the Long-descriptor DFSR format

    def key(self):
        return ("fault", self.kind, self.level, self.domain, self.mva, self.ld)

    def __repr__(self):
        return "fault(%s L%d dom=%r mva=%#x%s)" % (self.kind, self.level, self.domain, self.mva, " LD" if self.ld else "")


# ------------------------------------------------------------------------------------------------ small helpers
def fcse_mva(va, fcseidr):
    """B3.2.1 FCSETranslate: VAs in the bottom 32 MB are relocated by the process id."""
    va &= M32
    if bits(va, 31, 25) == 0:
        return (bits(fcseidr, 31, 25) << 25) | va
    return va


def _rd(mem, pa, size, big_endian):
    v = 0
    for i in range(size):
        v |= mem.rd(pa + i) << (8 * i)
    return bv.big_endian_reverse(v, size) if big_endian else v


def is_secure(loc, cfg):
    if not cfg.get("have_security_ext"):
        return True
    return (loc["scr"] & 1) == 0 or (loc["cpsr"] & 0x1F) == MON


def _rgn(r):
    """ConvertAttrsHints (B3.19): 2-bit region cacheability field -> (attributes, hints)."""
    if r == 0b00:
        return (0b00, 0b00)
    if r & 1:
        return (0b11, 0b10 | ((r >> 1) ^ 1))
    return (0b10, 0b10)


def remapped_attrs(loc, texcb, s):
    """B3.8.3 / RemappedTEXDecode, SCTLR.TRE == 1.  None = nothing specified (IMPLEMENTATION DEFINED / reserved)."""
    prrr, nmrr = loc["prrr"], loc["nmrr"]
    region = texcb & 7
    if region == 6:
        return None
    tr = bits(prrr, 2 * region + 1, 2 * region)
    if tr == 0b00:
        return {"type": SO}
    if tr == 0b01:
        return {"type": DEVICE}     # shareability of Device memory: PRRR.DS0/DS1 vs always shareable (LPAE) - not compared
    if tr == 0b11:
        return None
    s_bit = bit(prrr, 19) if s else bit(prrr, 18)
    return {"type": NORMAL, "shareable": bool(s_bit), "outershareable": bool(s_bit and not bit(prrr, 24 + region)),
            "inner": _rgn(bits(nmrr, 2 * region + 1, 2 * region)),
            "outer": _rgn(bits(nmrr, 2 * region + 17, 2 * region + 16))}


# ------------------------------------------------------------------------------------------------ Short-descriptor
def sd_select(loc, mva):
    """(which, ttbr, n, disabled): B3.5.4 selecting between TTBR0 and TTBR1."""
    ttbcr = loc["ttbcr"]
    n = ttbcr & 7
    if n == 0 or bits(mva, 31, 32 - n) == 0:
        return 0, loc["ttbr0_64"] & M32, n, bit(ttbcr, 4)       # TTBCR.PD0
    return 1, loc["ttbr1_64"] & M32, 0, bit(ttbcr, 5)           # TTBCR.PD1; TTBR1 always indexes with mva<31:20>


def walk_sd(loc, cfg, mem, mva):
    """TranslationTableWalkSD up to (and including) the access-flag check.  -> ("ok", Ok) | ("fault", Fault) |
    ("notimpl", hook) | ("either", ...)."""
    sctlr = loc["sctlr"]
    ee = bit(sctlr, SCTLR_EE)
    afe = bit(sctlr, SCTLR_AFE)
    ha = bit(sctlr, SCTLR_HA)
    which, ttbr, n, disabled = sd_select(loc, mva)
    if cfg.get("have_security_ext") and disabled:
        return ("fault", Fault("translation", 1, None, mva))
    l1a = ((ttbr >> (14 - n)) << (14 - n)) | (bits(mva, 31 - n, 20) << 2)
    l1 = _rd(mem, l1a, 4, ee)
    t = l1 & 3
    if t == 0b00:
        return ("fault", Fault("translation", 1, None, mva))
    if t == 0b01:
        domain = bits(l1, 8, 5)
        ns = bit(l1, 3)
        pxn = bit(l1, 2)
        l2a = (bits(l1, 31, 10) << 10) | (bits(mva, 19, 12) << 2)
        l2 = _rd(mem, l2a, 4, ee)
        if l2 & 3 == 0b00:
            return ("fault", Fault("translation", 2, domain, mva))
        ap = (bit(l2, 9) << 2) | bits(l2, 5, 4)
        s = bit(l2, 10)
        ng = bit(l2, 11)
        if afe and bit(l2, 4) == 0:
            if not ha:
                return ("fault", Fault("access_flag", 2, domain, mva))
            return ("notimpl", "mem.set_bits")                     # hardware management of the access flag
        if bit(l2, 1) == 0:
            e = Ok(kind="large-page", texcb=(bits(l2, 14, 12) << 2) | bits(l2, 3, 2), xn=bit(l2, 15), blocksize=64,
                   pa=(bits(l2, 31, 16) << 16) | bits(mva, 15, 0))
        else:
            e = Ok(kind="small-page", texcb=(bits(l2, 8, 6) << 2) | bits(l2, 3, 2), xn=bit(l2, 0), blocksize=4,
                   pa=(bits(l2, 31, 12) << 12) | bits(mva, 11, 0))
        e.__dict__.update(level=2, domain=domain, ap=ap, s=s, ng=ng, pxn=pxn, nsbit=ns, mva=mva, which=which)
        return ("ok", e)
    # '1x': section or supersection.  bits<1:0> == '11' is the PXN form where PXN is supported (mandatory with the Large
    # Physical Address Extension), otherwise the encoding is reserved and faults / IMPLEMENTATION DEFINED.
    ap = (bit(l1, 15) << 2) | bits(l1, 11, 10)
    if afe and bit(l1, 10) == 0:
        r = ("fault", Fault("access_flag", 1, None, mva)) if not ha else ("notimpl", "mem.set_bits")
    else:
        if bit(l1, 18) == 0:
            e = Ok(kind="section", domain=bits(l1, 8, 5), blocksize=1024, pa=(bits(l1, 31, 20) << 20) | bits(mva, 19, 0))
        else:
            e = Ok(kind="supersection", domain=0, blocksize=16384,
                   pa=(bits(l1, 8, 5) << 36) | (bits(l1, 23, 20) << 32) | (bits(l1, 31, 24) << 24) | bits(mva, 23, 0))
        e.__dict__.update(level=1, ap=ap, s=bit(l1, 16), ng=bit(l1, 17), xn=bit(l1, 4), pxn=bit(l1, 0), nsbit=bit(l1, 19),
                          texcb=(bits(l1, 14, 12) << 2) | bits(l1, 3, 2), mva=mva, which=which)
        r = ("ok", e)
    if t == 0b11 and not cfg.get("have_lpae"):
        return ("either", [r, ("fault", Fault("translation", 1, None, mva))])
    return r


def check_permission(ap, afe, priv, write):
    """CheckPermission (B3.7.1, data access).  True = abort, None = UNPREDICTABLE."""
    if afe:
        ap |= 1
    if ap == 0b000:
        return True
    if ap == 0b001:
        return not priv
    if ap == 0b010:
        return (not priv) and write
    if ap == 0b011:
        return False
    if ap == 0b100:
        return None
    if ap == 0b101:
        return (not priv) or write
    return bool(write)       # 110 (deprecated), 111: read-only at any privilege


def _sd(loc, cfg, mem, mva, priv, write):
    r = walk_sd(loc, cfg, mem, mva)
    if r[0] == "either":
        outs = []
        for alt in r[1]:
            outs.append(_sd_finish(loc, cfg, alt, priv, write))
        flat = []
        for o in outs:
            if o[0] == "any":
                return o
            flat.append(o)
        return ("either", flat)
    return _sd_finish(loc, cfg, r, priv, write)


def _sd_finish(loc, cfg, r, priv, write):
    """Memory attributes, then CheckDomain and CheckPermission (TranslateAddressV after the walk)."""
    sctlr = loc["sctlr"]
    afe = bit(sctlr, SCTLR_AFE)
    if r[0] != "ok":
        return r
    e = r[1]
    if not bit(sctlr, SCTLR_TRE):
        return ("notimpl", "remap_regs_have_reset_values")
    e.attrs = remapped_attrs(loc, e.texcb, e.s)
    e.ns = e.nsbit if is_secure(loc, cfg) else 1
    d = bits(loc["dacr"], 2 * e.domain + 1, 2 * e.domain)
    if d == 0b00:
        return ("fault", Fault("domain", e.level, e.domain, e.mva))
    if d == 0b10:
        return ("any", "DACR field 0b10 is reserved: UNPREDICTABLE")
    if d == 0b01:
        ab = check_permission(e.ap, afe, priv, write)
        if ab is None:
            return ("any", "AP 0b100 is reserved: UNPREDICTABLE")
        if ab:
            return ("fault", Fault("permission", e.level, e.domain, e.mva))
    return ("ok", e)


def sd_af_domain_overlap(loc, cfg, mem, mva):
    """For an Access flag fault: the domain field the same entry selects (-> is a Domain fault equally applicable?)."""
    ee = bit(loc["sctlr"], SCTLR_EE)
    which, ttbr, n, disabled = sd_select(loc, mva)
    l1 = _rd(mem, ((ttbr >> (14 - n)) << (14 - n)) | (bits(mva, 31 - n, 20) << 2), 4, ee)
    if l1 & 3 == 0b01:
        dom, level = bits(l1, 8, 5), 2
    elif bit(l1, 18) == 0:
        dom, level = bits(l1, 8, 5), 1
    else:
        dom, level = 0, 1
    return dom, level, bits(loc["dacr"], 2 * dom + 1, 2 * dom)


# ------------------------------------------------------------------------------------------------ Long-descriptor
def mair_attrs(loc, idx):
    """B4.1.104 MAIRn attribute byte -> type (cacheability details are not compared)."""
    mair = (loc["mair1"] << 32) | loc["mair0"]
    a = bits(mair, 8 * idx + 7, 8 * idx)
    if a >> 4 == 0:
        if a & 0xF == 0b0000:
            return {"type": SO}
        if a & 0xF == 0b0100:
            return {"type": DEVICE}
        return None                     # UNPREDICTABLE encodings
    hi, lo = a >> 4, a & 0xF
    if hi in (0b0001, 0b0010, 0b0011, 0b0101, 0b0110, 0b0111) or lo in (0b0000, 0b0001, 0b0010, 0b0011, 0b0101, 0b0110, 0b0111):
        return None                     # transient hints / IMPLEMENTATION DEFINED / UNPREDICTABLE
    return {"type": NORMAL}


def ld_select(loc, ia):
    """B3.6.4 (Table "use of TTBR0 and TTBR1"): (ttbr, size, epd) or None when the address is in neither region."""
    ttbcr = loc["ttbcr"]
    t0, t1 = bits(ttbcr, 2, 0), bits(ttbcr, 18, 16)
    r0 = (loc["ttbr0_64"], t0, bit(ttbcr, 7))
    r1 = (loc["ttbr1_64"], t1, bit(ttbcr, 23))
    if t0 == 0 and t1 == 0:
        return r0
    zeros = t0 > 0 and bits(ia, 31, 32 - t0) == 0
    ones = t1 > 0 and bits(ia, 31, 32 - t1) == (1 << t1) - 1
    if t0 == 0:
        return r1 if ones else r0
    if t1 == 0:
        return r0 if zeros else r1
    if zeros:
        return r0
    if ones:
        return r1
    return None


def _ld(loc, cfg, mem, mva, priv, write):
    """Stage 1 Long-descriptor walk for the PL1&0 regime (TTBCR.EAE == 1), no stage 2."""
    sctlr = loc["sctlr"]
    ee = bit(sctlr, SCTLR_EE)
    ia = mva
    sel = ld_select(loc, ia)
    if sel is None:
        return ("fault", Fault("translation", 1, None, mva, ld=True))
    ttbr, tsz, epd = sel
    if epd:
        return ("fault", Fault("translation", 1, None, mva, ld=True))
    level = 1 if tsz < 2 else 2
    # width of the first lookup: the input address has 32 - tsz bits
    low = 39 - 9 * level                                   # lowest input-address bit resolved at this level: 30 / 21
    x = 9 * level - tsz - 4                                # lowest valid base-address bit: 5-tsz (level 1), 14-tsz (level 2)
    if bits(ttbr, x - 1, 3) != 0 if x > 3 else False:
        return ("any", "TTBR base address not aligned to the table size: UNPREDICTABLE")
    base = (bits(ttbr, 39, x) << x)
    secure = is_secure(loc, cfg)
    lookup_secure = secure
    t_rw, t_user, t_xn, t_pxn = True, True, False, False
    top = 31 - tsz
    first = True
    while True:
        low = 39 - 9 * level                               # 30, 21, 12
        hi = top if first else low + 8
        first = False
        idx = bits(ia, hi, low)
        d = _rd(mem, base | (idx << 3), 8, ee)
        if bit(d, 0) == 0:
            return ("fault", Fault("translation", level, None, mva, ld=True))
        if bit(d, 1) == 0:
            if level == 3:
                return ("fault", Fault("translation", level, None, mva, ld=True))
            break                                          # block
        if level == 3:
            break                                          # page
        base = bits(d, 39, 12) << 12
        lookup_secure = lookup_secure and bit(d, 63) == 0  # NSTable
        t_rw = t_rw and bit(d, 62) == 0                    # APTable<1>
        t_user = t_user and bit(d, 61) == 0                # APTable<0>
        t_xn = t_xn or bit(d, 60) == 1
        t_pxn = t_pxn or bit(d, 59) == 1
        level += 1
    pa = (bits(d, 39, low) << low) | bits(ia, low - 1, 0)
    ap21 = bits(d, 7, 6)
    nsb = bit(d, 5)
    if not t_rw:
        ap21 |= 0b10
    if not t_user:
        ap21 &= 0b10
    if not lookup_secure:
        nsb = 1
    if bit(d, 10) == 0:
        return ("fault", Fault("access_flag", level, None, mva, ld=True))
    ap = (ap21 << 1) | 1
    ab = check_permission(ap, 0, priv, write)
    if ab:
        return ("fault", Fault("permission", level, None, mva, ld=True))
    attrs = mair_attrs(loc, bits(d, 4, 2))
    if attrs is not None and attrs["type"] == NORMAL:
        attrs["shareable"] = bit(d, 9) == 1
        attrs["outershareable"] = bits(d, 9, 8) == 0b10
    return ("ok", Ok(kind="ld-block" if level < 3 else "ld-page", pa=pa, ns=nsb, level=level, ap=ap, attrs=attrs, mva=mva,
                     domain=None, blocksize=(512 ** (3 - level)) * 4))


# ------------------------------------------------------------------------------------------------ top level
def translate(loc, cfg, mem, va, priv, write):
    """TranslateAddressV for a data access that is aligned (or targets Normal memory)."""
    if (loc["cpsr"] & 0x1F) == HYP:
        return ("any", "the Hyp translation regime is not modelled")
    if cfg.get("have_virt_ext") and (loc["scr"] & 1) and (loc["hcr"] & ((1 << 0) | (1 << 12) | (1 << 27))):
        # HCR.VM (stage 2 enabled), HCR.DC (default cacheable), HCR.TGE: not modelled.  With all three clear the
        # Non-secure PL1&0 regime is a plain stage-1 translation, as in Secure state
        return ("any", "second-stage translation / HCR.DC / HCR.TGE are not modelled")
    sctlr = loc["sctlr"]
    fcseidr = loc["fcseidr"]
    mva = fcse_mva(va, fcseidr)
    if not bit(sctlr, SCTLR_M):
        if mva != va & M32:
            # B3.2.1: the FCSE process id SBZ while the MMU is disabled, otherwise UNPREDICTABLE
            return ("any", "FCSE remapping with the MMU disabled: UNPREDICTABLE")
        return ("ok", Ok(kind="flat", pa=mva, ns=0 if is_secure(loc, cfg) else 1, attrs={"type": SO}, mva=mva))
    if bit(loc["ttbcr"], 31):
        if not cfg.get("have_lpae"):
            return ("any", "TTBCR.EAE without the Large Physical Address Extension: reserved bit")
        return _ld(loc, cfg, mem, mva, priv, write)
    r = _af_vs_domain(loc, cfg, mem, mva, _sd(loc, cfg, mem, mva, priv, write))
    if r[0] == "either":
        flat = []
        _flatten(r, flat)
        for o in flat:
            if o[0] == "any":
                return o
        return ("either", flat)
    return r


def _flatten(r, out):
    if r[0] == "either":
        for x in r[1]:
            _flatten(x, out)
    else:
        out.append(r)


def _af_vs_domain(loc, cfg, mem, mva, r):
    if r[0] == "either":
        return ("either", [_af_vs_domain(loc, cfg, mem, mva, x) for x in r[1]])
    if r[0] == "fault" and r[1].kind == "access_flag":
        dom, level, field = sd_af_domain_overlap(loc, cfg, mem, mva)
        if field == 0b00:
            return ("either", [r, ("fault", Fault("domain", level, dom, mva))])
        if field == 0b10:
            return ("any", "DACR field 0b10 is reserved: UNPREDICTABLE")
    return r


# ------------------------------------------------------------------------------------------------ fault status
def sd_fs(kind, level):
    """Table B3-23 Short-descriptor format FS encodings."""
    if kind == "alignment":
        return 0b00001
    if kind == "access_flag":
        return 0b00011 if level == 1 else 0b00110
    base = {"translation": 0b00101, "domain": 0b01001, "permission": 0b01101}[kind]
    return base | (0b00010 if level == 2 else 0)


def dfsr_sd(f, write, cfg):
    """(value, mask) of DFSR<13:0> after fault f in the Short-descriptor format.  Masked-out bits are UNKNOWN:
    bit 8 (UNK/SBZP) and the domain field where B3.13 / the DataAbort pseudocode does not make it valid."""
    fs = sd_fs(f.kind, f.level)
    dom_valid = f.kind == "domain" or (f.level == 2 and f.kind in ("translation", "access_flag")) or \
        (not cfg.get("have_lpae") and f.kind == "permission")
    v = (int(bool(write)) << 11) | (bit(fs, 4) << 10) | (fs & 0xF)
    mask = 0x3FFF & ~0x100
    if dom_valid and f.domain is not None:
        v |= f.domain << 4
    else:
        mask &= ~0xF0
    return v, mask
