"""Reference model of the PMSA memory protection unit (ARM ARM DDI 0406C, part B chapter B5: "Protected Memory System
Architecture"; B5.3 memory access control, B5.4 region attributes, B5.6 fault status / fault address registers).

Written from the architecture text, not from /repo:

* a region is described by DRBAR (base), DRSR (En, RSize, subregion-disable bits SD[7:0]) and DRACR (AP, XN, TEX/C/B/S);
  its size is 2^(RSize+1) bytes, RSize >= 4 (32 bytes), and its base address must be a multiple of its size;
* regions of 256 bytes or more are divided into 8 equal subregions; a set SD bit n removes the n-th eighth from the
  region: an address there is treated as not belonging to THIS region (it may still hit another region, or nothing);
  for smaller regions the SD bits are ignored (they are UNK/SBZP, "subregions are not supported" below 256 bytes);
* where regions overlap, the attributes of the HIGHEST-numbered enabled region that contains the address apply;
* data access permissions AP[2:0]:   000 no access | 001 privileged RW | 010 privileged RW, user RO | 011 RW |
  101 privileged RO | 110 RO (both) ; 100 and 111 are reserved / UNPREDICTABLE in PMSA (not modelled);
  XN only concerns instruction fetches and is ignored for data accesses;
* an address that hits no region uses the default memory map ("background region") if SCTLR.BR == 1 and the access is
  privileged - with full access -, otherwise the access takes a Background fault;
* SCTLR.M == 0: the MPU is disabled, every access is permitted (default memory map);
* fault reporting (PMSA DFSR format): FS[4] = DFSR[10], FS[3:0] = DFSR[3:0], WnR = DFSR[11], ExT = DFSR[12];
  FS = 00001 alignment, 00000 background, 01101 permission; DFAR = the faulting address.  Alignment faults are
  detected before any MPU look-up (highest priority)."""
from collections import namedtuple

M32 = 0xFFFFFFFF

# index: region number; en: DRSR.En; rsize: DRSR.RSize; base: DRBAR; sd: DRSR.SD (8 bits); ap: DRACR.AP
Region = namedtuple("Region", "index en rsize base sd ap")

#            AP : (privileged read, privileged write, user read, user write)
AP_TABLE = {
    0b000: (False, False, False, False),
    0b001: (True, True, False, False),
    0b010: (True, True, True, False),
    0b011: (True, True, True, True),
    0b101: (True, False, False, False),
    0b110: (True, False, True, False),
}
FS = {"alignment": 0b00001, "background": 0b00000, "permission": 0b01101}
UNPREDICTABLE = "unpredictable"


def region_size(rsize):
    return 1 << (rsize + 1)


def well_formed(r):
    """False for programmings the architecture leaves UNPREDICTABLE (enabled regions only matter)."""
    if not r.en:
        return True
    if r.rsize < 4:
        return False
    return r.base % region_size(r.rsize) == 0 and 0 <= r.base <= M32


def contains(r, va):
    """Does enabled region r (with its subregion disables) contain address va?"""
    if not r.en:
        return False
    size = region_size(r.rsize)
    if not (r.base <= va < r.base + size):
        return False
    if size >= 256:
        eighth = (va - r.base) // (size // 8)
        if (r.sd >> eighth) & 1:
            return False
    return True


def match(regions, va):
    """The region whose attributes apply to va: the highest-numbered containing one; None = no region."""
    best = None
    for r in regions:
        if contains(r, va) and (best is None or r.index > best.index):
            best = r
    return best


def permitted(ap, priv, write):
    t = AP_TABLE[ap]
    return t[(0 if priv else 2) + (1 if write else 0)]


def check(regions, sctlr_m, sctlr_br, va, priv, write):
    """'ok' | ('fault', 'permission' | 'background') | 'unpredictable' for one aligned data access to byte address va."""
    va &= M32
    if not sctlr_m:
        return "ok"
    for r in regions:
        if not well_formed(r):
            return UNPREDICTABLE
    r = match(regions, va)
    if r is None:
        if sctlr_br and priv:
            return "ok"
        return ("fault", "background")
    if r.ap not in AP_TABLE:
        return UNPREDICTABLE
    return "ok" if permitted(r.ap, priv, write) else ("fault", "permission")


def dfsr_bits(kind, write):
    """DFSR[13:0] reported for a synchronous internal data abort of this kind (ExT = 0, bits 13, 9:4 written as zero)."""
    fs = FS[kind]
    return (int(bool(write)) << 11) | (((fs >> 4) & 1) << 10) | (fs & 0xF)


def new_dfsr(old, kind, write):
    return (old & ~0x3FFF & M32) | dfsr_bits(kind, write)


def access(regions, sctlr_m, sctlr_br, addr, size, priv, write, must_be_aligned, alignment_checked):
    """One MemA / MemU style access of `size` bytes as a list of protection look-ups.

    must_be_aligned: the access is a MemA access (LDM/STM/LDRD/...) ; alignment_checked: unaligned accesses fault
    (SCTLR.A == 1, or a MemA access with SCTLR.U == 1 / ARMv7).  An unaligned MemU access that does not fault is
    performed byte by byte in ascending address order.
    An aligned access of up to 8 bytes lies inside one 32-byte granule, hence inside one region / subregion: one look-up.
    Returns ('ok', [byte addresses accessed]) | ('fault', kind, faulting address, [byte addresses done before]) |
    ('unpredictable',)."""
    addr &= M32
    if addr % size:
        if must_be_aligned or alignment_checked:
            return ("fault", "alignment", addr, [])
        done = []
        for i in range(size):
            a = (addr + i) & M32
            r = check(regions, sctlr_m, sctlr_br, a, priv, write)
            if r == UNPREDICTABLE:
                return (UNPREDICTABLE,)
            if r != "ok":
                return ("fault", r[1], a, done)
            done.append(a)
        return ("ok", done)
    r = check(regions, sctlr_m, sctlr_br, addr, priv, write)
    if r == UNPREDICTABLE:
        return (UNPREDICTABLE,)
    if r != "ok":
        return ("fault", r[1], addr, [])
    return ("ok", [(addr + i) & M32 for i in range(size)])
