"""Encoding rows + reference semantics for the multiply / divide / saturating / parallel add-subtract / extend /
bit-field / pack / reverse group (ARM ARM DDI 0406C A8.8: MUL MLA MLS UMULL UMLAL UMAAL SMULL SMLAL SMLA<x><y> SMLAL<x><y>
SMLAW<y> SMUL<x><y> SMULW<y> SMLAD SMLALD SMLSD SMLSLD SMUAD SMUSD SMMLA SMMLS SMMUL SDIV UDIV QADD QSUB QDADD QDSUB,
the 36 parallel add/subtract instructions, SSAT SSAT16 USAT USAT16 SEL USAD8 USADA8, SXT*/UXT* (with and without add),
BFC BFI SBFX UBFX PKH REV REV16 REVSH RBIT CLZ; encodings A1, T1, T2).  Transcribed from the manual's encoding diagrams
and operation pseudocode; no code shared with /repo.

Field letters used in the patterns (the check's generator relies on them):
  c cond | d n m a registers | h l = RdHi RdLo | S setflags | N M = n_high/m_high (M also m_swap) | R round
  r rotate(2) | s sat_imm | i imm5 (or imm3:imm2) shift amount | T tb | H sh | p lsb | w widthm1 | b msb

INFO[cls] = {"reads": letters of the registers whose VALUE is an operand, "acc": "" | "a" | "hl" (accumulator registers),
"sets": subset of {"NZ","Q","GE"}, "uses_ge": bool, "core": fn(o, x, y) -> untruncated signed product part (multiplies),
"accw": 32|64, "accsub": True when the product is subtracted from the accumulator}."""
from . import bv
from .enc import Row, A32, T16, T32
from .state import ModelStop

G = "media"
M32 = bv.M32
M64 = (1 << 64) - 1
ROWS = []
INFO = {}


# ------------------------------------------------------------------------------------------------- small helpers
def s32(x):
    return bv.sint(x, 32)


def s16(x):
    return bv.sint(x, 16)


def s8(x):
    return bv.sint(x, 8)


def lo16(x):
    return x & 0xFFFF


def hi16(x):
    return (x >> 16) & 0xFFFF


def ror32(x, n):
    n %= 32
    x &= M32
    return x if n == 0 else ((x >> n) | (x << (32 - n))) & M32


def signed_sat(i, n):
    return bv.signed_sat_q(i, n)[0]


def unsigned_sat(i, n):
    return bv.unsigned_sat_q(i, n)[0]


def T(x):
    return bool(x)


def badreg(*r):
    return any(x in (13, 15) for x in r)


def any15(*r):
    return 15 in r


# ------------------------------------------------------------------------------------------------- multiplies
def flags_v4_unknown(st, mask):
    """ARMv4: C (and V for the long multiplies) are UNKNOWN after a flag-setting multiply.  The CPSR is one location,
    so it is marked don't-care as a whole; `cpsr_unknown_mask` tells a finer-grained consumer (C09) which bits are
    really UNKNOWN so that it can still compare the others."""
    if st.ver == 4:
        st.unknown.add("cpsr")
        st.cpsr_unknown_mask = mask


def sem_mul(st, o, f):
    result = s32(st.R(o["n"])) * s32(st.R(o["m"]))
    st.setR(o["d"], result & M32)
    if o["setflags"]:
        st.N = (result >> 31) & 1
        st.Z = int(result & M32 == 0)
        flags_v4_unknown(st, 1 << 29)


def sem_mla(st, o, f):
    result = s32(st.R(o["n"])) * s32(st.R(o["m"])) + s32(st.R(o["a"]))
    st.setR(o["d"], result & M32)
    if o["setflags"]:
        st.N = (result >> 31) & 1
        st.Z = int(result & M32 == 0)
        flags_v4_unknown(st, 1 << 29)


def sem_mls(st, o, f):
    result = s32(st.R(o["a"])) - s32(st.R(o["n"])) * s32(st.R(o["m"]))
    st.setR(o["d"], result & M32)


def sem_long(signed, accumulate):
    def sem(st, o, f):
        x, y = st.R(o["n"]), st.R(o["m"])
        if signed:
            result = s32(x) * s32(y)
        else:
            result = x * y
        if accumulate:
            acc = (st.R(o["d_hi"]) << 32) | st.R(o["d_lo"])
            result += bv.sint(acc, 64) if signed else acc
        result &= M64
        st.setR(o["d_hi"], result >> 32)
        st.setR(o["d_lo"], result & M32)
        if o["setflags"]:
            st.N = result >> 63
            st.Z = int(result == 0)
            flags_v4_unknown(st, 3 << 28)
    return sem


def sem_umaal(st, o, f):
    result = (st.R(o["n"]) * st.R(o["m"]) + st.R(o["d_hi"]) + st.R(o["d_lo"])) & M64
    st.setR(o["d_hi"], result >> 32)
    st.setR(o["d_lo"], result & M32)


def half(x, high):
    return s16(hi16(x) if high else lo16(x))


def core_xy(o, x, y):
    return half(x, o["n_high"]) * half(y, o["m_high"])


def core_wy(o, x, y):
    return s32(x) * half(y, o["m_high"])


def core_dual(sub):
    def core(o, x, y):
        op2 = ror32(y, 16) if o["m_swap"] else y
        p1 = s16(lo16(x)) * s16(lo16(op2))
        p2 = s16(hi16(x)) * s16(hi16(op2))
        return p1 - p2 if sub else p1 + p2
    return core


def sem_acc32(core, acc, overflow_q):
    """R[d] = (core + SInt(R[a]))<31:0>; Q set when the signed result does not fit (SMLA<x><y>, SMLAD, SMLSD, SMUAD)."""
    def sem(st, o, f):
        result = core(o, st.R(o["n"]), st.R(o["m"]))
        if acc:
            result += s32(st.R(o["a"]))
        st.setR(o["d"], result & M32)
        if overflow_q and result != s32(result & M32):
            st.Q = 1
    return sem


def sem_smlaw(st, o, f):
    result = core_wy(o, st.R(o["n"]), st.R(o["m"])) + (s32(st.R(o["a"])) << 16)
    rd = (result >> 16) & M32
    st.setR(o["d"], rd)
    if (result >> 16) != s32(rd):
        st.Q = 1


def sem_smulw(st, o, f):
    product = core_wy(o, st.R(o["n"]), st.R(o["m"]))
    st.setR(o["d"], (product >> 16) & M32)


def sem_acc64(core):
    def sem(st, o, f):
        acc = bv.sint((st.R(o["d_hi"]) << 32) | st.R(o["d_lo"]), 64)
        result = (core(o, st.R(o["n"]), st.R(o["m"])) + acc) & M64
        st.setR(o["d_hi"], result >> 32)
        st.setR(o["d_lo"], result & M32)
    return sem


def sem_smm(kind):
    def sem(st, o, f):
        prod = s32(st.R(o["n"])) * s32(st.R(o["m"]))
        if kind == "SMMUL":
            result = prod
        elif kind == "SMMLA":
            result = (s32(st.R(o["a"])) << 32) + prod
        else:
            result = (s32(st.R(o["a"])) << 32) - prod
        if o["round_"]:
            result += 0x80000000
        st.setR(o["d"], (result >> 32) & M32)
    return sem


def core_mul(o, x, y):
    return s32(x) * s32(y)


def core_umul(o, x, y):
    return (x & M32) * (y & M32)


# ------------------------------------------------------------------------------------------------- divide
def round_towards_zero_div(x, y):
    q = abs(x) // abs(y)
    return -q if (x < 0) != (y < 0) else q


def sem_div(signed):
    def sem(st, o, f):
        x, y = st.R(o["n"]), st.R(o["m"])
        if signed:
            x, y = s32(x), s32(y)
        if y == 0:
            # IntegerZeroDivideTrappingEnabled(): ARMv7-R profile with SCTLR.DZ (bit 19) set
            if st.cfg.get("is_armv7r_profile") and st.sctlr(19):
                raise ModelStop("undef")
            result = 0
        else:
            result = round_towards_zero_div(x, y)
        st.setR(o["d"], result & M32)
    return sem


# ------------------------------------------------------------------------------------------------- saturating
def sem_qaddsub(kind):
    def sem(st, o, f):
        x, y = s32(st.R(o["m"])), s32(st.R(o["n"]))
        sat1 = False
        if kind in ("QDADD", "QDSUB"):
            doubled, sat1 = bv.signed_sat_q(2 * y, 32)
            y = s32(doubled)
        if kind in ("QADD", "QDADD"):
            res, sat2 = bv.signed_sat_q(x + y, 32)
        else:
            res, sat2 = bv.signed_sat_q(x - y, 32)
        st.setR(o["d"], res)
        if sat1 or sat2:
            st.Q = 1
    return sem


def sem_sat(signed):
    def sem(st, o, f):
        operand = bv.shift(st.R(o["n"]), 32, o["shift_t"], o["shift_n"], st.C)
        n = o["saturate_to"]
        if signed:
            res, sat = bv.signed_sat_q(s32(operand), n)
            res = bv.sign_extend(res, n, 32)
        else:
            res, sat = bv.unsigned_sat_q(s32(operand), n)
        st.setR(o["d"], res & M32)
        if sat:
            st.Q = 1
    return sem


def sem_sat16(signed):
    def sem(st, o, f):
        x = st.R(o["n"])
        n = o["saturate_to"]
        out = 0
        anysat = False
        for k in (0, 1):
            lane = s16((x >> (16 * k)) & 0xFFFF)
            if signed:
                res, sat = bv.signed_sat_q(lane, n)
                res = bv.sign_extend(res, n, 16)
            else:
                res, sat = bv.unsigned_sat_q(lane, n)
            out |= (res & 0xFFFF) << (16 * k)
            anysat = anysat or sat
        st.setR(o["d"], out)
        if anysat:
            st.Q = 1
    return sem


# ------------------------------------------------------------------------------------------------- parallel add/sub
def sem_parallel(prefix, op):
    signed = prefix in ("S", "Q", "SH")

    def lane_results(x, y):
        """[(width, untruncated result, is_subtraction)] from the least significant lane upwards."""
        if op.endswith("8"):
            cv = s8 if signed else (lambda v: v & 0xFF)
            out = []
            for k in range(4):
                a, b = cv((x >> (8 * k)) & 0xFF), cv((y >> (8 * k)) & 0xFF)
                out.append((8, a - b, True) if op == "SUB8" else (8, a + b, False))
            return out
        cv = s16 if signed else (lambda v: v & 0xFFFF)
        nl, nh, ml, mh = cv(lo16(x)), cv(hi16(x)), cv(lo16(y)), cv(hi16(y))
        if op == "ADD16":
            return [(16, nl + ml, False), (16, nh + mh, False)]
        if op == "SUB16":
            return [(16, nl - ml, True), (16, nh - mh, True)]
        if op == "ASX":
            return [(16, nl - mh, True), (16, nh + ml, False)]
        if op == "SAX":
            return [(16, nl + mh, False), (16, nh - ml, True)]
        raise KeyError(op)

    def sem(st, o, f):
        lanes = lane_results(st.R(o["n"]), st.R(o["m"]))
        res = 0
        ge = 0
        pos = 0
        for w, r, is_sub in lanes:
            m = bv.mask(w)
            if prefix in ("S", "U"):
                v = r & m
                if signed or is_sub:
                    g = r >= 0
                else:
                    g = r >= (1 << w)
                if g:
                    ge |= (0b11 if w == 16 else 0b1) << (pos // 8)
            elif prefix == "Q":
                v = signed_sat(r, w)
            elif prefix == "UQ":
                v = unsigned_sat(r, w)
            else:                   # SH / UH: result<w:1>
                v = (r >> 1) & m
            res |= (v & m) << pos
            pos += w
        st.setR(o["d"], res)
        if prefix in ("S", "U"):
            st.GE = ge
    return sem


def sem_sel(st, o, f):
    x, y, ge = st.R(o["n"]), st.R(o["m"]), st.GE
    res = 0
    for k in range(4):
        src = x if (ge >> k) & 1 else y
        res |= src & (0xFF << (8 * k))
    st.setR(o["d"], res)


def sem_usad(acc):
    def sem(st, o, f):
        x, y = st.R(o["n"]), st.R(o["m"])
        total = 0
        for k in range(4):
            total += abs(((x >> (8 * k)) & 0xFF) - ((y >> (8 * k)) & 0xFF))
        if acc:
            total += st.R(o["a"])
        st.setR(o["d"], total & M32)
    return sem


# ------------------------------------------------------------------------------------------------- extend
def sem_extend(signed, kind, add):
    """kind: 'B' (byte), 'H' (halfword), 'B16' (two bytes -> two halfwords)."""
    def sem(st, o, f):
        rotated = ror32(st.R(o["m"]), o["rotation"])
        base = st.R(o["n"]) if add else 0
        if kind == "B":
            ext = bv.sign_extend(rotated & 0xFF, 8, 32) if signed else rotated & 0xFF
            res = (base + ext) & M32
        elif kind == "H":
            ext = bv.sign_extend(rotated & 0xFFFF, 16, 32) if signed else rotated & 0xFFFF
            res = (base + ext) & M32
        else:
            e0 = bv.sign_extend(rotated & 0xFF, 8, 16) if signed else rotated & 0xFF
            e1 = bv.sign_extend((rotated >> 16) & 0xFF, 8, 16) if signed else (rotated >> 16) & 0xFF
            res = ((lo16(base) + e0) & 0xFFFF) | (((hi16(base) + e1) & 0xFFFF) << 16)
        st.setR(o["d"], res)
    return sem


# ------------------------------------------------------------------------------------------------- bit field etc.
def sem_bfc(st, o, f):
    msb, lsb = o["msbit"], o["lsbit"]
    fieldmask = (bv.mask(msb - lsb + 1) << lsb) & M32
    st.setR(o["d"], st.R(o["d"]) & ~fieldmask & M32)


def sem_bfi(st, o, f):
    msb, lsb = o["msbit"], o["lsbit"]
    width = msb - lsb + 1
    fieldmask = (bv.mask(width) << lsb) & M32
    st.setR(o["d"], (st.R(o["d"]) & ~fieldmask & M32) | ((st.R(o["n"]) & bv.mask(width)) << lsb))


def sem_bfx(signed):
    def sem(st, o, f):
        lsb, width = o["lsbit"], o["widthminus1"] + 1
        field = (st.R(o["n"]) >> lsb) & bv.mask(width)
        st.setR(o["d"], bv.sign_extend(field, width, 32) if signed else field)
    return sem


def sem_pkh(st, o, f):
    operand2 = bv.shift(st.R(o["m"]), 32, o["shift_t"], o["shift_n"], st.C)
    x = st.R(o["n"])
    if o["tb_form"]:
        res = (x & 0xFFFF0000) | (operand2 & 0xFFFF)
    else:
        res = (operand2 & 0xFFFF0000) | (x & 0xFFFF)
    st.setR(o["d"], res)


def sem_rev(st, o, f):
    st.setR(o["d"], bv.big_endian_reverse(st.R(o["m"]), 4))


def sem_rev16(st, o, f):
    x = st.R(o["m"])
    st.setR(o["d"], ((x & 0x00FF00FF) << 8) | ((x >> 8) & 0x00FF00FF))


def sem_revsh(st, o, f):
    x = st.R(o["m"])
    st.setR(o["d"], (bv.sign_extend(x & 0xFF, 8, 24) << 8) | ((x >> 8) & 0xFF))


def sem_rbit(st, o, f):
    x = st.R(o["m"])
    r = 0
    for i in range(32):
        if (x >> i) & 1:
            r |= 1 << (31 - i)
    st.setR(o["d"], r)


def sem_clz(st, o, f):
    st.setR(o["d"], bv.count_leading_zero_bits(st.R(o["m"]), 32))


# ------------------------------------------------------------------------------------------------- operand builders
def ops_dnm(f, c):
    return {"d": f["d"], "n": f["n"], "m": f["m"]}


def ops_dnma(f, c):
    return {"d": f["d"], "n": f["n"], "m": f["m"], "a": f["a"]}


def ops_long(f, c):
    return {"d_hi": f["h"], "d_lo": f["l"], "n": f["n"], "m": f["m"]}


def plus(base, **extra):
    """operands = base(f, c) + per-field extras (name=letter -> bool(f[letter]) or name=callable(f, c))."""
    def ops(f, c):
        o = base(f, c)
        for k, v in extra.items():
            o[k] = v(f, c) if callable(v) else T(f[v])
        return o
    return ops


def sat_shift(f):
    t, n = bv.decode_imm_shift(f["H"] << 1, f["i"])
    return t, n


def add(cls, iset, pat, operands, sem, unp=None, guard=None, **info):
    ROWS.append(Row(cls, iset, pat, operands=operands, sem=sem, group=G, unpredictable=unp, guard=guard))
    d = {"reads": "nm", "acc": "", "sets": (), "uses_ge": False, "core": None, "accw": 0, "accsub": False}
    d.update(info)
    INFO[cls] = d


# ================================================================================================= ARM (A1)
def arm_rows():
    unp4 = lambda f, c: any15(f["d"], f["n"], f["m"], f["a"])
    unp3 = lambda f, c: any15(f["d"], f["n"], f["m"])
    unpl = lambda f, c: any15(f["h"], f["l"], f["n"], f["m"]) or f["h"] == f["l"]
    unpl_v = lambda f, c: unpl(f, c) or (c["ver"] < 6 and f["n"] in (f["h"], f["l"]))

    # ---- multiply and multiply accumulate (A5.2.5)
    add("MulA1", A32, "cccc0000000Sdddd----mmmm1001nnnn", plus(ops_dnm, setflags="S"), sem_mul,
        unp=lambda f, c: unp3(f, c) or (c["ver"] < 6 and f["d"] == f["n"]), sets=("NZ",), core=core_mul, accw=0)
    add("MlaA1", A32, "cccc0000001Sddddaaaammmm1001nnnn", plus(ops_dnma, setflags="S"), sem_mla,
        unp=lambda f, c: unp4(f, c) or (c["ver"] < 6 and f["d"] == f["n"]), acc="a", sets=("NZ",), core=core_mul, accw=32)
    add("UmaalA1", A32, "cccc00000100hhhhllllmmmm1001nnnn", ops_long, sem_umaal, unp=unpl, acc="hl", core=core_umul, accw=64)
    add("MlsA1", A32, "cccc00000110ddddaaaammmm1001nnnn", ops_dnma, sem_mls, unp=unp4, acc="a", core=core_mul, accw=32,
        accsub=True)
    for opc, cls, signed, accu in (("100", "UmullA1", False, False), ("101", "UmlalA1", False, True),
                                   ("110", "SmullA1", True, False), ("111", "SmlalA1", True, True)):
        add(cls, A32, "cccc0000%sShhhhllllmmmm1001nnnn" % opc, plus(ops_long, setflags="S"), sem_long(signed, accu),
            unp=unpl_v, acc="hl" if accu else "", sets=("NZ",), core=core_mul if signed else core_umul, accw=64)
    # ---- halfword multiply and multiply accumulate (A5.2.7)
    add("SmlaA1", A32, "cccc00010000ddddaaaammmm1MN0nnnn", plus(ops_dnma, n_high="N", m_high="M"),
        sem_acc32(core_xy, True, True), unp=unp4, acc="a", sets=("Q",), core=core_xy, accw=32)
    add("SmlawA1", A32, "cccc00010010ddddaaaammmm1M00nnnn", plus(ops_dnma, m_high="M"), sem_smlaw, unp=unp4, acc="a",
        sets=("Q",), core=core_wy, accw=48)
    add("SmulwA1", A32, "cccc00010010dddd----mmmm1M10nnnn", plus(ops_dnm, m_high="M"), sem_smulw, unp=unp3, core=core_wy)
    add("SmlalxyA1", A32, "cccc00010100hhhhllllmmmm1MN0nnnn", plus(ops_long, n_high="N", m_high="M"), sem_acc64(core_xy),
        unp=unpl, acc="hl", core=core_xy, accw=64)
    add("SmulA1", A32, "cccc00010110dddd----mmmm1MN0nnnn", plus(ops_dnm, n_high="N", m_high="M"),
        sem_acc32(core_xy, False, False), unp=unp3, core=core_xy)
    # ---- saturating addition and subtraction (A5.2.6)
    for opc, kind in (("00", "QADD"), ("01", "QSUB"), ("10", "QDADD"), ("11", "QDSUB")):
        add(kind.capitalize() + "A1", A32, "cccc00010%s0nnnndddd----0101mmmm" % opc, ops_dnm, sem_qaddsub(kind), unp=unp3,
            sets=("Q",))
    add("ClzA1", A32, "cccc00010110++++dddd++++0001mmmm", lambda f, c: {"d": f["d"], "m": f["m"]}, sem_clz,
        unp=lambda f, c: any15(f["d"], f["m"]), reads="m")
    # ---- signed multiply, signed and unsigned divide (A5.4.4)
    dual = lambda base: plus(base, m_swap="M")
    add("SmuadA1", A32, "cccc01110000dddd1111mmmm00M1nnnn", dual(ops_dnm), sem_acc32(core_dual(False), False, True), unp=unp3,
        sets=("Q",), core=core_dual(False))
    add("SmladA1", A32, "cccc01110000ddddaaaammmm00M1nnnn", dual(ops_dnma), sem_acc32(core_dual(False), True, True), unp=unp3,
        acc="a", sets=("Q",), core=core_dual(False), accw=32)
    add("SmusdA1", A32, "cccc01110000dddd1111mmmm01M1nnnn", dual(ops_dnm), sem_acc32(core_dual(True), False, False), unp=unp3,
        core=core_dual(True))
    add("SmlsdA1", A32, "cccc01110000ddddaaaammmm01M1nnnn", dual(ops_dnma), sem_acc32(core_dual(True), True, True), unp=unp3,
        acc="a", sets=("Q",), core=core_dual(True), accw=32)
    add("SdivA1", A32, "cccc01110001dddd++++mmmm0001nnnn", ops_dnm, sem_div(True), unp=unp3)
    add("UdivA1", A32, "cccc01110011dddd++++mmmm0001nnnn", ops_dnm, sem_div(False), unp=unp3)
    add("SmlaldA1", A32, "cccc01110100hhhhllllmmmm00M1nnnn", dual(ops_long), sem_acc64(core_dual(False)), unp=unpl, acc="hl",
        core=core_dual(False), accw=64)
    add("SmlsldA1", A32, "cccc01110100hhhhllllmmmm01M1nnnn", dual(ops_long), sem_acc64(core_dual(True)), unp=unpl, acc="hl",
        core=core_dual(True), accw=64)
    add("SmmulA1", A32, "cccc01110101dddd1111mmmm00R1nnnn", plus(ops_dnm, round_="R"), sem_smm("SMMUL"), unp=unp3, core=core_mul)
    add("SmmlaA1", A32, "cccc01110101ddddaaaammmm00R1nnnn", plus(ops_dnma, round_="R"), sem_smm("SMMLA"), unp=unp3, acc="a",
        core=core_mul, accw=0)
    add("SmmlsA1", A32, "cccc01110101ddddaaaammmm11R1nnnn", plus(ops_dnma, round_="R"), sem_smm("SMMLS"), unp=unp4, acc="a",
        core=core_mul, accw=0)
    # ---- parallel addition and subtraction (A5.4.1 / A5.4.2)
    for pbits, prefix in (("001", "S"), ("010", "Q"), ("011", "SH"), ("101", "U"), ("110", "UQ"), ("111", "UH")):
        for obits, op in (("000", "ADD16"), ("001", "ASX"), ("010", "SAX"), ("011", "SUB16"), ("100", "ADD8"), ("111", "SUB8")):
            add((prefix + op).capitalize() + "A1", A32, "cccc01100%snnnndddd++++%s1mmmm" % (pbits, obits), ops_dnm,
                sem_parallel(prefix, op), unp=unp3, sets=("GE",) if prefix in ("S", "U") else ())
    # ---- packing, unpacking, saturation and reversal (A5.4.3)
    add("PkhA1", A32, "cccc01101000nnnnddddiiiiiT01mmmm",
        lambda f, c: dict(d=f["d"], n=f["n"], m=f["m"], tb_form=T(f["T"]),
                          shift_t=bv.decode_imm_shift(f["T"] << 1, f["i"])[0], shift_n=bv.decode_imm_shift(f["T"] << 1, f["i"])[1]),
        sem_pkh, unp=unp3)
    add("SelA1", A32, "cccc01101000nnnndddd++++1011mmmm", ops_dnm, sem_sel, unp=unp3, uses_ge=True)
    dn_unp = lambda f, c: any15(f["d"], f["n"])
    add("SsatA1", A32, "cccc0110101sssssddddiiiiiH01nnnn",
        lambda f, c: dict(d=f["d"], n=f["n"], saturate_to=f["s"] + 1, shift_t=sat_shift(f)[0], shift_n=sat_shift(f)[1]),
        sem_sat(True), unp=dn_unp, reads="n", sets=("Q",))
    add("UsatA1", A32, "cccc0110111sssssddddiiiiiH01nnnn",
        lambda f, c: dict(d=f["d"], n=f["n"], saturate_to=f["s"], shift_t=sat_shift(f)[0], shift_n=sat_shift(f)[1]),
        sem_sat(False), unp=dn_unp, reads="n", sets=("Q",))
    add("Ssat16A1", A32, "cccc01101010ssssdddd++++0011nnnn", lambda f, c: dict(d=f["d"], n=f["n"], saturate_to=f["s"] + 1),
        sem_sat16(True), unp=dn_unp, reads="n", sets=("Q",))
    add("Usat16A1", A32, "cccc01101110ssssdddd++++0011nnnn", lambda f, c: dict(d=f["d"], n=f["n"], saturate_to=f["s"]),
        sem_sat16(False), unp=dn_unp, reads="n", sets=("Q",))
    dm = lambda f, c: {"d": f["d"], "m": f["m"]}
    dm_rot = lambda f, c: {"d": f["d"], "m": f["m"], "rotation": 8 * f["r"]}
    dnm_rot = lambda f, c: {"d": f["d"], "n": f["n"], "m": f["m"], "rotation": 8 * f["r"]}
    dm_unp = lambda f, c: any15(f["d"], f["m"])
    for opc, name, signed, kind in (("000", "Sxtab16", True, "B16"), ("010", "Sxtab", True, "B"), ("011", "Sxtah", True, "H"),
                                    ("100", "Uxtab16", False, "B16"), ("110", "Uxtab", False, "B"), ("111", "Uxtah", False, "H")):
        plain = name.replace("ta", "t")          # Sxtab16 -> Sxtb16, Sxtah -> Sxth ...
        add(plain + "A1", A32, "cccc01101%s1111ddddrr--0111mmmm" % opc, dm_rot, sem_extend(signed, kind, False), unp=dm_unp,
            reads="m")
        add(name + "A1", A32, "cccc01101%snnnnddddrr--0111mmmm" % opc, dnm_rot, sem_extend(signed, kind, True), unp=dm_unp)
    add("RevA1", A32, "cccc01101011++++dddd++++0011mmmm", dm, sem_rev, unp=dm_unp, reads="m")
    add("Rev16A1", A32, "cccc01101011++++dddd++++1011mmmm", dm, sem_rev16, unp=dm_unp, reads="m")
    add("RbitA1", A32, "cccc01101111++++dddd++++0011mmmm", dm, sem_rbit, unp=dm_unp, reads="m")
    add("RevshA1", A32, "cccc01101111++++dddd++++1011mmmm", dm, sem_revsh, unp=dm_unp, reads="m")
    # ---- USAD8 / USADA8, bit field (A5.4)
    add("Usad8A1", A32, "cccc01111000dddd1111mmmm0001nnnn", ops_dnm, sem_usad(False), unp=unp3)
    add("Usada8A1", A32, "cccc01111000ddddaaaammmm0001nnnn", ops_dnma, sem_usad(True), unp=unp3, acc="a")
    bfx_ops = lambda f, c: dict(d=f["d"], n=f["n"], lsbit=f["p"], widthminus1=f["w"])
    bfx_unp = lambda f, c: any15(f["d"], f["n"]) or f["p"] + f["w"] > 31
    add("SbfxA1", A32, "cccc0111101wwwwwddddppppp101nnnn", bfx_ops, sem_bfx(True), unp=bfx_unp, reads="n")
    add("UbfxA1", A32, "cccc0111111wwwwwddddppppp101nnnn", bfx_ops, sem_bfx(False), unp=bfx_unp, reads="n")
    add("BfcA1", A32, "cccc0111110bbbbbddddppppp0011111", lambda f, c: dict(d=f["d"], lsbit=f["p"], msbit=f["b"]), sem_bfc,
        unp=lambda f, c: f["d"] == 15 or f["b"] < f["p"], reads="d")
    add("BfiA1", A32, "cccc0111110bbbbbddddppppp001nnnn", lambda f, c: dict(d=f["d"], n=f["n"], lsbit=f["p"], msbit=f["b"]),
        sem_bfi, unp=lambda f, c: f["d"] == 15 or f["b"] < f["p"], reads="nd")


# ================================================================================================= Thumb 16-bit
def t16_rows():
    add("MulT1", T16, "0100001101nnnddd", lambda f, c: dict(d=f["d"], n=f["n"], m=f["d"], setflags=not c["in_it"]), sem_mul,
        unp=lambda f, c: c["ver"] < 6 and f["d"] == f["n"], reads="nd", sets=("NZ",), core=core_mul)
    dm0 = lambda f, c: {"d": f["d"], "m": f["m"], "rotation": 0}
    dm = lambda f, c: {"d": f["d"], "m": f["m"]}
    for opc, cls, signed, kind in (("00", "SxthT1", True, "H"), ("01", "SxtbT1", True, "B"), ("10", "UxthT1", False, "H"),
                                   ("11", "UxtbT1", False, "B")):
        add(cls, T16, "10110010%smmmddd" % opc, dm0, sem_extend(signed, kind, False), reads="m")
    add("RevT1", T16, "1011101000mmmddd", dm, sem_rev, reads="m")
    add("Rev16T1", T16, "1011101001mmmddd", dm, sem_rev16, reads="m")
    add("RevshT1", T16, "1011101011mmmddd", dm, sem_revsh, reads="m")


# ================================================================================================= Thumb 32-bit
def t32_rows():
    bad3 = lambda f, c: badreg(f["d"], f["n"], f["m"])
    bad3a = lambda f, c: badreg(f["d"], f["n"], f["m"]) or f["a"] == 13
    bad4 = lambda f, c: badreg(f["d"], f["n"], f["m"], f["a"])
    badl = lambda f, c: badreg(f["h"], f["l"], f["n"], f["m"]) or f["h"] == f["l"]
    # ---- multiply, multiply accumulate, and absolute difference (A6.3.16)
    mulp = "111110110%snnnn%sdddd%smmmm"
    noS = lambda base: plus(base, setflags=lambda f, c: False)
    add("MulT2", T32, mulp % ("000", "1111", "0000"), noS(ops_dnm), sem_mul, unp=bad3, sets=("NZ",), core=core_mul)
    add("MlaT1", T32, mulp % ("000", "aaaa", "0000"), noS(ops_dnma), sem_mla, unp=bad3a, acc="a", sets=("NZ",), core=core_mul,
        accw=32)
    add("MlsT1", T32, mulp % ("000", "aaaa", "0001"), ops_dnma, sem_mls, unp=bad4, acc="a", core=core_mul, accw=32, accsub=True)
    add("SmulT1", T32, mulp % ("001", "1111", "00NM"), plus(ops_dnm, n_high="N", m_high="M"), sem_acc32(core_xy, False, False),
        unp=bad3, core=core_xy)
    add("SmlaT1", T32, mulp % ("001", "aaaa", "00NM"), plus(ops_dnma, n_high="N", m_high="M"), sem_acc32(core_xy, True, True),
        unp=bad3a, acc="a", sets=("Q",), core=core_xy, accw=32)
    dual = lambda base: plus(base, m_swap="M")
    add("SmuadT1", T32, mulp % ("010", "1111", "000M"), dual(ops_dnm), sem_acc32(core_dual(False), False, True), unp=bad3,
        sets=("Q",), core=core_dual(False))
    add("SmladT1", T32, mulp % ("010", "aaaa", "000M"), dual(ops_dnma), sem_acc32(core_dual(False), True, True), unp=bad3a,
        acc="a", sets=("Q",), core=core_dual(False), accw=32)
    add("SmulwT1", T32, mulp % ("011", "1111", "000M"), plus(ops_dnm, m_high="M"), sem_smulw, unp=bad3, core=core_wy)
    add("SmlawT1", T32, mulp % ("011", "aaaa", "000M"), plus(ops_dnma, m_high="M"), sem_smlaw, unp=bad3a, acc="a", sets=("Q",),
        core=core_wy, accw=48)
    add("SmusdT1", T32, mulp % ("100", "1111", "000M"), dual(ops_dnm), sem_acc32(core_dual(True), False, False), unp=bad3,
        core=core_dual(True))
    add("SmlsdT1", T32, mulp % ("100", "aaaa", "000M"), dual(ops_dnma), sem_acc32(core_dual(True), True, True), unp=bad3a,
        acc="a", sets=("Q",), core=core_dual(True), accw=32)
    add("SmmulT1", T32, mulp % ("101", "1111", "000R"), plus(ops_dnm, round_="R"), sem_smm("SMMUL"), unp=bad3, core=core_mul)
    add("SmmlaT1", T32, mulp % ("101", "aaaa", "000R"), plus(ops_dnma, round_="R"), sem_smm("SMMLA"), unp=bad3a, acc="a",
        core=core_mul)
    add("SmmlsT1", T32, mulp % ("110", "aaaa", "000R"), plus(ops_dnma, round_="R"), sem_smm("SMMLS"), unp=bad4, acc="a",
        core=core_mul)
    add("Usad8T1", T32, mulp % ("111", "1111", "0000"), ops_dnm, sem_usad(False), unp=bad3)
    add("Usada8T1", T32, mulp % ("111", "aaaa", "0000"), ops_dnma, sem_usad(True), unp=bad3a, acc="a")
    # ---- long multiply, long multiply accumulate, and divide (A6.3.17)
    lp = "111110111%snnnnllllhhhh%smmmm"
    noSl = noS(ops_long)
    add("SmullT1", T32, lp % ("000", "0000"), noSl, sem_long(True, False), unp=badl, sets=("NZ",), core=core_mul, accw=64)
    add("SdivT1", T32, "111110111001nnnn++++dddd1111mmmm", ops_dnm, sem_div(True), unp=bad3)
    add("UmullT1", T32, lp % ("010", "0000"), noSl, sem_long(False, False), unp=badl, sets=("NZ",), core=core_umul, accw=64)
    add("UdivT1", T32, "111110111011nnnn++++dddd1111mmmm", ops_dnm, sem_div(False), unp=bad3)
    add("SmlalT1", T32, lp % ("100", "0000"), noSl, sem_long(True, True), unp=badl, acc="hl", sets=("NZ",), core=core_mul, accw=64)
    add("SmlalxyT1", T32, lp % ("100", "10NM"), plus(ops_long, n_high="N", m_high="M"), sem_acc64(core_xy), unp=badl, acc="hl",
        core=core_xy, accw=64)
    add("SmlaldT1", T32, lp % ("100", "110M"), dual(ops_long), sem_acc64(core_dual(False)), unp=badl, acc="hl",
        core=core_dual(False), accw=64)
    add("SmlsldT1", T32, lp % ("101", "110M"), dual(ops_long), sem_acc64(core_dual(True)), unp=badl, acc="hl",
        core=core_dual(True), accw=64)
    add("UmlalT1", T32, lp % ("110", "0000"), noSl, sem_long(False, True), unp=badl, acc="hl", sets=("NZ",), core=core_umul,
        accw=64)
    add("UmaalT1", T32, lp % ("110", "0110"), ops_long, sem_umaal, unp=badl, acc="hl", core=core_umul, accw=64)
    # ---- data-processing (register): extend / extend-and-add (A6.3.12)
    dm_rot = lambda f, c: {"d": f["d"], "m": f["m"], "rotation": 8 * f["r"]}
    dnm_rot = lambda f, c: {"d": f["d"], "n": f["n"], "m": f["m"], "rotation": 8 * f["r"]}
    for opc, name, signed, kind in (("000", "Sxtah", True, "H"), ("001", "Uxtah", False, "H"), ("010", "Sxtab16", True, "B16"),
                                    ("011", "Uxtab16", False, "B16"), ("100", "Sxtab", True, "B"), ("101", "Uxtab", False, "B")):
        plain = name.replace("ta", "t")
        pcls = plain + ("T1" if kind == "B16" else "T2")
        add(pcls, T32, "111110100%s11111111dddd1-rrmmmm" % opc, dm_rot, sem_extend(signed, kind, False),
            unp=lambda f, c: badreg(f["d"], f["m"]), reads="m")
        add(name + "T1", T32, "111110100%snnnn1111dddd1-rrmmmm" % opc, dnm_rot, sem_extend(signed, kind, True),
            unp=lambda f, c: badreg(f["d"], f["m"]) or f["n"] == 13)
    # ---- parallel addition and subtraction (A6.3.13 / A6.3.14)
    for obits, op in (("001", "ADD16"), ("010", "ASX"), ("110", "SAX"), ("101", "SUB16"), ("000", "ADD8"), ("100", "SUB8")):
        for pbits, prefix in (("000", "S"), ("001", "Q"), ("010", "SH"), ("100", "U"), ("101", "UQ"), ("110", "UH")):
            add((prefix + op).capitalize() + "T1", T32, "111110101%snnnn1111dddd0%smmmm" % (obits, pbits), ops_dnm,
                sem_parallel(prefix, op), unp=bad3, sets=("GE",) if prefix in ("S", "U") else ())
    # ---- miscellaneous operations (A6.3.15)
    for opc, kind in (("00", "QADD"), ("01", "QDADD"), ("10", "QSUB"), ("11", "QDSUB")):
        add(kind.capitalize() + "T1", T32, "111110101000nnnn1111dddd10%smmmm" % opc, ops_dnm, sem_qaddsub(kind), unp=bad3,
            sets=("Q",))
    dm = lambda f, c: {"d": f["d"], "m": f["m"]}
    # the Rm field appears twice (letter n = the copy in the first halfword): UNPREDICTABLE unless consistent
    dm_unp = lambda f, c: badreg(f["d"], f["m"]) or f["n"] != f["m"]
    add("RevT2", T32, "111110101001nnnn1111dddd1000mmmm", dm, sem_rev, unp=dm_unp, reads="m")
    add("Rev16T2", T32, "111110101001nnnn1111dddd1001mmmm", dm, sem_rev16, unp=dm_unp, reads="m")
    add("RbitT1", T32, "111110101001nnnn1111dddd1010mmmm", dm, sem_rbit, unp=dm_unp, reads="m")
    add("RevshT2", T32, "111110101001nnnn1111dddd1011mmmm", dm, sem_revsh, unp=dm_unp, reads="m")
    add("SelT1", T32, "111110101010nnnn1111dddd1000mmmm", ops_dnm, sem_sel, unp=bad3, uses_ge=True)
    add("ClzT1", T32, "111110101011nnnn1111dddd1000mmmm", dm, sem_clz, unp=dm_unp, reads="m")
    # ---- PKH (A6.3.11 data-processing (shifted register), S = 0 and T = 0; S = 1 or T = 1 is UNDEFINED: not a row here)
    add("PkhT1", T32, "111010101100nnnn-iiiddddiiT0mmmm",
        lambda f, c: dict(d=f["d"], n=f["n"], m=f["m"], tb_form=T(f["T"]),
                          shift_t=bv.decode_imm_shift(f["T"] << 1, f["i"])[0], shift_n=bv.decode_imm_shift(f["T"] << 1, f["i"])[1]),
        sem_pkh, unp=bad3)
    # ---- data-processing (plain binary immediate): saturate and bit field (A6.3.3)
    dn_unp = lambda f, c: badreg(f["d"], f["n"])
    add("Ssat16T1", T32, "11110-110010nnnn0000dddd00--ssss", lambda f, c: dict(d=f["d"], n=f["n"], saturate_to=f["s"] + 1),
        sem_sat16(True), unp=dn_unp, reads="n", sets=("Q",))
    add("SsatT1", T32, "11110-1100H0nnnn0iiiddddii-sssss",
        lambda f, c: dict(d=f["d"], n=f["n"], saturate_to=f["s"] + 1, shift_t=sat_shift(f)[0], shift_n=sat_shift(f)[1]),
        sem_sat(True), unp=dn_unp, reads="n", sets=("Q",))
    add("Usat16T1", T32, "11110-111010nnnn0000dddd00--ssss", lambda f, c: dict(d=f["d"], n=f["n"], saturate_to=f["s"]),
        sem_sat16(False), unp=dn_unp, reads="n", sets=("Q",))
    add("UsatT1", T32, "11110-1110H0nnnn0iiiddddii-sssss",
        lambda f, c: dict(d=f["d"], n=f["n"], saturate_to=f["s"], shift_t=sat_shift(f)[0], shift_n=sat_shift(f)[1]),
        sem_sat(False), unp=dn_unp, reads="n", sets=("Q",))
    bfx_ops = lambda f, c: dict(d=f["d"], n=f["n"], lsbit=f["p"], widthminus1=f["w"])
    bfx_unp = lambda f, c: badreg(f["d"], f["n"]) or f["p"] + f["w"] > 31
    add("SbfxT1", T32, "11110-110100nnnn0pppddddpp-wwwww", bfx_ops, sem_bfx(True), unp=bfx_unp, reads="n")
    add("UbfxT1", T32, "11110-111100nnnn0pppddddpp-wwwww", bfx_ops, sem_bfx(False), unp=bfx_unp, reads="n")
    add("BfcT1", T32, "11110-11011011110pppddddpp-bbbbb", lambda f, c: dict(d=f["d"], lsbit=f["p"], msbit=f["b"]), sem_bfc,
        unp=lambda f, c: badreg(f["d"]) or f["b"] < f["p"], reads="d")
    add("BfiT1", T32, "11110-110110nnnn0pppddddpp-bbbbb", lambda f, c: dict(d=f["d"], n=f["n"], lsbit=f["p"], msbit=f["b"]),
        sem_bfi, unp=lambda f, c: badreg(f["d"]) or f["n"] == 13 or f["b"] < f["p"], reads="nd")


arm_rows()
t16_rows()
t32_rows()
