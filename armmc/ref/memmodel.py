"""Reference for MemA / MemU (ARM ARM B2.4.4 / B2.4.5 "Aligned / unaligned memory access") over a flat byte map.

`mem` is an object with rd(addr)->byte and wr(addr, byte); addresses are reduced modulo 2^32 by the caller's
architecture (bits(32) arithmetic), which this model does explicitly."""
from . import bv

FAULT = "alignment-fault"
M32 = 0xFFFFFFFF


class Flat:
    """List of (begin, end, bytearray), first match; unmapped reads give 0, unmapped writes are ignored."""

    def __init__(self, devices):
        self.devs = [[b, e, bytearray(d)] for b, e, d in devices]

    def _find(self, a):
        for d in self.devs:
            if d[0] <= a < d[1]:
                return d
        return None

    def rd(self, a):
        d = self._find(a)
        return d[2][a - d[0]] if d is not None else 0

    def wr(self, a, v):
        d = self._find(a)
        if d is not None:
            d[2][a - d[0]] = v & 0xFF

    def snapshot(self):
        return tuple((b, e, bytes(d)) for b, e, d in self.devs)


def _rd(mem, a, size):
    return sum(mem.rd((a + i) & M32) << (8 * i) for i in range(size))


def _wr(mem, a, size, v):
    for i in range(size):
        mem.wr((a + i) & M32, (v >> (8 * i)) & 0xFF)


def mem_a_get(mem, addr, size, E, A, U, ver):
    if addr % size == 0:
        va = addr
    elif ver >= 7 or A or U:
        return FAULT
    else:
        va = bv.align(addr, size)
    v = _rd(mem, va, size)
    return bv.big_endian_reverse(v, size) if E else v


def mem_a_set(mem, addr, size, value, E, A, U, ver):
    if addr % size == 0:
        va = addr
    elif ver >= 7 or A or U:
        return FAULT
    else:
        va = bv.align(addr, size)
    _wr(mem, va, size, bv.big_endian_reverse(value, size) if E else value)
    return None


def mem_u_get(mem, addr, size, E, A, U, ver):
    if ver < 7 and not A and not U:
        addr = bv.align(addr, size)
    if addr % size == 0:
        return mem_a_get(mem, addr, size, E, A, U, ver)
    if A:
        return FAULT
    v = 0
    for i in range(size):
        v |= mem.rd((addr + i) & M32) << (8 * i)
    return bv.big_endian_reverse(v, size) if E else v


def mem_u_set(mem, addr, size, value, E, A, U, ver):
    if ver < 7 and not A and not U:
        addr = bv.align(addr, size)
    if addr % size == 0:
        return mem_a_set(mem, addr, size, value, E, A, U, ver)
    if A:
        return FAULT
    if E:
        value = bv.big_endian_reverse(value, size)
    for i in range(size):
        mem.wr((addr + i) & M32, (value >> (8 * i)) & 0xFF)
    return None
