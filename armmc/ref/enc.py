"""Encoding-table DSL (DESIGN 2.4).  One Row per encoding, transcribed from the ARM ARM encoding diagrams.

pattern: 16 or 32 characters, MSB first.  '0'/'1' fixed bits; a letter names a field (all occurrences of the letter,
MSB first, concatenated); 'x' = any; '-' = should-be-zero, '+' = should-be-one (UNPREDICTABLE when violated).
Rows of one instruction set are matched IN ORDER (special cases are listed before the general encoding they are
carved out of - the manual's "SEE ..." lines); `guard(f)` may decline a match.

operands(f, ctx) -> {attribute: value} : the operand attributes the implementation's decoded object must carry.
unpredictable(f, ctx) -> bool ; undefined(f, ctx) -> bool ; sem(st, ops, f) : reference semantics on ref.state.St.
ctx: {"ver": arch version, "in_it": bool, "last_it": bool, "C": carry flag}."""
A32, T16, T32 = "A32", "T16", "T32"
WIDTH = {A32: 32, T16: 16, T32: 32}


class Row:
    __slots__ = ("cls", "iset", "pat", "mask", "value", "fields", "sbz", "sbo", "guard", "operands", "unpredictable",
                 "undefined", "sem", "group", "notimpl", "width", "cond", "alt", "nocompare")

    def __init__(self, cls, iset, pat, operands=None, sem=None, group=None, guard=None, unpredictable=None,
                 undefined=None, notimpl=False, alt=(), nocompare=()):
        pat = pat.replace(" ", "")
        w = WIDTH[iset]
        assert len(pat) == w, (cls, len(pat))
        self.cls = cls
        self.iset = iset
        self.pat = pat
        self.width = w
        self.mask = self.value = self.sbz = self.sbo = 0
        fields = {}
        for i, ch in enumerate(pat):
            b = w - 1 - i
            if ch in "01":
                self.mask |= 1 << b
                self.value |= int(ch) << b
            elif ch == "-":
                self.sbz |= 1 << b
            elif ch == "+":
                self.sbo |= 1 << b
            elif ch != "x":
                fields.setdefault(ch, []).append(b)
        self.fields = fields          # letter -> bit positions, MSB first
        self.guard = guard
        self.operands = operands
        self.unpredictable = unpredictable
        self.undefined = undefined
        self.sem = sem
        self.group = group
        self.notimpl = notimpl
        self.nocompare = tuple(nocompare)   # operand attributes the model needs but decode checks do not compare
        self.alt = tuple(alt)      # other classes an implementation may legitimately choose where the manual is ambiguous
        self.cond = "c" in fields and iset == A32

    def matches(self, w):
        return (w & self.mask) == self.value

    def extract(self, w):
        f = {}
        if isinstance(w, int):
            for k, pos in self.fields.items():
                v = 0
                for b in pos:
                    v = (v << 1) | ((w >> b) & 1)
                f[k] = v
        else:
            from ..lazyword import field
            for k, pos in self.fields.items():
                f[k] = field(w, pos)
        return f

    def should_be_ok(self, w):
        return (w & self.sbz) == 0 and (w & self.sbo) == self.sbo

    def make(self, **fv):
        """Instruction word for the given field values (should-be bits at their required values, x bits 0)."""
        w = self.value | self.sbo
        for k, v in fv.items():
            pos = self.fields[k]
            assert 0 <= v < (1 << len(pos)), (self.cls, k, v)
            for i, b in enumerate(reversed(pos)):
                if (v >> i) & 1:
                    w |= 1 << b
        return w

    def field_width(self, k):
        return len(self.fields[k])


class Table:
    def __init__(self):
        self.rows = {A32: [], T16: [], T32: []}

    def add(self, *rows):
        for r in rows:
            self.rows[r.iset].append(r)

    def lookup(self, iset, w):
        """(row, fields) of the first row whose fixed bits match and whose guard accepts; None if unallocated."""
        uncond = iset == A32 and (w >> 28) == 0xF
        for r in self.rows[iset]:
            if (w & r.mask) == r.value:
                if r.cond and uncond:
                    continue          # cond = 1111 is the unconditional-instruction space
                f = r.extract(w)
                if r.guard is None or r.guard(f):
                    return r, f
        return None

    def by_cls(self, cls):
        for rows in self.rows.values():
            for r in rows:
                if r.cls == cls:
                    return r
        raise KeyError(cls)

    def group(self, g):
        return [r for rows in self.rows.values() for r in rows if r.group == g]
