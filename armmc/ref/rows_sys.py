"""Encoding rows + reference semantics for the system group: MSR / MRS / CPS / SETEND, exception returns (SUBS PC, LR
and ERET), SVC / SMC / UDF / BKPT, hints, barriers, preloads, coprocessor instructions, IT, ENTERX/LEAVEX.
Transcribed from ARM ARM A8.8 / B9.3 encoding diagrams and pseudocode."""
from . import bv
from .enc import Row, A32, T16, T32
from .state import Unpredictable, ModelStop, USR, FIQ, IRQ, SVC, MON, ABT, HYP, UND, SYS
from .rows_block import cpsr_write_by_instr, bad_mode, exception_return_branch
from .rows_dp import alu

G = "sys"
M32 = 0xFFFFFFFF


def T(x):
    return bool(x)


def hook(name):
    def sem(st, o, f):
        raise ModelStop("notimpl", hook=name)
    return sem


# ------------------------------------------------------------------------------------------------- semantics
def spsr_write_by_instr(st, value, bytemask):
    """SPSRWriteByInstr (B1.3.3)."""
    if st.M in (USR, SYS):
        raise Unpredictable("SPSR write in User/System mode")
    s = st.spsr()

    def copy(hi, lo):
        nonlocal s
        m = bv.mask(hi - lo + 1) << lo
        s = (s & ~m) | (value & m)
    if bytemask & 8:
        copy(31, 24)
    if bytemask & 4:
        copy(19, 16)
    if bytemask & 2:
        copy(15, 8)
    if bytemask & 1:
        copy(7, 5)
        if bad_mode(st, value & 0x1F):
            raise Unpredictable("SPSR write: bad mode")
        copy(4, 0)
    st.set_spsr(s)


def sem_msr_app(st, o, f):
    v = o["imm32"] if "imm32" in o else st.R(o["n"])
    if o["write_nzcvq"]:
        st.cpsr = (st.cpsr & ~(0x1F << 27)) | (v & (0x1F << 27))
    if o["write_g"]:
        st.GE = bv.bits(v, 19, 16)


def sem_msr_sys(st, o, f):
    v = o["imm32"] if "imm32" in o else st.R(o["n"])
    if o["write_spsr"]:
        spsr_write_by_instr(st, v, o["mask"])
    else:
        cpsr_write_by_instr(st, v, o["mask"], False)
        st.it_written = False
        if st.M == HYP and st.J and st.T:
            raise Unpredictable("ThumbEE in Hyp")


CPSR_READ_MASK = 0b11111000111111110000001111011111


def sem_mrs_cpsr(st, o, f):
    """MRS Rd, CPSR (the application-level and system-level descriptions share the encoding; B9.3.8)."""
    d = o["d"]
    st.setR(d, st.cpsr & CPSR_READ_MASK)
    if st.M == USR:
        from .state import phys
        st.unknown_bits[phys(d, USR)] = 0x3DF       # M<4:0>, E A I F <9:6> UNKNOWN in User mode


def sem_mrs_sys(st, o, f):
    if o["read_spsr"]:
        if st.M in (USR, SYS):
            raise Unpredictable("SPSR read in User/System")
        st.setR(o["d"], st.spsr())
    else:
        sem_mrs_cpsr(st, o, f)


def sem_cps(st, o, f):
    if st.M == USR:
        return
    v = st.cpsr
    if o["enable"]:
        if o["affect_a"]:
            v &= ~(1 << 8)
        if o["affect_i"]:
            v &= ~(1 << 7)
        if o["affect_f"]:
            v &= ~(1 << 6)
    if o["disable"]:
        if o["affect_a"]:
            v |= 1 << 8
        if o["affect_i"]:
            v |= 1 << 7
        if o["affect_f"]:
            v |= 1 << 6
    if o["change_mode"]:
        v = (v & ~0x1F) | o.get("mode", 0)
    cpsr_write_by_instr(st, v, 0b1111, False)
    st.it_written = False
    if st.M == HYP and st.J and st.T:
        raise Unpredictable("ThumbEE in Hyp")


def sem_setend(st, o, f):
    st.E = int(o["set_bigend"])


def sem_svc(st, o, f):
    raise ModelStop("svc")


def sem_udf(st, o, f):
    raise ModelStop("undef")


def sem_smc(st, o, f):
    if st.cfg.get("have_security_ext") and st.M != USR:
        if st.cfg.get("have_virt_ext") and not st.secure() and st.M != HYP and bv.bit(st.loc["hcr"], 19):
            raise ModelStop("hyptrap")
        if bv.bit(st.loc["scr"], 7):          # SCR.SCD: SMC disabled
            if st.secure():
                raise Unpredictable("SMC with SCR.SCD=1 in Secure state")
            raise ModelStop("undef")
        raise ModelStop("smc")
    raise ModelStop("undef")


def sem_nop(st, o, f):
    pass


def sem_wfe(st, o, f):
    if st.loc["event_register"]:
        st.loc["event_register"] = False
    else:
        if st.cfg.get("have_virt_ext") and not st.secure() and st.M != HYP and bv.bit(st.loc["hcr"], 14):
            raise ModelStop("hyptrap")
        st.loc["cpu.is_wait_for_event"] = True


def sem_wfi(st, o, f):
    if st.cfg.get("have_virt_ext") and not st.secure() and st.M != HYP and bv.bit(st.loc["hcr"], 13):
        raise ModelStop("hyptrap")
    st.loc["cpu.is_wait_for_interrupt"] = True


def sem_it(st, o, f):
    st.IT = (o["firstcond"] << 4) | o["mask"]
    st.it_written = True


def sem_subs_pc_lr_arm(st, o, f):
    if st.M == HYP:
        raise ModelStop("undef")
    if st.M in (USR, SYS):
        raise Unpredictable("exception return in User/System")
    if o["register_form"]:
        op2 = bv.shift(st.R(o["m"]), 32, o["shift_t"], o["shift_n"], st.C)
    else:
        op2 = o["imm32"]
    kind = {0b0000: "AND", 0b0001: "EOR", 0b0010: "SUB", 0b0011: "RSB", 0b0100: "ADD", 0b0101: "ADC", 0b0110: "SBC",
            0b0111: "RSC", 0b1100: "ORR", 0b1101: "MOV", 0b1110: "BIC", 0b1111: "MVN"}.get(o["opcode"])
    if kind is None:
        raise Unpredictable("SUBS PC,LR with a compare opcode")
    res = alu(kind, st.R(o["n"]) if kind not in ("MOV", "MVN") else 0, op2, st.C)[0]
    cpsr_write_by_instr(st, st.spsr(), 0b1111, True)
    exception_return_branch(st, res)


def sem_subs_pc_lr_thumb(st, o, f):
    if st.M == HYP:
        raise ModelStop("undef")
    if st.M in (USR, SYS):
        raise Unpredictable("exception return in User/System")
    res = bv.add_with_carry(st.R(o["n"]), o["imm32"] ^ M32, 1)[0]
    cpsr_write_by_instr(st, st.spsr(), 0b1111, True)
    exception_return_branch(st, res)


def sem_eret(st, o, f):
    if st.M in (USR, SYS):
        raise Unpredictable("ERET in User/System")
    new_pc = st.loc["elr_hyp"] if st.M == HYP else st.R(14)
    cpsr_write_by_instr(st, st.spsr(), 0b1111, True)
    exception_return_branch(st, new_pc)


# ------------------------------------------------------------------------------------------------- rows
def arm_rows():
    R = []
    # hints (MSR immediate with mask 0000, R = 0)
    for op2, cls, sem in ((0, "NopA1", sem_nop), (1, "YieldA1", hook("hint_yield")), (2, "WfeA1", sem_wfe),
                          (3, "WfiA1", sem_wfi), (4, "SevA1", hook("send_event"))):
        R.append(Row(cls, A32, "cccc001100100000++++----%s" % format(op2, "08b"), operands=lambda f, c: {}, sem=sem, group=G))
    R.append(Row("DBG", A32, "cccc001100100000++++----1111xxxx", notimpl=True, group=G))
    R.append(Row("NopA1", A32, "cccc001100100000++++----xxxxxxxx", operands=lambda f, c: {}, sem=sem_nop, group=G))   # unallocated hints
    R.append(Row("MsrImmediateApplicationA1", A32, "cccc00110010mm00++++iiiiiiiiiiii", guard=lambda f: f["m"] != 0,
                 operands=lambda f, c: dict(write_nzcvq=T(f["m"] & 2), write_g=T(f["m"] & 1),
                                            imm32=bv.arm_expand_imm_c(f["i"], 0)[0]), sem=sem_msr_app, group=G))
    R.append(Row("MsrImmediateSystemA1", A32, "cccc00110R10mmmm++++iiiiiiiiiiii",
                 guard=lambda f: f["R"] == 1 or f["m"] & 3,
                 operands=lambda f, c: dict(write_spsr=T(f["R"]), mask=f["m"], imm32=bv.arm_expand_imm_c(f["i"], 0)[0]),
                 unpredictable=lambda f, c: f["m"] == 0, sem=sem_msr_sys, group=G))
    # miscellaneous instructions cccc 0001 0xx0 .... 0xxx
    R.append(Row("MRS (banked)", A32, "cccc00010x00xxxxxxxxxx1x0000xxxx", notimpl=True, group=G))
    R.append(Row("MSR (banked)", A32, "cccc00010x10xxxxxxxxxx1x0000xxxx", notimpl=True, group=G))
    R.append(Row("MrsApplicationA1", A32, "cccc00010000++++dddd--0-0000----", operands=lambda f, c: dict(d=f["d"]),
                 unpredictable=lambda f, c: f["d"] == 15, sem=sem_mrs_cpsr, group=G))
    R.append(Row("MrsSystemA1", A32, "cccc00010100++++dddd--0-0000----", operands=lambda f, c: dict(d=f["d"], read_spsr=True),
                 unpredictable=lambda f, c: f["d"] == 15, sem=sem_mrs_sys, group=G))
    R.append(Row("MsrRegisterApplicationA1", A32, "cccc00010010mm00++++--0-0000nnnn", guard=lambda f: f["m"] != 0,
                 operands=lambda f, c: dict(n=f["n"], write_nzcvq=T(f["m"] & 2), write_g=T(f["m"] & 1)),
                 unpredictable=lambda f, c: f["n"] == 15, sem=sem_msr_app, group=G))
    R.append(Row("MsrRegisterSystemA1", A32, "cccc00010R10mmmm++++--0-0000nnnn",
                 guard=lambda f: f["R"] == 1 or f["m"] & 3,
                 operands=lambda f, c: dict(n=f["n"], write_spsr=T(f["R"]), mask=f["m"]),
                 unpredictable=lambda f, c: f["m"] == 0 or f["n"] == 15, sem=sem_msr_sys, group=G))
    R.append(Row("BkptA1", A32, "cccc00010010iiiiiiiiiiii0111iiii", operands=lambda f, c: {},
                 unpredictable=lambda f, c: f["c"] != 0xE, sem=hook("bkpt_instr_debug_event"), group=G))
    R.append(Row("HVC", A32, "cccc00010100xxxxxxxxxxxx0111xxxx", notimpl=True, group=G))
    R.append(Row("SmcA1", A32, "cccc00010110------------0111iiii", operands=lambda f, c: {}, sem=sem_smc, group=G))
    R.append(Row("ERET (ARM)", A32, "cccc00010110xxxxxxxxxxxx0110xxxx", notimpl=True, group=G))
    # exception return forms of the data-processing instructions: Rd = PC with S = 1
    for opc in (0b0000, 0b0001, 0b0010, 0b0011, 0b0100, 0b0101, 0b0110, 0b0111, 0b1100, 0b1101, 0b1110, 0b1111):
        o4 = format(opc, "04b")
        R.append(Row("SubsPcLrArmA1", A32, "cccc001%s1nnnn1111iiiiiiiiiiii" % o4,
                     operands=(lambda opc: lambda f, c: dict(register_form=False, n=f["n"], opcode=opc,
                                                             imm32=bv.arm_expand_imm_c(f["i"], 0)[0]))(opc),
                     # ADDS/SUBS PC, PC, #imm: decode table A5-4 reads Rn=1111 as ADR for both values of S (see rows_dp)
                     unpredictable=(lambda f, c: f["n"] == 15) if opc in (0b0100, 0b0010) else None,
                     alt=("AdrA1", "AdrA2") if opc in (0b0100, 0b0010) else (),
                     sem=sem_subs_pc_lr_arm, group=G))
        R.append(Row("SubsPcLrArmA2", A32, "cccc000%s1nnnn1111iiiiitt0mmmm" % o4,
                     operands=(lambda opc: lambda f, c: dict(register_form=True, n=f["n"], m=f["m"], opcode=opc,
                                                             shift_t=bv.decode_imm_shift(f["t"], f["i"])[0],
                                                             shift_n=bv.decode_imm_shift(f["t"], f["i"])[1]))(opc),
                     sem=sem_subs_pc_lr_arm, group=G))
    R.append(Row("SvcA1", A32, "cccc1111iiiiiiiiiiiiiiiiiiiiiiii", operands=lambda f, c: dict(imm32=f["i"]), sem=sem_svc, group=G))
    R.append(Row("UdfA1", A32, "111001111111iiiiiiiiiiii1111iiii", operands=lambda f, c: {}, sem=sem_udf, group=G))
    # unconditional space
    R.append(Row("CpsArmA1", A32, "111100010000iiM0-------AIF0mmmmm",
                 operands=lambda f, c: dict(affect_a=T(f["A"]), affect_i=T(f["I"]), affect_f=T(f["F"]), enable=f["i"] == 2,
                                            disable=f["i"] == 3, change_mode=T(f["M"]), mode=f["m"]),
                 unpredictable=lambda f, c: (f["m"] != 0 and not f["M"]) or (f["i"] & 2 and not (f["A"] or f["I"] or f["F"])) or
                 (not f["i"] & 2 and (f["A"] or f["I"] or f["F"])) or (f["i"] == 0 and not f["M"]) or f["i"] == 1,
                 sem=sem_cps, group=G))
    R.append(Row("SetendA1", A32, "111100010000---1------E-0000----", operands=lambda f, c: dict(set_bigend=T(f["E"])),
                 sem=sem_setend, group=G))
    R.append(Row("ClrexA1", A32, "111101010111++++++++----0001++++", operands=lambda f, c: {}, sem=sem_nop, group=G))
    R.append(Row("DsbA1", A32, "111101010111++++++++----0100oooo", operands=lambda f, c: dict(option=f["o"]),
                 sem=hook("data_synchronization_barrier"), group=G))
    R.append(Row("DMB", A32, "111101010111++++++++----0101oooo", notimpl=True, group=G))
    R.append(Row("IsbA1", A32, "111101010111++++++++----0110oooo", operands=lambda f, c: {},
                 sem=hook("instruction_synchronization_barrier"), group=G))
    # preloads
    R.append(Row("PldLiteralA1", A32, "11110101U+011111++++iiiiiiiiiiii", operands=lambda f, c: dict(add=T(f["U"]), imm32=f["i"]),
                 sem=hook("hint_preload_data"), group=G))
    R.append(Row("PLDW (imm, MP extension)", A32, "11110101x001xxxxxxxxxxxxxxxxxxxx", notimpl=True, group=G))
    R.append(Row("PLDW (reg, MP extension)", A32, "11110111x001xxxxxxxxxxxxxxx0xxxx", notimpl=True, group=G))
    R.append(Row("PldImmediateA1", A32, "11110101UR01nnnn++++iiiiiiiiiiii",
                 operands=lambda f, c: dict(add=T(f["U"]), is_pldw=f["R"] == 0, n=f["n"], imm32=f["i"]),
                 sem=hook("hint_preload_data"), group=G))
    R.append(Row("PldRegisterA1", A32, "11110111UR01nnnn++++iiiiitt0mmmm",
                 operands=lambda f, c: dict(add=T(f["U"]), is_pldw=f["R"] == 0, n=f["n"], m=f["m"],
                                            shift_t=bv.decode_imm_shift(f["t"], f["i"])[0],
                                            shift_n=bv.decode_imm_shift(f["t"], f["i"])[1]),
                 unpredictable=lambda f, c: f["m"] == 15 or (f["n"] == 15 and f["R"] == 0), sem=hook("hint_preload_data"), group=G))
    R.append(Row("PLI (imm/lit)", A32, "11110100x101xxxxxxxxxxxxxxxxxxxx", notimpl=True, group=G))
    R.append(Row("PLI (reg)", A32, "11110110x101xxxxxxxxxxxxxxx0xxxx", notimpl=True, group=G))
    # coprocessor (coproc field != 101x: those are Advanced SIMD / VFP)
    notvfp = lambda f: (f["p"] >> 1) != 0b101
    for cond, sfx in (("cccc", "A1"), ("1111", "A2")):
        R.append(Row("McrrMcrr2" + sfx, A32, cond + "11000100uuuuttttppppoooommmm", guard=notvfp,
                     operands=lambda f, c: dict(cp=f["p"], t=f["t"], t2=f["u"]),
                     unpredictable=lambda f, c: 15 in (f["t"], f["u"]), sem=None, group=G))
        R.append(Row("MrrcMrrc2" + sfx, A32, cond + "11000101uuuuttttppppoooommmm", guard=notvfp,
                     operands=lambda f, c: dict(cp=f["p"], t=f["t"], t2=f["u"]),
                     unpredictable=lambda f, c: 15 in (f["t"], f["u"]) or f["t"] == f["u"], sem=None, group=G))
        R.append(Row("LdcLdc2Literal" + sfx, A32, cond + "110PUDW11111ddddppppiiiiiiii",
                     guard=lambda f: notvfp(f) and (f["P"] or f["U"] or f["W"]),
                     operands=lambda f, c: dict(cp=f["p"], add=T(f["U"]), index=T(f["P"]), imm32=f["i"] << 2),
                     unpredictable=lambda f, c: f["W"] == 1 or (f["P"] == 0 and c.get("thumb")), sem=None, group=G))
        R.append(Row("LdcLdc2Immediate" + sfx, A32, cond + "110PUDW1nnnnddddppppiiiiiiii",
                     guard=lambda f: notvfp(f) and (f["P"] or f["U"] or f["W"]),
                     operands=lambda f, c: dict(cp=f["p"], add=T(f["U"]), index=T(f["P"]), wback=T(f["W"]), n=f["n"],
                                                imm32=f["i"] << 2), sem=None, group=G))
        R.append(Row("StcStc2" + sfx, A32, cond + "110PUDW0nnnnddddppppiiiiiiii",
                     guard=lambda f: notvfp(f) and (f["P"] or f["U"] or f["W"]),
                     operands=lambda f, c: dict(cp=f["p"], add=T(f["U"]), index=T(f["P"]), wback=T(f["W"]), n=f["n"],
                                                imm32=f["i"] << 2),
                     unpredictable=lambda f, c: f["n"] == 15 and f["W"] == 1, sem=None, group=G))
        R.append(Row("CdpCdp2" + sfx, A32, cond + "1110oooonnnnddddppppqqq0mmmm", guard=notvfp,
                     operands=lambda f, c: dict(cp=f["p"]), sem=None, group=G))
        R.append(Row("McrMcr2" + sfx, A32, cond + "1110ooo0nnnnttttppppqqq1mmmm", guard=notvfp,
                     operands=lambda f, c: dict(cp=f["p"], t=f["t"]), unpredictable=lambda f, c: f["t"] in (13, 15), sem=None, group=G))
        R.append(Row("MrcMrc2" + sfx, A32, cond + "1110ooo1nnnnttttppppqqq1mmmm", guard=notvfp,
                     operands=lambda f, c: dict(cp=f["p"], t=f["t"]), unpredictable=lambda f, c: f["t"] == 13, sem=None, group=G))
    return R


def t16_rows():
    R = []
    R.append(Row("SetendT1", T16, "10110110010+E---", operands=lambda f, c: dict(set_bigend=T(f["E"])),
                 unpredictable=lambda f, c: c["in_it"], sem=sem_setend, group=G))
    R.append(Row("CpsThumbT1", T16, "10110110011m-AIF",
                 operands=lambda f, c: dict(affect_a=T(f["A"]), affect_i=T(f["I"]), affect_f=T(f["F"]), enable=f["m"] == 0,
                                            disable=f["m"] == 1, change_mode=False),
                 unpredictable=lambda f, c: (f["A"] | f["I"] | f["F"]) == 0 or c["in_it"], sem=sem_cps, group=G))
    R.append(Row("BkptT1", T16, "10111110iiiiiiii", operands=lambda f, c: {}, sem=hook("bkpt_instr_debug_event"), group=G))
    for opa, cls, sem in ((0, "NopT1", sem_nop), (1, "YieldT1", hook("hint_yield")), (2, "WfeT1", sem_wfe),
                          (3, "WfiT1", sem_wfi), (4, "SevT1", hook("send_event"))):
        R.append(Row(cls, T16, "10111111%s0000" % format(opa, "04b"), operands=lambda f, c: {}, sem=sem, group=G))
    R.append(Row("NopT1", T16, "10111111xxxx0000", operands=lambda f, c: {}, sem=sem_nop, group=G))      # unallocated hints
    R.append(Row("ItT1", T16, "10111111ccccmmmm", guard=lambda f: f["m"] != 0,
                 operands=lambda f, c: dict(firstcond=f["c"], mask=f["m"]),
                 unpredictable=lambda f, c: f["c"] == 15 or (f["c"] == 14 and bv.bit_count(f["m"]) != 1) or c["in_it"],
                 sem=sem_it, group=G))
    R.append(Row("UdfT1", T16, "11011110iiiiiiii", operands=lambda f, c: {}, sem=sem_udf, group=G))
    R.append(Row("SvcT1", T16, "11011111iiiiiiii", operands=lambda f, c: dict(imm32=f["i"]), sem=sem_svc, group=G))
    return R


def t32_rows():
    R = []
    R.append(Row("MSR (banked) T", T32, "11110011100xxxxx10x0xxxxxx1xxxxx", notimpl=True, group=G))
    R.append(Row("MsrRegisterApplicationT1", T32, "111100111000nnnn10-0mm00--0-----", guard=lambda f: True,
                 operands=lambda f, c: dict(n=f["n"], write_nzcvq=T(f["m"] & 2), write_g=T(f["m"] & 1)),
                 unpredictable=lambda f, c: f["m"] == 0 or f["n"] in (13, 15), sem=sem_msr_app, group=G))
    R.append(Row("MsrRegisterSystemT1", T32, "11110011100Rnnnn10-0mmmm--0-----",
                 operands=lambda f, c: dict(n=f["n"], write_spsr=T(f["R"]), mask=f["m"]),
                 unpredictable=lambda f, c: f["m"] == 0 or f["n"] in (13, 15), sem=sem_msr_sys, group=G))
    # change processor state and hints: 11110 0111010 ---- 10-0-xxx xxxxxxxx
    for op2, cls, sem in ((0, "NopT2", sem_nop), (1, "YieldT2", hook("hint_yield")), (2, "WfeT2", sem_wfe),
                          (3, "WfiT2", sem_wfi), (4, "SevT2", hook("send_event"))):
        R.append(Row(cls, T32, "111100111010++++10-0-000%s" % format(op2, "08b"), operands=lambda f, c: {}, sem=sem, group=G))
    R.append(Row("DBG T", T32, "111100111010++++10-0-0001111xxxx", notimpl=True, group=G))
    R.append(Row("NopT2", T32, "111100111010++++10-0-000xxxxxxxx", operands=lambda f, c: {}, sem=sem_nop, group=G))  # unallocated hints
    R.append(Row("CpsThumbT2", T32, "111100111010++++10-0-iiMAIFmmmmm",
                 operands=lambda f, c: dict(affect_a=T(f["A"]), affect_i=T(f["I"]), affect_f=T(f["F"]), enable=f["i"] == 2,
                                            disable=f["i"] == 3, change_mode=T(f["M"]), mode=f["m"]),
                 unpredictable=lambda f, c: (f["m"] != 0 and not f["M"]) or (f["i"] & 2 and not (f["A"] or f["I"] or f["F"])) or
                 (not f["i"] & 2 and (f["A"] or f["I"] or f["F"])) or f["i"] == 1 or c["in_it"], sem=sem_cps, group=G))
    # miscellaneous control 11110 0111011
    R.append(Row("EnterxLeavexT1", T32, "111100111011++++10-0++++000J++++", operands=lambda f, c: dict(is_enterx=T(f["J"])),
                 sem=None, group=G))
    R.append(Row("ClrexT1", T32, "111100111011++++10-0++++0010++++", operands=lambda f, c: {}, sem=sem_nop, group=G))
    R.append(Row("DsbT1", T32, "111100111011++++10-0++++0100oooo", operands=lambda f, c: dict(option=f["o"]),
                 sem=hook("data_synchronization_barrier"), group=G))
    R.append(Row("DMB T", T32, "111100111011++++10-0++++0101oooo", notimpl=True, group=G))
    R.append(Row("IsbT1", T32, "111100111011++++10-0++++0110oooo", operands=lambda f, c: {},
                 sem=hook("instruction_synchronization_barrier"), group=G))
    R.append(Row("EretT1", T32, "111100111101+++-10-0++++00000000", operands=lambda f, c: {},
                 unpredictable=lambda f, c: c["in_it"] and not c["last_it"], sem=sem_eret, group=G))
    R.append(Row("SubsPcLrThumbT1", T32, "111100111101+++-10-0++++iiiiiiii", operands=lambda f, c: dict(n=14, imm32=f["i"]),
                 unpredictable=lambda f, c: c["in_it"] and not c["last_it"], sem=sem_subs_pc_lr_thumb, group=G))
    R.append(Row("MRS (banked) T", T32, "11110011111xxxxx10x0xxxxxx1xxxxx", notimpl=True, group=G))
    R.append(Row("MrsApplicationT1", T32, "111100111110++++10-0dddd--0-----", operands=lambda f, c: dict(d=f["d"]),
                 unpredictable=lambda f, c: f["d"] in (13, 15), sem=sem_mrs_cpsr, group=G))
    R.append(Row("MrsSystemT1", T32, "111100111111++++10-0dddd--0-----", operands=lambda f, c: dict(d=f["d"], read_spsr=True),
                 unpredictable=lambda f, c: f["d"] in (13, 15), sem=sem_mrs_sys, group=G))
    R.append(Row("HVC T", T32, "111101111110xxxx1000xxxxxxxxxxxx", notimpl=True, group=G))
    R.append(Row("SmcT1", T32, "111101111111iiii1000------------", operands=lambda f, c: {},
                 unpredictable=lambda f, c: c["in_it"] and not c["last_it"], sem=sem_smc, group=G))
    R.append(Row("UdfT2", T32, "111101111111iiii1010iiiiiiiiiiii", operands=lambda f, c: {}, sem=sem_udf, group=G))
    # preloads (Rt = 1111 in the load byte / halfword tables)
    R.append(Row("PldLiteralT1", T32, "11111000U0-111111111iiiiiiiiiiii", operands=lambda f, c: dict(add=T(f["U"]), imm32=f["i"]),
                 sem=hook("hint_preload_data"), group=G))
    R.append(Row("PldImmediateT1", T32, "1111100010W1nnnn1111iiiiiiiiiiii",
                 operands=lambda f, c: dict(add=True, is_pldw=T(f["W"]), n=f["n"], imm32=f["i"]), sem=hook("hint_preload_data"), group=G))
    R.append(Row("PldImmediateT2", T32, "1111100000W1nnnn11111100iiiiiiii",
                 operands=lambda f, c: dict(add=False, is_pldw=T(f["W"]), n=f["n"], imm32=f["i"]), sem=hook("hint_preload_data"), group=G))
    R.append(Row("PldRegisterT1", T32, "1111100000W1nnnn1111000000iimmmm",
                 operands=lambda f, c: dict(add=True, is_pldw=T(f["W"]), n=f["n"], m=f["m"], shift_t="LSL", shift_n=f["i"]),
                 unpredictable=lambda f, c: f["m"] in (13, 15), sem=hook("hint_preload_data"), group=G))
    # coprocessor
    notvfp = lambda f: (f["p"] >> 1) != 0b101
    for top, sfx in (("1110", "T1"), ("1111", "T2")):
        R.append(Row("McrrMcrr2" + sfx, T32, top + "11000100uuuuttttppppoooommmm", guard=notvfp,
                     operands=lambda f, c: dict(cp=f["p"], t=f["t"], t2=f["u"]),
                     unpredictable=lambda f, c: any(x in (13, 15) for x in (f["t"], f["u"])), sem=None, group=G))
        R.append(Row("MrrcMrrc2" + sfx, T32, top + "11000101uuuuttttppppoooommmm", guard=notvfp,
                     operands=lambda f, c: dict(cp=f["p"], t=f["t"], t2=f["u"]),
                     unpredictable=lambda f, c: any(x in (13, 15) for x in (f["t"], f["u"])) or f["t"] == f["u"], sem=None, group=G))
        R.append(Row("LdcLdc2Literal" + sfx, T32, top + "110PUDW11111ddddppppiiiiiiii",
                     guard=lambda f: notvfp(f) and (f["P"] or f["U"] or f["W"]),
                     operands=lambda f, c: dict(cp=f["p"], add=T(f["U"]), index=T(f["P"]), imm32=f["i"] << 2),
                     unpredictable=lambda f, c: f["W"] == 1 or f["P"] == 0, sem=None, group=G))
        R.append(Row("LdcLdc2Immediate" + sfx, T32, top + "110PUDW1nnnnddddppppiiiiiiii",
                     guard=lambda f: notvfp(f) and (f["P"] or f["U"] or f["W"]),
                     operands=lambda f, c: dict(cp=f["p"], add=T(f["U"]), index=T(f["P"]), wback=T(f["W"]), n=f["n"],
                                                imm32=f["i"] << 2), sem=None, group=G))
        R.append(Row("StcStc2" + sfx, T32, top + "110PUDW0nnnnddddppppiiiiiiii",
                     guard=lambda f: notvfp(f) and (f["P"] or f["U"] or f["W"]),
                     operands=lambda f, c: dict(cp=f["p"], add=T(f["U"]), index=T(f["P"]), wback=T(f["W"]), n=f["n"],
                                                imm32=f["i"] << 2),
                     unpredictable=lambda f, c: f["n"] == 15, sem=None, group=G))
        R.append(Row("CdpCdp2" + sfx, T32, top + "1110oooonnnnddddppppqqq0mmmm", guard=notvfp,
                     operands=lambda f, c: dict(cp=f["p"]), sem=None, group=G))
        R.append(Row("McrMcr2" + sfx, T32, top + "1110ooo0nnnnttttppppqqq1mmmm", guard=notvfp,
                     operands=lambda f, c: dict(cp=f["p"], t=f["t"]), unpredictable=lambda f, c: f["t"] in (13, 15), sem=None, group=G))
        R.append(Row("MrcMrc2" + sfx, T32, top + "1110ooo1nnnnttttppppqqq1mmmm", guard=notvfp,
                     operands=lambda f, c: dict(cp=f["p"], t=f["t"]), unpredictable=lambda f, c: f["t"] == 13, sem=None, group=G))
    return R


ROWS = arm_rows() + t16_rows() + t32_rows()
