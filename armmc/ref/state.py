"""Abstract machine state for the reference model: a dict location -> value using the same location names as
machine.Plan (so the frame condition "everything else unchanged" is checked against ALL state), plus the
architectural helper functions of ARM ARM B1.3 (register banking, PC reads, xxxWritePC) - an independent
transcription, no code shared with /repo."""
from . import bv
from .memmodel import Flat, FAULT

USR, FIQ, IRQ, SVC, MON, ABT, HYP, UND, SYS = 0b10000, 0b10001, 0b10010, 0b10011, 0b10110, 0b10111, 0b11010, 0b11011, 0b11111
MODE_SUFFIX = {USR: "usr", FIQ: "fiq", IRQ: "irq", SVC: "svc", MON: "mon", ABT: "abt", HYP: "hyp", UND: "und", SYS: "usr"}
UNKNOWN = object()      # don't-care marker for a location


class ModelStop(Exception):
    """The instruction ends by taking an exception / reaching a hook."""

    def __init__(self, kind, **info):
        self.kind = kind
        self.info = info


class Unpredictable(Exception):
    """The model classes this instance as UNPREDICTABLE: the generator must not have produced it."""


def phys(n, mode):
    """RBankSelect / LookUpRName (B1.3.2): name of the physical register behind Rn in `mode`."""
    if n < 8:
        return "R.R%dusr" % n
    if n < 13:
        return "R.R%d%s" % (n, "fiq" if mode == FIQ else "usr")
    if n == 13:
        return "R.SP" + MODE_SUFFIX[mode]
    if n == 14:
        return "R.LR" + ("usr" if mode in (HYP, SYS, USR) else MODE_SUFFIX[mode])
    return "R.PC"


def spsr_name(mode):
    return {FIQ: "spsr_fiq", IRQ: "spsr_irq", SVC: "spsr_svc", MON: "spsr_mon", ABT: "spsr_abt", HYP: "spsr_hyp",
            UND: "spsr_und"}.get(mode)


class St:
    def __init__(self, names, regs, mem, cfg):
        """names/regs: Plan.names and a Plan.regs() tuple; mem: Plan.mem() tuple; cfg: configuration dict."""
        self.loc = dict(zip(names, regs))
        self.mem = Flat(mem)
        self.cfg = cfg
        self.ver = cfg.get("arch_version", 6)
        self.unknown = set()        # locations whose final value is UNKNOWN
        self.unknown_bits = {}      # location -> mask of bits whose final value is UNKNOWN
        self.mem_unknown = set()    # byte addresses whose final value is UNKNOWN
        self.pc_written = False
        self.ilen = 4
        self.hooks = []

    # ---------------------------------------------------------------- CPSR view
    @property
    def cpsr(self):
        return self.loc["cpsr"]

    @cpsr.setter
    def cpsr(self, v):
        self.loc["cpsr"] = v & 0xFFFFFFFF

    def _f(self, hi, lo=None):
        lo = hi if lo is None else lo
        return bv.bits(self.loc["cpsr"], hi, lo)

    def _sf(self, hi, lo, v):
        m = bv.mask(hi - lo + 1) << lo
        self.loc["cpsr"] = (self.loc["cpsr"] & ~m) | ((int(v) << lo) & m)

    N = property(lambda s: s._f(31), lambda s, v: s._sf(31, 31, v))
    Z = property(lambda s: s._f(30), lambda s, v: s._sf(30, 30, v))
    C = property(lambda s: s._f(29), lambda s, v: s._sf(29, 29, v))
    V = property(lambda s: s._f(28), lambda s, v: s._sf(28, 28, v))
    Q = property(lambda s: s._f(27), lambda s, v: s._sf(27, 27, v))
    J = property(lambda s: s._f(24), lambda s, v: s._sf(24, 24, v))
    GE = property(lambda s: s._f(19, 16), lambda s, v: s._sf(19, 16, v))
    E = property(lambda s: s._f(9), lambda s, v: s._sf(9, 9, v))
    A = property(lambda s: s._f(8), lambda s, v: s._sf(8, 8, v))
    I = property(lambda s: s._f(7), lambda s, v: s._sf(7, 7, v))
    F = property(lambda s: s._f(6), lambda s, v: s._sf(6, 6, v))
    T = property(lambda s: s._f(5), lambda s, v: s._sf(5, 5, v))
    M = property(lambda s: s._f(4, 0), lambda s, v: s._sf(4, 0, v))

    @property
    def IT(self):
        c = self.loc["cpsr"]
        return (bv.bits(c, 15, 10) << 2) | bv.bits(c, 26, 25)

    @IT.setter
    def IT(self, v):
        self._sf(15, 10, v >> 2)
        self._sf(26, 25, v & 3)

    def set_nzcv(self, n=None, z=None, c=None, v=None):
        if n is not None:
            self.N = n
        if z is not None:
            self.Z = z
        if c is not None:
            self.C = c
        if v is not None:
            self.V = v

    def set_nz(self, result, width=32):
        self.N = bv.bit(result, width - 1)
        self.Z = int(result & bv.mask(width) == 0)

    def in_it_block(self):
        return self.IT & 0xF != 0

    def last_in_it_block(self):
        return self.IT & 0xF == 0b1000

    def it_advance(self):
        it = self.IT
        if it & 0b111 == 0:
            self.IT = 0
        else:
            self.IT = (it & 0xE0) | ((it << 1) & 0x1F)

    def thumb(self):
        return self.T == 1 and self.J == 0

    def privileged(self):
        return self.M != USR

    def secure(self):
        return (not self.cfg.get("have_security_ext")) or (self.loc["scr"] & 1) == 0 or self.M == MON

    # ---------------------------------------------------------------- registers
    @property
    def pc(self):
        return self.loc["R.PC"]

    def R(self, n):
        if n == 15:
            # Thumb and ThumbEE state (CPSR.T = 1) read the PC as the instruction address + 4, ARM state as + 8
            return (self.loc["R.PC"] + (4 if self.T == 1 else 8)) & 0xFFFFFFFF
        return self.loc[phys(n, self.M)]

    def Rmode(self, n, mode):
        return self.loc[phys(n, mode)]

    def setR(self, n, v):
        assert n != 15
        self.loc[phys(n, self.M)] = v & 0xFFFFFFFF

    def setRmode(self, n, mode, v):
        self.loc[phys(n, mode)] = v & 0xFFFFFFFF

    def setR_unknown(self, n):
        self.unknown.add(phys(n, self.M))

    def spsr(self):
        n = spsr_name(self.M)
        if n is None:
            raise Unpredictable("SPSR read in User/System mode")
        return self.loc[n]

    def set_spsr(self, v):
        n = spsr_name(self.M)
        if n is None:
            raise Unpredictable("SPSR write in User/System mode")
        self.loc[n] = v & 0xFFFFFFFF

    # ---------------------------------------------------------------- PC writes (A2.3.1)
    def branch_to(self, addr):
        self.loc["R.PC"] = addr & 0xFFFFFFFF
        self.pc_written = True

    def branch_write_pc(self, addr):
        if not self.thumb():
            if self.ver < 6 and addr & 3:
                raise Unpredictable("BranchWritePC unaligned before v6")
            self.branch_to(addr & ~3)
        else:
            self.branch_to(addr & ~1)

    def bx_write_pc(self, addr):
        if addr & 1:
            self.T = 1
            self.J = 0
            self.branch_to(addr & ~1)
        elif addr & 2 == 0:
            self.T = 0
            self.J = 0
            self.branch_to(addr)
        else:
            raise Unpredictable("BXWritePC to address<1:0> == '10'")

    def load_write_pc(self, addr):
        if self.ver >= 5:
            self.bx_write_pc(addr)
        else:
            self.branch_write_pc(addr)

    def alu_write_pc(self, addr):
        if self.ver >= 7 and not self.thumb():
            self.bx_write_pc(addr)
        else:
            self.branch_write_pc(addr)

    def finish(self):
        """End of a completed instruction: PC advance and ITAdvance."""
        if not self.pc_written:
            self.loc["R.PC"] = (self.loc["R.PC"] + self.ilen) & 0xFFFFFFFF

    # ---------------------------------------------------------------- memory (flat; protection handled by callers)
    def sctlr(self, bit):
        return bv.bit(self.loc["sctlr"], bit)

    def unaligned_support(self):
        return self.sctlr(22) == 1

    def _acc(self):
        return dict(E=self.E, A=self.sctlr(1), U=self.sctlr(22), ver=self.ver)

    def check_access(self, addr, size, write, priv):
        """Hook for protection models (C14/C15); flat by default."""
        return None

    def mem_u_get(self, addr, size, priv=None):
        from . import memmodel
        r = memmodel.mem_u_get(self.mem, addr & 0xFFFFFFFF, size, **self._acc())
        if r == FAULT:
            raise ModelStop("dabort", alignment=True, addr=addr & 0xFFFFFFFF, write=False)
        return r

    def mem_a_get(self, addr, size, priv=None):
        from . import memmodel
        r = memmodel.mem_a_get(self.mem, addr & 0xFFFFFFFF, size, **self._acc())
        if r == FAULT:
            raise ModelStop("dabort", alignment=True, addr=addr & 0xFFFFFFFF, write=False)
        return r

    def mem_u_set(self, addr, size, value, priv=None):
        from . import memmodel
        r = memmodel.mem_u_set(self.mem, addr & 0xFFFFFFFF, size, value & bv.mask(8 * size), **self._acc())
        if r == FAULT:
            raise ModelStop("dabort", alignment=True, addr=addr & 0xFFFFFFFF, write=True)

    def mem_a_set(self, addr, size, value, priv=None):
        from . import memmodel
        r = memmodel.mem_a_set(self.mem, addr & 0xFFFFFFFF, size, value & bv.mask(8 * size), **self._acc())
        if r == FAULT:
            raise ModelStop("dabort", alignment=True, addr=addr & 0xFFFFFFFF, write=True)

    def mem_unknown_range(self, addr, size):
        for i in range(size):
            self.mem_unknown.add((addr + i) & 0xFFFFFFFF)

    # ---------------------------------------------------------------- comparison with an implementation snapshot
    def compare(self, names, regs_after, mem_after):
        """[(location, model, implementation)] for every location where they disagree (UNKNOWNs skipped)."""
        out = []
        loc = self.loc
        for n, v in zip(names, regs_after):
            if n in self.unknown:
                continue
            if loc[n] != v:
                ub = self.unknown_bits.get(n)
                if ub is not None and isinstance(v, int) and (loc[n] & ~ub) == (v & ~ub):
                    continue
                out.append((n, loc[n], v))
        exp = self.mem.snapshot()
        if exp != tuple(mem_after):
            for (b1, e1, d1), (b2, e2, d2) in zip(exp, mem_after):
                if d1 != d2:
                    if len(d1) != len(d2):
                        out.append(("device-size@%#x" % b1, len(d1), len(d2)))
                        continue
                    for i in range(len(d1)):
                        if d1[i] != d2[i] and (b1 + i) not in self.mem_unknown:
                            out.append(("mem[%#x]" % (b1 + i), d1[i], d2[i]))
                            if len(out) > 40:
                                return out
        return out
