"""Reference stepper: fetch / decode (encoding table) / condition / execute / PC + IT advance on ref.state.St, i.e. the
model side of a co-simulation with ArmV6.emulate_cycle() (ARM ARM A2.5, A8.3, B1.9).  Uses every rows_* module."""
import importlib

from . import bv, exc as rexc
from .enc import Table, A32, T16, T32
from .state import St, ModelStop, Unpredictable, HYP

_TABLE = None


def table():
    global _TABLE
    if _TABLE is None:
        _TABLE = Table()
        for name in ("rows_branch", "rows_sys", "rows_block", "rows_ldst", "rows_media", "rows_dp"):
            try:
                m = importlib.import_module("armmc.ref." + name)
            except ImportError:
                continue
            _TABLE.add(*m.ROWS)
    return _TABLE


def fetch(st):
    """(iset, word, length in bytes).  Instruction fetch is little-endian regardless of CPSR.E."""
    pc = st.pc
    if not st.thumb():
        return A32, sum(st.mem.rd((pc + i) & 0xFFFFFFFF) << (8 * i) for i in range(4)), 4
    hw1 = st.mem.rd(pc) | (st.mem.rd((pc + 1) & 0xFFFFFFFF) << 8)
    if (hw1 >> 11) in (0b11101, 0b11110, 0b11111):
        hw2 = st.mem.rd((pc + 2) & 0xFFFFFFFF) | (st.mem.rd((pc + 3) & 0xFFFFFFFF) << 8)
        return T32, (hw1 << 16) | hw2, 4
    return T16, hw1, 2


def current_cond(st, row, f):
    if row.iset == A32:
        return f["c"] if row.cond else 0xE
    if row.cls in ("BT1", "BT3"):
        return f["c"]
    it = st.IT
    if it & 0xF:
        return it >> 4
    if it == 0:
        return 0xE
    raise Unpredictable("ITSTATE with zero mask but non-zero condition")


def step(st):
    """Executes one instruction on the model.  Returns a label; raises Unpredictable when the model takes no position."""
    iset, word, ilen = fetch(st)
    st.ilen = ilen
    st.pc_written = False
    st.it_written = False
    hit = table().lookup(iset, word)
    was_in_it = st.in_it_block()
    label = "?"
    try:
        if hit is None:
            raise ModelStop("undef")
        row, f = hit
        label = row.cls
        ctx = {"ver": st.ver, "in_it": st.in_it_block(), "last_it": st.last_in_it_block(), "C": st.C}
        if row.notimpl:
            raise Unpredictable("not-implemented extension region: outcome not modelled")
        if row.undefined is not None and row.undefined(f, ctx):
            raise ModelStop("undef")
        if not row.should_be_ok(word) or (row.unpredictable is not None and row.unpredictable(f, ctx)):
            raise Unpredictable(row.cls)
        if row.sem is None:
            raise Unpredictable("no semantics for " + row.cls)
        cond = current_cond(st, row, f)
        if bv.cond_holds(cond, st.N, st.Z, st.C, st.V):
            row.sem(st, row.operands(f, ctx), f)
        st.finish()
        if was_in_it and not st.it_written:
            st.it_advance()
    except ModelStop as ms:
        if ms.kind == "notimpl":
            raise Unpredictable("hook " + str(ms.info.get("hook")))
        rexc.take(st, ms)
        if st.M == HYP:
            st.unknown.add("hsr")
        label += "->" + ms.kind
    return label
