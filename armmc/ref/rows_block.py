"""Encoding rows + reference semantics for the block-transfer / stack group (ARM ARM A8.8: LDM/LDMIA/LDMFD, LDMDA,
LDMDB, LDMIB, STM/STMIA/STMEA, STMDA, STMDB, STMIB, POP, PUSH; B9.3: LDM (User registers), LDM (exception return),
STM (User registers), SRS, RFE) and the CPSRWriteByInstr() helper of B1.3.3.  Transcribed from the manual's encoding
diagrams and operation pseudocode; shares no code with /repo.

Addressing: all four modes reduce to "lowest-numbered register at the lowest address, consecutive words":
    IA  first = Rn            final = Rn + 4*N        IB  first = Rn + 4         final = Rn + 4*N
    DA  first = Rn - 4*N + 4  final = Rn - 4*N        DB  first = Rn - 4*N       final = Rn - 4*N
all modulo 2^32 (St's memory accessors and setR reduce)."""
from . import bv
from .enc import Row, A32, T16, T32
from .state import Unpredictable, ModelStop, USR, FIQ, IRQ, SVC, MON, ABT, HYP, UND, SYS

G = "block"
M32 = 0xFFFFFFFF
IA, IB, DA, DB = "IA", "IB", "DA", "DB"


# ------------------------------------------------------------------------------------------------- helpers
def bitcount(x):
    return bin(x).count("1")


def lowest(x):
    return bv.lowest_set_bit(x, 16)


def first_address(kind, base, nbytes):
    if kind == IA:
        return base & M32
    if kind == IB:
        return (base + 4) & M32
    if kind == DA:
        return (base - nbytes + 4) & M32
    return (base - nbytes) & M32


def final_base(kind, base, nbytes):
    return (base + nbytes) & M32 if kind in (IA, IB) else (base - nbytes) & M32


def pu_kind(increment, word_higher):
    """The (increment, wordhigher) pair of the system forms names one of the four addressing modes."""
    if increment:
        return IB if word_higher else IA
    return DA if word_higher else DB


def pc_store_value(st, addr):
    """PCStoreValue(): the PC (this instruction + 8); before ARMv7 an implementation may consistently store PC + 4
    more instead (IMPLEMENTATION DEFINED), so the stored word is a don't-care there."""
    if st.ver < 7:
        st.mem_unknown_range(addr, 4)
    return st.R(15)


def cfg(st, k):
    return bool(st.cfg.get(k))


def bad_mode(st, m):
    """BadMode() (B1.3.1)."""
    if m in (USR, FIQ, IRQ, SVC, ABT, UND, SYS):
        return False
    if m == MON:
        return not cfg(st, "have_security_ext")
    if m == HYP:
        return not cfg(st, "have_virt_ext")
    return True


def cpsr_write_by_instr(st, value, bytemask, is_excpt_return):
    """CPSRWriteByInstr(value, bytemask, is_excpt_return), B1.3.3.  Privilege, security state and NMFI are those in
    force BEFORE the write."""
    privileged = st.M != USR
    nmfi = st.sctlr(27) == 1
    secure = st.secure()
    scr = st.loc["scr"]
    aw, fw, ns = bv.bit(scr, 5), bv.bit(scr, 4), bv.bit(scr, 0)
    virt = cfg(st, "have_virt_ext")
    old_m = st.M
    c = st.cpsr

    def copy(hi, lo):
        nonlocal c
        m = bv.mask(hi - lo + 1) << lo
        c = (c & ~m) | (value & m)

    if bytemask & 8:
        copy(31, 27)                                   # N Z C V Q
        if is_excpt_return:
            copy(26, 24)                               # IT<1:0>, J
    if bytemask & 4:
        copy(19, 16)                                   # GE<3:0>; <23:20> reserved, not written
    if bytemask & 2:
        if is_excpt_return:
            copy(15, 10)                               # IT<7:2>
        copy(9, 9)                                     # E
        if privileged and (secure or aw or virt):
            copy(8, 8)                                 # A
    if bytemask & 1:
        if privileged:
            copy(7, 7)                                 # I
        if privileged and (not nmfi or bv.bit(value, 6) == 0) and (secure or fw or virt):
            copy(6, 6)                                 # F
        if is_excpt_return:
            copy(5, 5)                                 # T
        if privileged:
            vm = value & 0x1F
            if bad_mode(st, vm):
                raise Unpredictable("CPSR write: bad mode")
            if not secure and vm == MON:
                raise Unpredictable("Monitor mode from Non-secure")
            if not secure and vm == FIQ and bv.bit(st.loc["nsacr"], 19):
                raise Unpredictable("reserved FIQ mode from Non-secure")
            if ns == 0 and vm == HYP:
                raise Unpredictable("Hyp mode in Secure state")
            if not secure and old_m != HYP and vm == HYP:
                raise Unpredictable("Hyp mode from Non-secure PL1")
            if old_m == HYP and vm != HYP and not is_excpt_return:
                raise Unpredictable("leaving Hyp mode without exception return")
            copy(4, 0)                                 # M
    st.cpsr = c
    if is_excpt_return:
        st.it_written = True                           # ITSTATE comes from the restored value, no ITAdvance()


def exception_return_branch(st, new_pc):
    """Tail of LDM (exception return) / RFE after the CPSR has been restored."""
    if st.M == HYP and st.J and st.T:
        raise Unpredictable("ThumbEE in Hyp mode")
    if st.J:
        raise Unpredictable("return to Jazelle / ThumbEE state (not modelled)")
    if not st.T and st.IT:
        raise Unpredictable("return to ARM state with ITSTATE != 0")
    if st.T and (st.IT & 0xF) == 0 and st.IT != 0:
        raise Unpredictable("malformed ITSTATE")
    st.branch_write_pc(new_pc)                         # instruction set = the restored one


# ------------------------------------------------------------------------------------------------- semantics
def sem_ldm(kind):
    def sem(st, o, f):
        n, regs, wback = o["n"], o["registers"], o["wback"]
        nbytes = 4 * bitcount(regs)
        base = st.R(n)
        addr = first_address(kind, base, nbytes)
        for i in range(15):
            if (regs >> i) & 1:
                st.setR(i, st.mem_a_get(addr, 4))
                addr += 4
        pcv = st.mem_a_get(addr, 4) if (regs >> 15) & 1 else None
        if wback:
            if (regs >> n) & 1:
                st.setR_unknown(n)
            else:
                st.setR(n, final_base(kind, base, nbytes))
        if pcv is not None:
            st.load_write_pc(pcv)
    return sem


def sem_stm(kind):
    def sem(st, o, f):
        n, regs, wback = o["n"], o["registers"], o["wback"]
        nbytes = 4 * bitcount(regs)
        base = st.R(n)
        addr = first_address(kind, base, nbytes)
        low = lowest(regs)
        for i in range(15):
            if (regs >> i) & 1:
                if i == n and wback and i != low:
                    st.mem_a_set(addr, 4, 0)
                    st.mem_unknown_range(addr & M32, 4)
                else:
                    st.mem_a_set(addr, 4, st.R(i))
                addr += 4
        if (regs >> 15) & 1:
            st.mem_a_set(addr, 4, pc_store_value(st, addr & M32))
        if wback:
            st.setR(n, final_base(kind, base, nbytes))
    return sem


def sem_pop(st, o, f):
    regs, ua = o["registers"], o["unaligned_allowed"]
    get = st.mem_u_get if ua else st.mem_a_get
    sp = st.R(13)
    addr = sp
    for i in range(15):
        if (regs >> i) & 1:
            st.setR(i, get(addr, 4))
            addr += 4
    pcv = None
    if (regs >> 15) & 1:
        if ua and addr & 3:
            raise Unpredictable("POP {pc} from an unaligned address")
        pcv = get(addr, 4)
    if (regs >> 13) & 1:
        st.setR_unknown(13)
    else:
        st.setR(13, sp + 4 * bitcount(regs))
    if pcv is not None:
        st.load_write_pc(pcv)


def sem_push(st, o, f):
    regs, ua = o["registers"], o["unaligned_allowed"]
    put = st.mem_u_set if ua else st.mem_a_set
    sp = st.R(13)
    nbytes = 4 * bitcount(regs)
    addr = (sp - nbytes) & M32
    low = lowest(regs)
    for i in range(15):
        if (regs >> i) & 1:
            if i == 13 and i != low:
                st.mem_a_set(addr, 4, 0)
                st.mem_unknown_range(addr & M32, 4)
            else:
                put(addr, 4, st.R(i))
            addr += 4
    if (regs >> 15) & 1:
        put(addr, 4, pc_store_value(st, addr & M32))
    st.setR(13, sp - nbytes)


def system_guard(st):
    if st.M == HYP:
        raise ModelStop("undef")
    if st.M in (USR, SYS):
        raise Unpredictable("User or System mode")


def sem_ldm_user(st, o, f):
    system_guard(st)
    n, regs = o["n"], o["registers"]
    kind = pu_kind(o["increment"], o["word_higher"])
    addr = first_address(kind, st.R(n), 4 * bitcount(regs))
    for i in range(15):
        if (regs >> i) & 1:
            st.setRmode(i, USR, st.mem_a_get(addr, 4))
            addr += 4


def sem_stm_user(st, o, f):
    system_guard(st)
    n, regs = o["n"], o["registers"]
    kind = pu_kind(o["increment"], o["word_higher"])
    addr = first_address(kind, st.R(n), 4 * bitcount(regs))
    for i in range(15):
        if (regs >> i) & 1:
            st.mem_a_set(addr, 4, st.Rmode(i, USR))
            addr += 4
    if (regs >> 15) & 1:
        st.mem_a_set(addr, 4, pc_store_value(st, addr & M32))


def sem_ldm_exc_return(st, o, f):
    system_guard(st)
    n, regs, wback = o["n"], o["registers"] & 0x7FFF, o["wback"]
    kind = pu_kind(o["increment"], o["word_higher"])
    length = 4 * bitcount(regs) + 4
    base = st.R(n)
    addr = first_address(kind, base, length)
    for i in range(15):
        if (regs >> i) & 1:
            st.setR(i, st.mem_a_get(addr, 4))
            addr += 4
    new_pc = st.mem_a_get(addr, 4)
    if wback:                                          # in the mode the instruction executes in
        if (regs >> n) & 1:
            st.setR_unknown(n)
        else:
            st.setR(n, final_base(kind, base, length))
    cpsr_write_by_instr(st, st.spsr(), 0b1111, True)
    exception_return_branch(st, new_pc)


def sem_rfe(st, o, f):
    if st.M == HYP:
        raise ModelStop("undef")
    if st.M == USR:
        raise Unpredictable("RFE in User mode")
    n, wback = o["n"], o["wback"]
    kind = pu_kind(o["increment"], o["word_higher"])
    base = st.R(n)
    addr = first_address(kind, base, 8)
    new_pc = st.mem_a_get(addr, 4)
    spsr_value = st.mem_a_get(addr + 4, 4)
    if wback:
        st.setR(n, final_base(kind, base, 8))
    cpsr_write_by_instr(st, spsr_value, 0b1111, True)
    exception_return_branch(st, new_pc)


def sem_srs(st, o, f):
    system_guard(st)
    mode = o["mode"]
    if mode == HYP or bad_mode(st, mode):
        raise Unpredictable("SRS to Hyp / bad mode")
    if not st.secure() and (mode == MON or (mode == FIQ and bv.bit(st.loc["nsacr"], 19))):
        raise Unpredictable("SRS to a Secure-only mode from Non-secure state")
    kind = pu_kind(o["increment"], o["word_higher"])
    base = st.Rmode(13, mode)
    addr = first_address(kind, base, 8)
    st.mem_a_set(addr, 4, st.R(14))
    st.mem_a_set(addr + 4, 4, st.spsr())
    if o["wback"]:
        st.setRmode(13, mode, final_base(kind, base, 8))


# ------------------------------------------------------------------------------------------------- operand helpers
def T(x):
    return bool(x)


def ops_nrw(f, c):
    return {"n": f["n"], "registers": f["r"], "wback": T(f["W"])}


def ops_t32_ldm(f, c):
    return {"n": f["n"], "registers": (f["P"] << 15) | (f["M"] << 14) | f["r"], "wback": T(f["W"])}


def ops_t32_stm(f, c):
    return {"n": f["n"], "registers": (f["M"] << 14) | f["r"], "wback": T(f["W"])}


def ops_pu(f, c):
    return {"increment": T(f["U"]), "word_higher": f["P"] == f["U"]}


def one_reg(f, c):
    return {"registers": 1 << f["t"], "unaligned_allowed": True}


def pc_mid_it(c):
    return c["in_it"] and not c["last_it"]


def unp_arm_ldm(f, c):
    return f["n"] == 15 or f["r"] == 0 or (f["W"] == 1 and (f["r"] >> f["n"]) & 1 and c["ver"] >= 7)


def unp_arm_stm(f, c):
    return f["n"] == 15 or f["r"] == 0


def unp_t32_ldm(f, c):
    regs = (f["P"] << 15) | (f["M"] << 14) | f["r"]
    return (f["n"] == 15 or bitcount(regs) < 2 or (f["P"] == 1 and f["M"] == 1) or (f["P"] == 1 and pc_mid_it(c)) or
            (f["W"] == 1 and (regs >> f["n"]) & 1))


def unp_t32_stm(f, c):
    regs = (f["M"] << 14) | f["r"]
    return f["n"] == 15 or bitcount(regs) < 2 or (f["W"] == 1 and (regs >> f["n"]) & 1)


# ------------------------------------------------------------------------------------------------- rows
def arm_rows():
    R = []
    # ---- POP / PUSH multi-register forms are carved out of LDMIA / STMDB with Rn = SP, W = 1 (listed first)
    R.append(Row("PopArmA1", A32, "cccc100010111101rrrrrrrrrrrrrrrr", guard=lambda f: bitcount(f["r"]) >= 2,
                 operands=lambda f, c: {"registers": f["r"], "unaligned_allowed": False},
                 unpredictable=lambda f, c: (f["r"] >> 13) & 1 == 1 and c["ver"] >= 7, sem=sem_pop, group=G))
    R.append(Row("PushA1", A32, "cccc100100101101rrrrrrrrrrrrrrrr", guard=lambda f: bitcount(f["r"]) >= 2,
                 operands=lambda f, c: {"registers": f["r"], "unaligned_allowed": False}, sem=sem_push, group=G))
    # single-register forms: LDR Rt, [SP], #4 / STR Rt, [SP, #-4]!
    R.append(Row("PopArmA2", A32, "cccc010010011101tttt000000000100", operands=one_reg,
                 unpredictable=lambda f, c: f["t"] == 13, sem=sem_pop, group=G))
    R.append(Row("PushA2", A32, "cccc010100101101tttt000000000100", operands=one_reg,
                 unpredictable=lambda f, c: f["t"] == 13, sem=sem_push, group=G))
    # ---- the eight ordinary forms: bits 24:23 = P U, bit 22 = 0, bit 20 = L
    R.append(Row("LdmdaA1", A32, "cccc100000W1nnnnrrrrrrrrrrrrrrrr", operands=ops_nrw, unpredictable=unp_arm_ldm,
                 sem=sem_ldm(DA), group=G))
    R.append(Row("LdmArmA1", A32, "cccc100010W1nnnnrrrrrrrrrrrrrrrr", operands=ops_nrw, unpredictable=unp_arm_ldm,
                 sem=sem_ldm(IA), group=G))
    R.append(Row("LdmdbA1", A32, "cccc100100W1nnnnrrrrrrrrrrrrrrrr", operands=ops_nrw, unpredictable=unp_arm_ldm,
                 sem=sem_ldm(DB), group=G))
    R.append(Row("LdmibA1", A32, "cccc100110W1nnnnrrrrrrrrrrrrrrrr", operands=ops_nrw, unpredictable=unp_arm_ldm,
                 sem=sem_ldm(IB), group=G))
    R.append(Row("StmdaA1", A32, "cccc100000W0nnnnrrrrrrrrrrrrrrrr", operands=ops_nrw, unpredictable=unp_arm_stm,
                 sem=sem_stm(DA), group=G))
    R.append(Row("StmA1", A32, "cccc100010W0nnnnrrrrrrrrrrrrrrrr", operands=ops_nrw, unpredictable=unp_arm_stm,
                 sem=sem_stm(IA), group=G))
    R.append(Row("StmdbA1", A32, "cccc100100W0nnnnrrrrrrrrrrrrrrrr", operands=ops_nrw, unpredictable=unp_arm_stm,
                 sem=sem_stm(DB), group=G))
    R.append(Row("StmibA1", A32, "cccc100110W0nnnnrrrrrrrrrrrrrrrr", operands=ops_nrw, unpredictable=unp_arm_stm,
                 sem=sem_stm(IB), group=G))
    # ---- system forms (bit 22 = 1)
    R.append(Row("LdmUserRegistersA1", A32, "cccc100PU1-1nnnn0rrrrrrrrrrrrrrr",
                 operands=lambda f, c: dict(n=f["n"], registers=f["r"], **ops_pu(f, c)),
                 unpredictable=lambda f, c: f["n"] == 15 or f["r"] == 0, sem=sem_ldm_user, group=G))
    R.append(Row("LdmExceptionReturnA1", A32, "cccc100PU1W1nnnn1rrrrrrrrrrrrrrr",
                 # the decoded 'registers' attribute is the whole 16-bit field (bit 15 = the fixed 1 of this encoding)
                 operands=lambda f, c: dict(n=f["n"], registers=0x8000 | f["r"], wback=T(f["W"]), **ops_pu(f, c)),
                 unpredictable=lambda f, c: f["n"] == 15 or (f["W"] == 1 and (f["r"] >> f["n"]) & 1 and c["ver"] >= 7),
                 sem=sem_ldm_exc_return, group=G))
    R.append(Row("StmUserRegistersA1", A32, "cccc100PU1-0nnnnrrrrrrrrrrrrrrrr",
                 operands=lambda f, c: dict(n=f["n"], registers=f["r"], **ops_pu(f, c)),
                 unpredictable=lambda f, c: f["n"] == 15 or f["r"] == 0, sem=sem_stm_user, group=G))
    # ---- SRS / RFE (unconditional space)
    R.append(Row("SrsArmA1", A32, "1111100PU1W0++-+-----+-+---mmmmm",
                 operands=lambda f, c: dict(mode=f["m"], wback=T(f["W"]), **ops_pu(f, c)), sem=sem_srs, group=G))
    R.append(Row("RfeA1", A32, "1111100PU0W1nnnn----+-+---------",
                 operands=lambda f, c: dict(n=f["n"], wback=T(f["W"]), **ops_pu(f, c)),
                 unpredictable=lambda f, c: f["n"] == 15, sem=sem_rfe, group=G))
    return R


def t16_rows():
    R = []
    R.append(Row("StmT1", T16, "11000nnnrrrrrrrr",
                 operands=lambda f, c: {"n": f["n"], "registers": f["r"], "wback": True},
                 unpredictable=lambda f, c: f["r"] == 0, sem=sem_stm(IA), group=G))
    R.append(Row("LdmThumbT1", T16, "11001nnnrrrrrrrr",
                 operands=lambda f, c: {"n": f["n"], "registers": f["r"], "wback": (f["r"] >> f["n"]) & 1 == 0},
                 unpredictable=lambda f, c: f["r"] == 0, sem=sem_ldm(IA), group=G))
    R.append(Row("PushT1", T16, "1011010Mrrrrrrrr",
                 operands=lambda f, c: {"registers": (f["M"] << 14) | f["r"], "unaligned_allowed": False},
                 unpredictable=lambda f, c: f["M"] == 0 and f["r"] == 0, sem=sem_push, group=G))
    R.append(Row("PopThumbT1", T16, "1011110Prrrrrrrr",
                 operands=lambda f, c: {"registers": (f["P"] << 15) | f["r"], "unaligned_allowed": False},
                 unpredictable=lambda f, c: (f["P"] == 0 and f["r"] == 0) or (f["P"] == 1 and pc_mid_it(c)),
                 sem=sem_pop, group=G))
    return R


def t32_rows():
    R = []
    # POP / PUSH first: LDMIA / STMDB with W = 1, Rn = SP
    R.append(Row("PopThumbT2", T32, "1110100010111101PM-rrrrrrrrrrrrr",
                 operands=lambda f, c: {"registers": (f["P"] << 15) | (f["M"] << 14) | f["r"], "unaligned_allowed": False},
                 unpredictable=lambda f, c: bitcount((f["P"] << 15) | (f["M"] << 14) | f["r"]) < 2 or
                 (f["P"] == 1 and f["M"] == 1) or (f["P"] == 1 and pc_mid_it(c)), sem=sem_pop, group=G))
    R.append(Row("PushT2", T32, "1110100100101101-M-rrrrrrrrrrrrr",
                 operands=lambda f, c: {"registers": (f["M"] << 14) | f["r"], "unaligned_allowed": False},
                 unpredictable=lambda f, c: bitcount((f["M"] << 14) | f["r"]) < 2, sem=sem_push, group=G))
    R.append(Row("PopThumbT3", T32, "1111100001011101tttt101100000100", operands=one_reg,
                 unpredictable=lambda f, c: f["t"] == 13 or (f["t"] == 15 and pc_mid_it(c)), sem=sem_pop, group=G))
    R.append(Row("PushT3", T32, "1111100001001101tttt110100000100", operands=one_reg,
                 unpredictable=lambda f, c: f["t"] in (13, 15), sem=sem_push, group=G))
    R.append(Row("StmT2", T32, "1110100010W0nnnn-M-rrrrrrrrrrrrr", operands=ops_t32_stm, unpredictable=unp_t32_stm,
                 sem=sem_stm(IA), group=G))
    R.append(Row("LdmThumbT2", T32, "1110100010W1nnnnPM-rrrrrrrrrrrrr", operands=ops_t32_ldm, unpredictable=unp_t32_ldm,
                 sem=sem_ldm(IA), group=G))
    R.append(Row("StmdbT1", T32, "1110100100W0nnnn-M-rrrrrrrrrrrrr", operands=ops_t32_stm, unpredictable=unp_t32_stm,
                 sem=sem_stm(DB), group=G))
    R.append(Row("LdmdbT1", T32, "1110100100W1nnnnPM-rrrrrrrrrrrrr", operands=ops_t32_ldm, unpredictable=unp_t32_ldm,
                 sem=sem_ldm(DB), group=G))
    # SRS / RFE: DB forms (T1), IA forms (T2)
    R.append(Row("SrsThumbT1", T32, "1110100000W0++-+++---------mmmmm",
                 operands=lambda f, c: dict(mode=f["m"], wback=T(f["W"]), increment=False, word_higher=False),
                 sem=sem_srs, group=G))
    R.append(Row("SrsThumbT2", T32, "1110100110W0++-+++---------mmmmm",
                 operands=lambda f, c: dict(mode=f["m"], wback=T(f["W"]), increment=True, word_higher=False),
                 sem=sem_srs, group=G))
    R.append(Row("RfeT1", T32, "1110100000W1nnnn++--------------",
                 operands=lambda f, c: dict(n=f["n"], wback=T(f["W"]), increment=False, word_higher=False),
                 unpredictable=lambda f, c: f["n"] == 15 or pc_mid_it(c), sem=sem_rfe, group=G))
    R.append(Row("RfeT2", T32, "1110100110W1nnnn++--------------",
                 operands=lambda f, c: dict(n=f["n"], wback=T(f["W"]), increment=True, word_higher=False),
                 unpredictable=lambda f, c: f["n"] == 15 or pc_mid_it(c), sem=sem_rfe, group=G))
    return R


ROWS = arm_rows() + t16_rows() + t32_rows()
