"""Architectural bit positions of the named register fields (ARM ARM DDI 0406C, B1.3.3, B3/B4/B5 register
descriptions).  A field is a list of register bit positions, least significant field bit first.
Indexed accessors (get_x_n / set_x_n) are functions n -> positions with their legal index range."""


def r(msb, lsb=None):
    if lsb is None:
        lsb = msb
    return list(range(lsb, msb + 1))


FIELDS = {
    "CPSR": {
        "n": r(31), "z": r(30), "c": r(29), "v": r(28), "q": r(27), "j": r(24), "ge": r(19, 16),
        "it": [25, 26, 10, 11, 12, 13, 14, 15], "e": r(9), "a": r(8), "i": r(7), "f": r(6), "t": r(5), "m": r(4, 0),
        "isetstate": [5, 24],
    },
    "SCTLR": {
        "ie": r(31), "te": r(30), "afe": r(29), "tre": r(28), "nmfi": r(27), "ee": r(25), "ve": r(24), "u": r(22),
        "fi": r(21), "uwxn": r(20), "wxn": r(19), "dz": r(19), "ha": r(17), "br": r(17), "rr": r(14), "v": r(13),
        "i": r(12), "z": r(11), "sw": r(10), "b": r(7), "cp15ben": r(5), "c": r(2), "a": r(1), "m": r(0),
    },
    "HSCTLR": {"te": r(30), "ee": r(25), "fi": r(21), "wxn": r(19), "i": r(12), "cp15ben": r(5), "c": r(2), "a": r(1),
               "m": r(0)},
    "SCR": {"ns": r(0), "irq": r(1), "fiq": r(2), "ea": r(3), "fw": r(4), "aw": r(5), "net": r(6), "scd": r(7),
            "hce": r(8), "sif": r(9)},
    "TTBCR": {"eae": r(31), "sh1": r(29, 28), "orgn1": r(27, 26), "irgn1": r(25, 24), "epd1": r(23), "a1": r(22),
              "t1sz": r(18, 16), "sh0": r(13, 12), "orgn0": r(11, 10), "irgn0": r(9, 8), "epd0": r(7), "pd1": r(5),
              "pd0": r(4), "t0sz": r(2, 0), "n": r(2, 0)},
    "HTCR": {"sh0": r(13, 12), "orgn0": r(11, 10), "irgn0": r(9, 8), "t0sz": r(2, 0)},
    "VTCR": {"sh0": r(13, 12), "orgn0": r(11, 10), "irgn0": r(9, 8), "sl0": r(7, 6), "s": r(4), "t0sz": r(3, 0)},
    "DFSR": {"cm": r(13), "ext": r(12), "wnr": r(11), "fs": [0, 1, 2, 3, 10], "lpae": r(9), "domain": r(7, 4),
             "status": r(5, 0)},
    "CPACR": {"trcdis": r(28), "d32dis": r(30), "asedis": r(31)},
    "DBGDIDR": {"wrps": r(31, 28), "brps": r(27, 24), "ctx_cmps": r(23, 20), "version": r(19, 16), "devid_imp": r(15),
                "nsuhd_imp": r(14), "pcsr_imp": r(13), "se_imp": r(12), "variant": r(7, 4), "revision": r(3, 0)},
    "FCSEIDR": {"pid": r(31, 25)},
    "FPEXC": {"ex": r(31), "en": r(30)},
    "HCPTR": {"tcpac": r(31), "tta": r(20), "tase": r(15)},
    "HCR": {"tge": r(27), "tvm": r(26), "ttlb": r(25), "tpu": r(24), "tpc": r(23), "tsw": r(22), "tac": r(21),
            "tidcp": r(20), "tsc": r(19), "twe": r(14), "twi": r(13), "dc": r(12), "bsu": r(11, 10), "fb": r(9),
            "va": r(8), "vi": r(7), "vf": r(6), "amo": r(5), "imo": r(4), "fmo": r(3), "ptw": r(2), "swio": r(1),
            "vm": r(0)},
    "HDCR": {"tdra": r(11), "tdosa": r(10), "tda": r(9), "tde": r(8), "hpme": r(7), "tpm": r(6), "tpmcr": r(5),
             "hpmn": r(4, 0)},
    "HPFAR": {"fipa": r(31, 4)},
    "HSR": {"ec": r(31, 26), "il": r(25), "iss": r(24, 0)},
    "HSTR": {"tjdbx": r(17), "ttee": r(16)},
    "IdPfr1": {"gt": r(19, 16), "ve": r(15, 12), "m_profile": r(11, 8), "se": r(7, 4), "pm": r(3, 0)},
    "JMCR": {"je": r(0)},
    "MIDR": {"implementer": r(31, 24), "variant": r(23, 20), "architecture": r(19, 16),
             "primary_part_number": r(15, 4), "revision": r(3, 0)},
    "MPUIR": {"nu": r(0), "iregion": r(23, 16), "dregion": r(15, 8)},
    "NMRR": {},
    "NSACR": {"nsd32dis": r(14), "nsasedis": r(15), "rfr": r(19), "nstrcdis": r(20)},
    "PMCR": {"e": r(0), "p": r(1), "c": r(2), "d": r(3), "x": r(4), "dp": r(5), "imp": r(31, 24), "idcode": r(23, 16),
             "n": r(15, 11)},
    "PRRR": {"ns1": r(19), "ns0": r(18), "ds1": r(17), "ds0": r(16)},
    "RSR": {"rsize": r(5, 1), "en": r(0)},
    "RACR": {"xn": r(12), "ap": r(10, 8), "tex": r(5, 3), "s": r(2), "c": r(1), "b": r(0)},
    "SDER": {"suniden": r(1), "suiden": r(0)},
    "SUNAVCR": {"v": r(0)},
    "TEECR": {"xed": r(0)},
    "DACR": {}, "VBAR": {}, "RGNR": {},
}
for _k in ("DRSR", "IRSR"):
    FIELDS[_k] = FIELDS["RSR"]
for _k in ("DRACR", "IRACR"):
    FIELDS[_k] = FIELDS["RACR"]

# (getter, setter, index range, positions(n))
INDEXED = {
    "CPACR": [("get_cp_n", "set_cp_n", range(14), lambda n: r(2 * n + 1, 2 * n))],
    "DACR": [("get_d_n", "set_d_n", range(16), lambda n: r(2 * n + 1, 2 * n))],
    "HCPTR": [("get_tcp_n", "set_tcp_n", range(14), lambda n: r(n))],
    "HCR": [("get_tid_n", "set_tid_n", range(4), lambda n: r(15 + n))],
    "HSTR": [("get_t_n", "set_t_n", range(16), lambda n: r(n))],
    "NMRR": [("get_ir_n", "set_ir_n", range(8), lambda n: r(2 * n + 1, 2 * n)),
             ("get_or_n", "set_or_n", range(8), lambda n: r(2 * n + 17, 2 * n + 16))],
    "NSACR": [("get_cp_n", "set_cp_n", range(14), lambda n: r(n))],
    "PRRR": [("get_tr_n", "set_tr_n", range(8), lambda n: r(2 * n + 1, 2 * n)),
             ("get_nos_n", "set_nos_n", range(8), lambda n: r(24 + n))],
    "RSR": [("get_sd_n", "set_sd_n", range(8), lambda n: r(8 + n))],
}
INDEXED["DRSR"] = INDEXED["IRSR"] = INDEXED["RSR"]
# whole-register accessors taking/returning a field value
WHOLE = {
    "VBAR": [("get_base_address", "set_base_address", r(31, 5))],
}
