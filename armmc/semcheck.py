"""Driver for the model-based semantic checks (C01-C04, C09, ...): execute one generated instruction instance on the
real emulator from a prepared state and compare the WHOLE post-state with the reference model's prediction.

The binding model <-> code is per transition: every case the explorer executes on the implementation is compared with
the model's prediction for the same pre-state (evidence: transitions = traces_validated_against_impl)."""
from . import machine, isa, sweep
from .ref import state as rstate
from .ref.state import St, ModelStop, Unpredictable, phys
from .ref.enc import A32, T16, T32

CODE = isa.CODE


class SemEnv:
    """One processor (configuration) + plan + base snapshot; cases are installed by editing a copy of the base."""

    def __init__(self, cfg=None, memsys="mpu-off"):
        self.cfg = dict(cfg or {})
        self.env = sweep.Env(memsys, self.cfg)
        self.cpu = self.env.cpu
        self.plan = self.env.plan
        self.base = self.env.base("svc", "ram")
        self.names = self.plan.names
        self.index = self.plan.index
        full = dict(machine.base_config())
        full.update(self.cfg)
        self.fullcfg = full
        self.ver = full["arch_version"]

    def install(self, word, row, mode, regvals, nzcvq=0, ge=None, it=0, addr=CODE, extra=None, cpsr_or=0, aif=None):
        """regvals: {n: value} for the current mode's view.  Returns the pre-state regs tuple as installed."""
        regs = list(self.base[0])
        ix = self.index
        thumb = row.iset != A32
        # backgrounds the caller does not fix are spread deterministically over the cases (a frame condition is only
        # as good as the variety of the state it is checked against): GE<3:0> and the A/I/F masks
        h = (word ^ (word >> 9) ^ (word >> 19) ^ nzcvq ^ (mode << 1)) & 0xFF
        if ge is None:
            ge = (0b0000, 0b1010, 0b0101, 0b1111)[h & 3]
        if aif is None:
            aif = (0b111, 0b000, 0b101, 0b010)[(h >> 2) & 3]
        cpsr = mode | (nzcvq << 27) | (ge << 16) | cpsr_or | (aif << 6)
        if thumb:
            cpsr |= 0x20 | ((it & 3) << 25) | ((it >> 2) << 10)
        regs[ix["cpsr"]] = cpsr
        for n, v in regvals.items():
            regs[ix[phys(n, mode)]] = v
        regs[ix["R.PC"]] = addr
        if extra:
            for k, v in extra.items():
                regs[ix[k]] = v
        self.plan.restore((tuple(regs), self.base[1]))
        machine.put_instr(self.cpu, addr, word, thumb, row.width)
        return tuple(regs)

    def run(self, word, row, fields, mode, regvals, nzcvq=0, ge=None, it=0, addr=CODE, extra=None, mempatch=None, cpsr_or=0,
            model_hook=None, aif=None):
        """Executes one case.  Returns (diffs, outcome, info): diffs = [(loc, model, impl)], or None if the model
        classes the instance UNPREDICTABLE."""
        plan = self.plan
        pre_regs = self.install(word, row, mode, regvals, nzcvq, ge, it, addr, extra, cpsr_or, aif)
        if mempatch:
            for a, data in mempatch:
                machine.put(self.cpu, a, data)
        pre_mem = plan.mem()
        out = machine.step(self.cpu)
        post_regs = plan.regs()
        post_mem = plan.mem()
        st = St(self.names, pre_regs, pre_mem, self.fullcfg)
        st.ilen = row.width // 8
        if model_hook:
            model_hook(st)
        ctx = {"ver": self.ver, "in_it": st.in_it_block(), "last_it": st.last_in_it_block(), "C": st.C}
        try:
            if row.unpredictable is not None and row.unpredictable(fields, ctx):
                return None, out, "unpredictable"
            ops = row.operands(fields, ctx)
            was_in_it = st.in_it_block()
            stop = None
            try:
                row.sem(st, ops, fields)
                st.finish()
                if was_in_it and not getattr(st, "it_written", False):
                    st.it_advance()
            except ModelStop as ms:
                stop = ms
                from .ref import exc as rexc
                rexc.take(st, ms)
                if st.M == rstate.HYP:
                    st.unknown.add("hsr")        # syndrome values are not modelled
        except Unpredictable:
            return None, out, "unpredictable"
        if out[0] != "ok":
            if stop is not None and stop.kind == "notimpl" and out[0] == "notimpl":
                return [], out, "notimpl"
            return [("step-outcome", "completes" if stop is None else stop.kind, out)], out, "host"
        if stop is not None and stop.kind == "notimpl":
            return [("step-outcome", "NotImplementedError (hook %s)" % stop.info.get("hook"), "completed")], out, "x"
        return st.compare(self.names, post_regs, post_mem), out, (stop.kind if stop else "ok")


def describe(row, fields, word, mode, regvals, extra=""):
    return "%s %#x fields=%r mode=%s regs={%s} %s" % (
        row.cls, word, fields, machine.MODE_NAMES.get(mode, mode),
        ", ".join("r%d=%#x" % (n, v) for n, v in sorted(regvals.items())), extra)
