"""setup_cmd: engine self-checks (grown as engines are added). Exit 0 when the framework is usable."""
import sys


def main():
    ok = True
    from .ref import bv
    # a few fixed points of the pseudocode transcription (values from the ARM ARM text)
    assert bv.add_with_carry(0xFFFFFFFF, 1, 0) == (0, 1, 0)
    assert bv.add_with_carry(0x7FFFFFFF, 1, 0) == (0x80000000, 0, 1)
    assert bv.arm_expand_imm_c(0x4FF, 0) == (0xFF000000, 1)
    assert bv.thumb_expand_imm_c(0x400, 0)[:2] == (0x80000000, 1)
    assert bv.decode_imm_shift(3, 0) == ("RRX", 1)
    import armulator.armv6.arm_v6  # noqa: the code under test must import
    try:
        from . import lazyword
        ok = lazyword.selftest() and ok
    except ImportError:
        pass
    print("selftest", "ok" if ok else "FAILED")
    return 0 if ok else 2


if __name__ == "__main__":
    sys.exit(main())
