"""armmc - bounded-exhaustive model checking of matan1008/armulator on the real code.

Importing this package puts the code under test on sys.path: $ARMMC_REPO if set (a scratch
copy for mutation demos), else /repo (whose editable install /venv already resolves).
"""
import os
import sys

REPO = os.environ.get("ARMMC_REPO", "/repo")
if REPO not in sys.path:
    sys.path.insert(0, REPO)
VERIF = os.path.dirname(os.path.dirname(os.path.abspath(__file__)))
