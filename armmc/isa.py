"""Instruction alphabets and the standard execution environment shared by the differential / invariant checks."""
import json
import os

from . import machine

_H = None
CODE = 0x10800          # where the instruction under test is placed (mid RAM of machine.MEM_STD)
DATA = 0x10100          # registers point here


def harvest():
    """The instruction words the repository's own tests decode: [(T, opcode_len, word, class name, itstate)]."""
    global _H
    if _H is None:
        with open(os.path.join(os.path.dirname(__file__), "data", "harvest.json")) as f:
            _H = [tuple(x) for x in json.load(f)]
    return _H


def harvest_words(thumb=None):
    out = []
    seen = set()
    for t, ol, w, cname, it in harvest():
        if cname == "None":
            continue
        if thumb is not None and bool(t) != thumb:
            continue
        k = (t, ol, w)
        if k in seen:
            continue
        seen.add(k)
        out.append((t, ol, w, cname))
    return out


def std_cpu(**ov):
    """A processor with MPU/MMU off and registers pointing into RAM, plus its accessor plan and baseline snapshot."""
    cpu = machine.new_cpu(**ov)
    cpu.take_reset()
    regs = cpu.registers
    regs.sctlr.m = 0
    regs.sctlr.u = 1
    plan = machine.Plan(cpu)
    for name, m in machine.MODES.items():
        if regs.bad_mode(m):
            continue
        regs.cpsr.m = m
        for n in range(15):
            regs.set(n, DATA + 0x40 * n + (0x400 if name == "fiq" and n >= 8 else 0))
    regs.cpsr.value = 0x000001D3       # svc, ARM, A I F masked
    regs.set_event_register(True)      # a pending event: a condition-failed WFE must not consume it
    return cpu, plan, plan.snapshot()


def place(cpu, word, thumb, olen, addr=CODE):
    machine.put_instr(cpu, addr, word, thumb, olen)
    cpu.registers.branch_to(addr)
    cpu.registers.cpsr.t = 1 if thumb else 0
