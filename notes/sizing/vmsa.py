import sys, json, struct
sys.path.insert(0,'/repo')
cfg=json.load(open('/repo/armulator/armv6/arm_configurations.json'))
cfg['memory_system_architecture']='VMSA'; cfg['arch_version']=7
cfg['memory_list']=[{"mem_type":"RAM","beginning":0,"end":0x10000}]
json.dump(cfg,open('vmsa.json','w'))
from armulator.armv6.arm_v6 import ArmV6
from armulator.armv6.arm_exceptions import *
arm=ArmV6('vmsa.json'); arm.take_reset()
r=arm.registers
ram=arm.mem.memories[0].mem
r.ttbr0_64=0x4000; r.ttbcr.value=0
r.dacr.value=0x55555555
# section: VA 0x00100000 -> PA 0x00000000 AP=011 domain 0
l1=(0x000<<20)|(0b011<<10)|0b10
ram.memory_array[0x4000+4*1:0x4000+4*1+4]=struct.pack('<I',l1)
# page table at index 2 -> l2 table at 0x8000 ; small page idx 3 -> PA 0x5000
ram.memory_array[0x4000+8:0x4000+12]=struct.pack('<I',0x8000|0b01)
ram.memory_array[0x8000+12:0x8000+16]=struct.pack('<I',0x5000|(0b11<<4)|0b10)
for tre in (1,0):
  r.sctlr.tre=tre; r.sctlr.m=1
  for va in (0x00100123,0x00203456,0x00300000):
    try:
        d=arm.translate_address(va,True,False,4,True)
        print(tre,hex(va),'->',hex(d.paddress.physicaladdress), d.memattrs.type)
    except DataAbortException as e:
        print(tre,hex(va),'abort',e.abort_type, hex(r.dfsr.value), hex(r.dfar))
    except BaseException as e:
        print(tre,hex(va),'EXC',type(e).__name__,e)
# LPAE
cfg['have_lpae']=True; json.dump(cfg,open('lpae.json','w'))
arm=ArmV6('lpae.json'); arm.take_reset(); r=arm.registers; ram=arm.mem.memories[0].mem
r.ttbcr.eae=1; r.sctlr.m=1; r.ttbr0_64=0x4000
# level1 block: 1GB block idx0 -> PA 0x0 , AF=1
desc=(0x0)|(1<<10)|0b01
ram.memory_array[0x4000:0x4008]=struct.pack('<Q',desc)
for va in (0x00000123,0x40000000):
    try:
        d=arm.translate_address(va,True,False,4,True); print('ld',hex(va),'->',hex(d.paddress.physicaladdress))
    except DataAbortException as e: print('ld',hex(va),'abort',e.abort_type,hex(r.dfsr.value))
    except BaseException as e: print('ld',hex(va),'EXC',type(e).__name__,e)
import traceback
try:
    arm.translate_address(0x123,True,False,4,True)
except BaseException as e:
    traceback.print_exc()
