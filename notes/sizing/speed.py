import time, io, contextlib, sys
sys.path.insert(0,'/repo')
from armulator.armv6.arm_v6 import ArmV6
from armulator.armv6.opcodes.decoders import arm_instruction_set, thumb_instruction_set_encoding_16_bit, thumb_instruction_set_encoding_32_bit
from armulator.armv6.memory_controller_hub import MemoryController
from armulator.armv6.memory_types import RAM
import random
random.seed(1)
N=200000
ws=[random.getrandbits(32) for _ in range(N)]
t=time.time()
err={}
for w in ws:
    try: arm_instruction_set.decode_instruction(w)
    except Exception as e: err[type(e).__name__]=err.get(type(e).__name__,0)+1
dt=time.time()-t
print("arm decode us/op",dt/N*1e6,err)
t=time.time(); err={}
for w in range(65536):
    try: thumb_instruction_set_encoding_16_bit.decode_instruction(w)
    except Exception as e: err[type(e).__name__]=err.get(type(e).__name__,0)+1
dt=time.time()-t
print("t16 decode us/op",dt/65536*1e6,err)
t=time.time(); err={}
for w in ws:
    w = (w & 0x1fffffff)|0xe0000000
    if (w>>27)&3==0: w|=0x08000000
    try: thumb_instruction_set_encoding_32_bit.decode_instruction(w)
    except Exception as e: err[type(e).__name__]=err.get(type(e).__name__,0)+1
dt=time.time()-t
print("t32 decode us/op",dt/N*1e6,err)

# full emulate_cycle
arm=ArmV6(); arm.take_reset(); arm.registers.sctlr.m=0
ram=RAM(0x100); arm.mem.memories.append(MemoryController(ram,0x0F000000,0x0F000100))
arm.registers.cpsr.t=0
import struct
out=io.StringIO()
err={}
t=time.time()
M=50000
with contextlib.redirect_stdout(out):
  for w in ws[:M]:
    arm.registers.branch_to(0x0F000000)
    arm.registers.cpsr.value=0x13|0x1c0
    ram.memory_array[0:4]=struct.pack('<I',w)
    try: arm.emulate_cycle()
    except BaseException as e: err[type(e).__name__]=err.get(type(e).__name__,0)+1
dt=time.time()-t
print("emulate arm us/op",dt/M*1e6,err, len(ram.memory_array))
t=time.time()
arm2=ArmV6()
print("ctor ms",(time.time()-t)*1e3)
import copy
t=time.time()
for i in range(100): c=copy.deepcopy(arm)
print("deepcopy ms",(time.time()-t)*10)
