"""sizing prototype (not framework code): lazily-resolved instruction word, cube refinement"""
import sys, time, io, contextlib, operator
sys.path.insert(0,'/repo')

class NeedBits(Exception):
    def __init__(self, bits): self.bits=bits

Z=-1; O=-2   # constant provenance markers

def mk(ctx, prov):
    # strip high const zeros; collapse if all const/resolved
    mask,val=ctx
    v=0; unresolved=False; out=[]
    for i,p in enumerate(prov):
        if p==O: v|=1<<i; out.append(O)
        elif p==Z: out.append(Z)
        elif (mask>>p)&1:
            if (val>>p)&1: v|=1<<i; out.append(O)
            else: out.append(Z)
        else:
            unresolved=True; out.append(p)
    if not unresolved: return v
    while out and out[-1]==Z: out.pop()
    return L(ctx, tuple(out), v)

class L:
    __slots__=('ctx','prov','base')
    def __init__(s, ctx, prov, base): s.ctx=ctx; s.prov=prov; s.base=base
    def deps(s): return [p for p in s.prov if p>=0]
    def force(s): raise NeedBits(sorted(set(s.deps())))
    # routing
    def __and__(s,o):
        if isinstance(o,L): s.force_pair(o)
        if o<0: o &= (1<<len(s.prov))-1
        return mk(s.ctx, [p if (o>>i)&1 else Z for i,p in enumerate(s.prov)])
    __rand__=__and__
    def __or__(s,o):
        if isinstance(o,L):
            n=max(len(s.prov),len(o.prov)); a=list(s.prov)+[Z]*(n-len(s.prov)); b=list(o.prov)+[Z]*(n-len(o.prov))
            out=[]
            for x,y in zip(a,b):
                if x==Z: out.append(y)
                elif y==Z: out.append(x)
                elif x==O or y==O: out.append(O)
                else: s.force_pair(o)
            return mk(s.ctx,out)
        n=max(len(s.prov), o.bit_length())
        a=list(s.prov)+[Z]*(n-len(s.prov))
        return mk(s.ctx,[O if (o>>i)&1 else a[i] for i in range(n)])
    __ror__=__or__
    def force_pair(s,o): raise NeedBits(sorted(set(s.deps()+o.deps())))
    def __lshift__(s,n):
        if isinstance(n,L): n.force()
        return mk(s.ctx,[Z]*n+list(s.prov))
    def __rshift__(s,n):
        if isinstance(n,L): n.force()
        return mk(s.ctx, list(s.prov[n:]))
    def __add__(s,o):
        # disjoint => or
        if isinstance(o,L):
            n=max(len(s.prov),len(o.prov)); a=list(s.prov)+[Z]*(n-len(s.prov)); b=list(o.prov)+[Z]*(n-len(o.prov))
            if all(x==Z or y==Z for x,y in zip(a,b)): return s|o
            s.force_pair(o)
        if all(((o>>i)&1)==0 or (i>=len(s.prov) or s.prov[i]==Z) for i in range(max(o.bit_length(),1))): return s|o
        s.force()
    __radd__=__add__
    def _arith(s,*a): s.force()
    __sub__=__rsub__=__mul__=__rmul__=__floordiv__=__rfloordiv__=__mod__=__rmod__=__pow__=__rpow__=__xor__=__rxor__=__neg__=__invert__=_arith
    __rlshift__=__rrshift__=_arith
    def __index__(s): s.force()
    __int__=__index__
    def __hash__(s): s.force()
    def __bool__(s):
        # nonzero: any const one -> True; else need bits one by one
        if any(p==O for p in s.prov): return True
        raise NeedBits([s.deps()[-1]])
    def _cmp(s,o,op):
        if isinstance(o,L): s.force_pair(o)
        # MSB-first decision list vs constant o
        n=max(len(s.prov), o.bit_length()) if o>=0 else None
        if o<0: s.force()
        for i in range(n-1,-1,-1):
            p=s.prov[i] if i<len(s.prov) else Z
            ob=(o>>i)&1
            if p==Z: sb=0
            elif p==O: sb=1
            else: raise NeedBits([p])
            if sb!=ob: return op(sb,ob)
        return op(0,0)
    def __eq__(s,o): return s._cmp(o,operator.eq)
    def __ne__(s,o): return s._cmp(o,operator.ne)
    def __lt__(s,o): return s._cmp(o,operator.lt)
    def __le__(s,o): return s._cmp(o,operator.le)
    def __gt__(s,o): return s._cmp(o,operator.gt)
    def __ge__(s,o): return s._cmp(o,operator.ge)

def word(mask,val,width=32):
    return mk((mask,val), list(range(width)))

def explore(f, width=32, mask0=0, val0=0, leaf=None):
    stack=[(mask0,val0)]
    runs=0; leaves=0; total=0; results={}
    while stack:
        mask,val=stack.pop()
        runs+=1
        try:
            r=f(word(mask,val,width))
        except NeedBits as nb:
            bits=[b for b in nb.bits if not (mask>>b)&1]
            assert bits
            k=len(bits)
            for a in range(1<<k):
                m=mask; v=val
                for j,b in enumerate(bits):
                    m|=1<<b
                    if (a>>j)&1: v|=1<<b
                stack.append((m,v))
            continue
        except Exception as e:
            r='EXC:'+type(e).__name__
        leaves+=1
        free=width-bin(mask).count('1')
        total+=1<<free
        key=r if isinstance(r,str) else getattr(r,'__name__',repr(r))
        results[key]=results.get(key,0)+(1<<free)
        if leaf: leaf(mask,val,r)
    return runs,leaves,total,results

if __name__=='__main__':
    from armulator.armv6.opcodes.decoders import arm_instruction_set, thumb_instruction_set_encoding_16_bit, thumb_instruction_set_encoding_32_bit
    out=io.StringIO()
    with contextlib.redirect_stdout(out):
        t=time.time(); r=explore(arm_instruction_set.decode_instruction); dt=time.time()-t
    print('ARM decode: runs',r[0],'leaves',r[1],'total',r[2],r[2]==1<<32,'classes',len(r[3]),'time',dt)
    with contextlib.redirect_stdout(out):
        t=time.time(); r=explore(thumb_instruction_set_encoding_16_bit.decode_instruction,16); dt=time.time()-t
    print('T16 decode: runs',r[0],'leaves',r[1],'total',r[2],'classes',len(r[3]),'time',dt)
    # cross-validate T16 by brute force
    with contextlib.redirect_stdout(out):
      bf={}
      for w in range(1<<16):
        try: c=thumb_instruction_set_encoding_16_bit.decode_instruction(w)
        except Exception as e: c='EXC:'+type(e).__name__
        k=c if isinstance(c,str) else getattr(c,'__name__',repr(c))
        bf[k]=bf.get(k,0)+1
    print('T16 brute == lazy:', bf==r[3])
    with contextlib.redirect_stdout(out):
        t=time.time(); r=explore(thumb_instruction_set_encoding_32_bit.decode_instruction,32,0xe0000000,0xe0000000); dt=time.time()-t
    print('T32 decode: runs',r[0],'leaves',r[1],'total',r[2],'classes',len(r[3]),'time',dt)
    print({k:v for k,v in r[3].items() if k.startswith('EXC') or k=='None'})
