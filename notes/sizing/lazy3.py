"""sizing prototype v2: arithmetic yields opaque dependent values; only control-flow observations refine the cube"""
import sys, time, io, contextlib, operator, collections
sys.path.insert(0,'/repo')
from lazy import NeedBits, Z, O
import lazy

class Op:
    """opaque: value under representative (free bits 0) + dependency set"""
    __slots__=('deps','v')
    def __init__(s,deps,v): s.deps=deps; s.v=v
    def force(s): raise NeedBits(sorted(s.deps))
def val(x): return x.v if isinstance(x,Op) else (x.base if isinstance(x,lazy.L) else x)
def deps(x): return x.deps if isinstance(x,Op) else (frozenset(x.deps()) if isinstance(x,lazy.L) else frozenset())
def binop(op):
    def f(a,b): return Op(deps(a)|deps(b), op(val(a),val(b)))
    def r(a,b): return Op(deps(a)|deps(b), op(val(b),val(a)))
    return f,r
for name,op in [('add',operator.add),('sub',operator.sub),('mul',operator.mul),('floordiv',operator.floordiv),('mod',operator.mod),('pow',operator.pow),('xor',operator.xor),('and',operator.and_),('or',operator.or_),('lshift',operator.lshift),('rshift',operator.rshift)]:
    f,r=binop(op)
    setattr(Op,'__%s__'%name,f); setattr(Op,'__r%s__'%name,r)
Op.__neg__=lambda s: Op(s.deps,-s.v)
Op.__invert__=lambda s: Op(s.deps,~s.v)
for n in ['__index__','__int__','__hash__','__bool__','__eq__','__ne__','__lt__','__le__','__gt__','__ge__']:
    setattr(Op,n,lambda s,*a: s.force())
# patch L arithmetic fallbacks to produce Op instead of forcing
L=lazy.L
def l_arith(op,rev=False):
    def f(a,b):
        return Op(deps(a)|deps(b), op(val(b),val(a)) if rev else op(val(a),val(b)))
    return f
for name,op in [('sub',operator.sub),('mul',operator.mul),('floordiv',operator.floordiv),('mod',operator.mod),('pow',operator.pow),('xor',operator.xor)]:
    setattr(L,'__%s__'%name,l_arith(op)); setattr(L,'__r%s__'%name,l_arith(op,True))
L.__rlshift__=l_arith(operator.lshift,True); L.__rrshift__=l_arith(operator.rshift,True)
L.__neg__=lambda s: Op(frozenset(s.deps()),-s.base); L.__invert__=lambda s: Op(frozenset(s.deps()),~s.base)
_old_add=L.__add__
def l_add(s,o):
    try: return _old_add(s,o)
    except NeedBits: return Op(deps(s)|deps(o), val(s)+val(o))
L.__add__=L.__radd__=l_add
def l_force_pair(s,o): raise NeedBits(sorted(deps(s)|deps(o)))
_old_and=L.__and__
def l_and(s,o):
    if isinstance(o,(L,Op)): return Op(deps(s)|deps(o), val(s)&val(o))
    return _old_and(s,o)
L.__and__=L.__rand__=l_and
_old_or=L.__or__
def l_or(s,o):
    if isinstance(o,Op): return Op(deps(s)|deps(o), val(s)|val(o))
    try: return _old_or(s,o)
    except NeedBits: return Op(deps(s)|deps(o), val(s)|val(o))
L.__or__=L.__ror__=l_or
_old_ls=L.__lshift__
def l_ls(s,n):
    if isinstance(n,(L,Op)): return Op(deps(s)|deps(n), val(s)<<val(n))
    return _old_ls(s,n)
L.__lshift__=l_ls
_old_rs=L.__rshift__
def l_rs(s,n):
    if isinstance(n,(L,Op)): return Op(deps(s)|deps(n), val(s)>>val(n))
    return _old_rs(s,n)
L.__rshift__=l_rs
_old_cmp=L._cmp
def l_cmp(s,o,op):
    if isinstance(o,(L,Op)): raise NeedBits(sorted(deps(s)|deps(o)))
    return _old_cmp(s,o,op)
L._cmp=l_cmp

from armulator.armv6.arm_v6 import ArmV6
from armulator.armv6.opcodes.decoders import arm_instruction_set, thumb_instruction_set_encoding_16_bit, thumb_instruction_set_encoding_32_bit
arm=ArmV6(); arm.take_reset()
def mkf(dec, olen, t):
    def f(w):
        arm.opcode_len=olen; arm.registers.cpsr.t=t; arm.opcode=w
        c=dec(w)
        if c is None: return 'None'
        o=c.from_bitarray(w, arm)
        if o is None: return c.__name__+':unpred'
        f.last=o
        return c.__name__
    return f
out=io.StringIO()
big=collections.Counter(); attrdeps=collections.Counter()
def mkleaf(f):
    def leaf(mask,val_,r):
        k=r if isinstance(r,str) else r.__name__
        big[k]+=1
        o=getattr(f,'last',None)
        if o is not None and not k.startswith('EXC') and not k.endswith('unpred') and k!='None':
            for a,v in vars(o).items():
                if a=='instruction': continue
                d=[b for b in deps(v) if not (mask>>b)&1]
                if isinstance(v,Op): attrdeps[(k,a,'opaque')]=max(attrdeps[(k,a,'opaque')],len(d))
        f.last=None
    return leaf
for name,dec,olen,t,w,m0,v0 in [('T16',thumb_instruction_set_encoding_16_bit.decode_instruction,16,1,16,0,0),('T32',thumb_instruction_set_encoding_32_bit.decode_instruction,32,1,32,0xe0000000,0xe0000000),('A32',arm_instruction_set.decode_instruction,32,0,32,0,0)]:
    big.clear(); attrdeps.clear()
    f=mkf(dec,olen,t)
    with contextlib.redirect_stdout(out):
        t0=time.time(); r=lazy.explore(f,w,m0,v0,leaf=mkleaf(f)); dt=time.time()-t0
    print(name,'dec+fb: runs',r[0],'leaves',r[1],'total',r[2],'classes',len(r[3]),'time',round(dt,1))
    print(' top leaves:',big.most_common(12))
    print(' opaque attrs (max free deps):',sorted(attrdeps.items(), key=lambda kv:-kv[1])[:30])
    print(' EXC:',{k:v for k,v in r[3].items() if k.startswith('EXC')})
