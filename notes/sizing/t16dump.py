import sys, io, contextlib
from lazy import *
from armulator.armv6.opcodes.decoders import thumb_instruction_set_encoding_16_bit as t16
rows=[]
def leaf(mask,val,r):
    k=r if isinstance(r,str) else getattr(r,'__name__',repr(r))
    pat=''.join(('1' if (val>>i)&1 else '0') if (mask>>i)&1 else 'x' for i in range(15,-1,-1))
    rows.append((pat,k))
out=io.StringIO()
with contextlib.redirect_stdout(out):
    explore(t16.decode_instruction,16,leaf=leaf)
for p,k in sorted(rows, key=lambda r:r[0].replace('x','0')): print(p,k)
