import sys
exec(open('lazy3.py').read().split("for name,dec,olen,t,w,m0,v0 in")[0])
cond=int(sys.argv[1],16)
big.clear(); attrdeps.clear()
f=mkf(arm_instruction_set.decode_instruction,32,0)
with contextlib.redirect_stdout(out):
    t0=time.time(); r=lazy.explore(f,32,0xf0000000,cond<<28,leaf=mkleaf(f)); dt=time.time()-t0
print('A32 cond',hex(cond),'dec+fb: runs',r[0],'leaves',r[1],'total',r[2],'classes',len(r[3]),'time',round(dt,1))
print(' top leaves:',big.most_common(16))
print(' opaque attrs (max free deps):',sorted(attrdeps.items(), key=lambda kv:-kv[1])[:30])
print(' EXC:',{k:v for k,v in r[3].items() if k.startswith('EXC')})
