import sys
src=open('lazy3.py').read().split("for name,dec,olen,t,w,m0,v0 in")[0]
exec(src)
CAP=10
def patterns(k):
    ps={0,(1<<k)-1}
    for i in range(k):
        ps.add(1<<i); ps.add(((1<<k)-1)^(1<<i))
    for i in range(k):
        for j in range(i+1,k): ps.add((1<<i)|(1<<j))
    return sorted(ps)
capped=collections.Counter()
def explore_capped(f, width=32, mask0=0, val0=0, leaf=None):
    stack=[(mask0,val0)]; runs=0; leaves=0; total=0; results={}
    while stack:
        mask,val=stack.pop(); runs+=1
        try: r=f(lazy.word(mask,val,width))
        except NeedBits as nb:
            bits=[b for b in nb.bits if not (mask>>b)&1]; k=len(bits)
            assigns=range(1<<k) if k<=CAP else patterns(k)
            if k>CAP: capped[k]+=1
            for a in assigns:
                m=mask; v=val
                for j,b in enumerate(bits):
                    m|=1<<b
                    if (a>>j)&1: v|=1<<b
                stack.append((m,v))
            continue
        except Exception as e: r='EXC:'+type(e).__name__
        leaves+=1; total+=1<<(width-bin(mask).count('1'))
        key=r if isinstance(r,str) else getattr(r,'__name__',repr(r))
        results[key]=results.get(key,0)+1
        if leaf: leaf(mask,val,r)
    return runs,leaves,total,results
for name,dec,olen,t,w,m0,v0 in [('T32',thumb_instruction_set_encoding_32_bit.decode_instruction,32,1,32,0xe0000000,0xe0000000),('A32',arm_instruction_set.decode_instruction,32,0,32,0,0)]:
    f=mkf(dec,olen,t); capped.clear()
    with contextlib.redirect_stdout(out):
        t0=time.time(); r=explore_capped(f,w,m0,v0); dt=time.time()-t0
    print(name,'capped dec+fb: runs',r[0],'leaves',r[1],'words covered',r[2],'outcomes',len(r[3]),'time',round(dt,1),'capped obs',dict(capped))
