import sys, io, contextlib, struct, traceback, collections
sys.path.insert(0,'/repo')
from armulator.armv6.arm_v6 import ArmV6
from armulator.armv6.memory_controller_hub import MemoryController
from armulator.armv6.memory_types import RAM
def mk(thumb):
    arm=ArmV6(); arm.registers.sctlr.te=thumb; arm.take_reset(); arm.registers.sctlr.m=0
    ram=RAM(0x1000); arm.mem.memories.append(MemoryController(ram,0x10000,0x11000))
    arm.registers.branch_to(0x10000); return arm,ram
out=io.StringIO()
with contextlib.redirect_stdout(out):
    # MUL r2,r0,r1 S=1 : e0120190 ; 0x10000*0x10000
    arm,ram=mk(0); ram.memory_array[0:4]=struct.pack('<I',0xe0120190); arm.registers.set(0,0x10000); arm.registers.set(1,0x10000); arm.emulate_cycle()
    r1=('MULS 0x10000*0x10000: r2=%x Z=%d (expect r2=0 Z=1)'%(arm.registers.get(2),arm.registers.cpsr.z))
    # B.W T3 backward: cond EQ, offset -4: f43f affe
    arm,ram=mk(1); ram.memory_array[0x100:0x104]=struct.pack('<HH',0xf43f,0xaffe); arm.registers.branch_to(0x10100); arm.registers.cpsr.z=1; arm.emulate_cycle()
    r2=('BEQ.W -4 at 0x10100 -> pc=%x (expect 0x10100)'%arm.registers.pc_store_value())
    # LDR pc,[r0,r1] ARM: e790f001
    arm,ram=mk(0); ram.memory_array[0:4]=struct.pack('<I',0xe790f001); ram.memory_array[0x40:0x44]=struct.pack('<I',0x10800); arm.registers.set(0,0x10040); arm.registers.set(1,0); arm.emulate_cycle()
    r3=('LDR pc,[r0,r1] mem=0x10800 -> pc=%x (expect 0x10800)'%arm.registers.pc_store_value())
    # ADD r0,r1,r2,LSL r3 with cond NE failing: 10810312 ; Z=1
    arm,ram=mk(0); ram.memory_array[0:4]=struct.pack('<I',0x10810312); arm.registers.cpsr.z=1; arm.registers.set(1,5); arm.registers.set(2,1); arm.registers.set(3,1); arm.emulate_cycle()
    r4=('ADDNE r0,r1,r2,LSL r3 with Z=1 -> r0=%x (expect 0)'%arm.registers.get(0))
    # fetch with E=1
    arm,ram=mk(0); ram.memory_array[0:4]=struct.pack('<I',0xe3a00001); arm.registers.cpsr.e=1
    try: arm.emulate_cycle(); r5='MOV r0,#1 with E=1 -> r0=%x pc=%x mode=%x'%(arm.registers.get(0),arm.registers.pc_store_value(),arm.registers.cpsr.m)
    except BaseException as e: r5='E=1 fetch EXC '+type(e).__name__
    # hub straddle
    ram=RAM(6)
    from armulator.armv6.memory_controller_hub import MemoryControllerHub
    from armulator.armv6.address_descriptor import AddressDescriptor
    h=MemoryControllerHub(); h.memories.append(MemoryController(ram,0,6)); ad=AddressDescriptor(); ad.paddress.physicaladdress=4
    h[ad,4]=0x11223344; r6='write 4 bytes at 4 of 6-byte RAM -> len=%d'%len(ram.memory_array)
    try: v=h[ad,8]; r7='read 8 at 4 -> %x'%v
    except BaseException as e: r7='read 8 at 4 EXC '+type(e).__name__
for r in (r1,r2,r3,r4,r5,r6,r7): print(r)
# T32 AttributeError / UnboundLocalError sites in decode+from_bitarray
from armulator.armv6.opcodes.decoders import thumb_instruction_set_encoding_32_bit as t32
arm=ArmV6(); arm.take_reset(); arm.opcode_len=32
sites=collections.Counter()
import random
random.seed(3)
with contextlib.redirect_stdout(out):
  for i in range(300000):
    w=random.getrandbits(32)|0xe0000000
    if (w>>27)&3==0: continue
    try:
        c=t32.decode_instruction(w)
        if c: c.from_bitarray(w,arm)
    except (NotImplementedError,):
        pass
    except Exception as e:
        if type(e).__name__ in('AttributeError','UnboundLocalError','TypeError','AssertionError','IndexError','KeyError'):
            tb=traceback.extract_tb(e.__traceback__)[-1]
            sites[(type(e).__name__, tb.filename.split('/')[-1], tb.name, tb.lineno, str(e)[:60])]+=1
for k,v in sites.most_common(12): print(v,k)
