import json, atexit
from armulator.armv6.arm_v6 import ArmV6
LOG=[]
_orig=ArmV6.decode_instruction
def dec(self, instr):
    c=_orig(self, instr)
    LOG.append((int(self.registers.cpsr.t), self.opcode_len, int(instr), getattr(c,'__name__',None)))
    return c
ArmV6.decode_instruction=dec
def pytest_sessionfinish(session, exitstatus):
    json.dump(LOG, open('/tmp/scratch/plug/harvest.json','w'))
