import time, io, contextlib, sys, copy
sys.path.insert(0,'/repo')
from armulator.armv6.arm_v6 import ArmV6
from armulator.armv6.all_registers.abstract_register import AbstractRegister
arm=ArmV6(); arm.take_reset()
R=arm.registers
def snap(cpu):
    r=cpu.registers
    out=[tuple(r._R.values())]
    for k,v in vars(r).items():
        if k in ('_R','changed_registers'): continue
        if isinstance(v,AbstractRegister): out.append(v.value)
        elif isinstance(v,list): out.append(tuple(x.value if isinstance(x,AbstractRegister) else x for x in v))
        else: out.append(v)
    out.append((cpu.is_wait_for_event,cpu.is_wait_for_interrupt))
    for m in cpu.mem.memories: out.append((m.beginning,m.end,bytes(m.mem.memory_array)))
    return tuple(out)
t=time.time()
for i in range(20000): s=snap(arm)
print('snapshot us',(time.time()-t)/20000*1e6, len(s))
names=[k for k in vars(R) if k not in('_R','changed_registers')]
print(len(names))
t=time.time()
for i in range(100000):
    R.cpsr.value=0x600001d3; R.scr.value=i&0x3f; R._R[list(R._R)[33]]=0x100
    R.take_physical_irq_exception()
print('irq entry us',(time.time()-t)/100000*1e6)
out=io.StringIO()
from armulator.armv6.memory_controller_hub import MemoryController
from armulator.armv6.memory_types import RAM
import struct
ram=RAM(0x100); arm.mem.memories.append(MemoryController(ram,0x0F000000,0x0F000100))
arm.registers.sctlr.m=0
err={}
t=time.time()
with contextlib.redirect_stdout(out):
  for w in range(65536):
    arm.registers.branch_to(0x0F000000)
    arm.registers.cpsr.value=0x13|0x1c0|0x20
    ram.memory_array[0:2]=struct.pack('<H',w)
    try: arm.emulate_cycle()
    except BaseException as e:
        k=type(e).__name__; err[k]=err.get(k,0)+1
print('t16 emulate us',(time.time()-t)/65536*1e6, err)
