#!/usr/bin/env python3
"""Mutation sweep: measures what the checks detect beyond the repository's own tests.

    tools/mutants.py list   <stride>                 # print the selected mutation sites
    tools/mutants.py run    <stride> <out.jsonl> [offset]  # generate, filter by the test-suite, run the mapped checks

A mutant is ONE token-level edit of one source file of /repo/armulator (comparison / arithmetic / shift / bitwise
operator swapped, small integer constant +-1, `and`<->`or`, `not` dropped, True<->False), or - MUT_KINDS=del-stmt - one
single-line assignment / call statement replaced by `pass`.  Sites are enumerated with
`ast` over every source file; every <stride>-th site (per file category) is taken - this tool evaluates the checker, it
is not a check, so a stride sample is fine here.  For each mutant, in a scratch copy under /tmp/mut (removed at the end):
  1. the repository's 686 tests are run; a mutant they kill is of no interest ("killed-by-tests");
  2. otherwise the quick checks mapped to the file are run with ARMMC_REPO=<scratch copy>, stopping at the first one
     that reports a VIOLATION ("killed-by <check>"); if none does the mutant is recorded as "survived" for triage
     (equivalent mutant / UNPREDICTABLE-only / genuinely missed).
Nothing is ever written to /repo.
"""
import ast
import json
import os
import re
import shutil
import subprocess
import sys
import time
from concurrent.futures import ThreadPoolExecutor

REPO = "/repo"
SRC = os.path.join(REPO, "armulator")
SCRATCH = "/tmp/mut"

CMP = {ast.Lt: "<=", ast.LtE: "<", ast.Gt: ">=", ast.GtE: ">", ast.Eq: "!=", ast.NotEq: "=="}
BIN = {ast.Add: "-", ast.Sub: "+", ast.LShift: ">>", ast.RShift: "<<", ast.BitAnd: "|", ast.BitOr: "&",
       ast.Mult: "+", ast.BitXor: "&"}
SYM = {ast.Lt: "<", ast.LtE: "<=", ast.Gt: ">", ast.GtE: ">=", ast.Eq: "==", ast.NotEq: "!=", ast.Add: "+", ast.Sub: "-",
       ast.LShift: "<<", ast.RShift: ">>", ast.BitAnd: "&", ast.BitOr: "|", ast.Mult: "*", ast.BitXor: "^"}


def sites(path):
    """[(lineno, col_start, col_end, old_text, new_text, kind)] - single-line token edits only."""
    src = open(path).read()
    lines = src.split("\n")
    try:
        tree = ast.parse(src)
    except SyntaxError:
        return []
    out = []

    def between(a, b, sym, new, kind):
        if a.end_lineno != b.lineno:
            return
        ln = a.end_lineno
        seg = lines[ln - 1][a.end_col_offset:b.col_offset]
        i = seg.find(sym)
        if i < 0 or seg.strip(" ()") != sym:
            return
        c0 = a.end_col_offset + i
        out.append((ln, c0, c0 + len(sym), sym, new, kind))

    for node in ast.walk(tree):
        if isinstance(node, ast.Compare) and len(node.ops) == 1 and type(node.ops[0]) in CMP:
            between(node.left, node.comparators[0], SYM[type(node.ops[0])], CMP[type(node.ops[0])], "cmp")
        elif isinstance(node, ast.BinOp) and type(node.op) in BIN:
            between(node.left, node.right, SYM[type(node.op)], BIN[type(node.op)], "binop")
        elif isinstance(node, ast.BoolOp) and len(node.values) == 2:
            sym = "and" if isinstance(node.op, ast.And) else "or"
            between(node.values[0], node.values[1], sym, "or" if sym == "and" else "and", "boolop")
        elif isinstance(node, ast.UnaryOp) and isinstance(node.op, ast.Not) and node.lineno == node.operand.lineno:
            seg = lines[node.lineno - 1][node.col_offset:node.operand.col_offset]
            if seg.strip() == "not":
                out.append((node.lineno, node.col_offset, node.operand.col_offset, seg, "", "not"))
        elif isinstance(node, ast.Constant) and node.lineno == node.end_lineno:
            txt = lines[node.lineno - 1][node.col_offset:node.end_col_offset]
            if isinstance(node.value, bool):
                out.append((node.lineno, node.col_offset, node.end_col_offset, txt, str(not node.value), "bool"))
            elif isinstance(node.value, int) and re.fullmatch(r"\d+", txt) and node.value <= 64:
                out.append((node.lineno, node.col_offset, node.end_col_offset, txt, str(node.value + 1), "const+1"))
                if node.value > 0:
                    out.append((node.lineno, node.col_offset, node.end_col_offset, txt, str(node.value - 1), "const-1"))
    # statement deletion: a single-line assignment / augmented assignment / call statement becomes `pass`
    # (a forgotten side effect); print() diagnostics and docstrings are not statements of interest
    for node in ast.walk(tree):
        if isinstance(node, (ast.Assign, ast.AugAssign, ast.Expr)) and node.lineno == node.end_lineno:
            if isinstance(node, ast.Expr):
                v = node.value
                if not isinstance(v, ast.Call):
                    continue
                fn = v.func
                if isinstance(fn, ast.Name) and fn.id == "print":
                    continue
            txt = lines[node.lineno - 1][node.col_offset:node.end_col_offset]
            out.append((node.lineno, node.col_offset, node.end_col_offset, txt, "pass", "del-stmt"))
    out.sort()
    return out


def category(rel):
    if "/abstract_opcodes/" in rel:
        return "abstract"
    if "/concrete/" in rel:
        return "concrete"
    if "/decoders/" in rel or rel.endswith("decode_instruction.py"):
        return "decoders"
    if "/all_registers/" in rel:
        return "regclasses"
    return "core"


LDST = re.compile(r"^(ldr|str|ldrd|strd|ldrex|strex|ldrb|strb|ldrh|strh|ldrs|pld|pli|swp)")
BLOCK = re.compile(r"^(ldm|stm|push|pop|srs|rfe)")
BRANCH = re.compile(r"^(b\.py|b_|bl_|blx|bx|bxj|cbz|tbb|it\.py)")
MEDIA = re.compile(r"^(mul|mla|mls|smla|smlal|smls|smmu|smml|smua|smus|smul|umaal|umlal|umull|sdiv|udiv|ssat|usat|sxt|uxt|"
                   r"bfi|bfc|sbfx|ubfx|rev|rbit|clz|qadd|qsub|qdadd|qdsub|sadd|ssub|sasx|ssax|uadd|usub|uasx|usax|"
                   r"shadd|shsub|shasx|shsax|uhadd|uhsub|uhasx|uhsax|uqadd|uqsub|uqasx|uqsax|qasx|qsax|sel|pkh|usad)")
SYS = re.compile(r"^(mrs|msr|cps|svc|smc|hvc|mcr|mrc|mcrr|mrrc|ldc|stc|cdp|wfi|wfe|sev|yield|nop|setend|bkpt|eret|subs_pc|"
                 r"clrex|dbg|dmb|dsb|isb|udf|enterx|leavex|it)")


def checks_for(rel, lineno):
    base = os.path.basename(rel)
    cat = category(rel)
    if cat == "abstract":
        if LDST.match(base):
            return ["C02", "C13", "C14", "C05", "C04"]
        if BLOCK.match(base):
            return ["C03", "C12", "C10", "C05"]
        if BRANCH.match(base):
            return ["C04", "C08", "C05"]
        if MEDIA.match(base):
            return ["C09", "C05", "C01"]
        if SYS.match(base):
            return ["C12", "C11", "C08", "C05", "C19"]
        return ["C01", "C05", "C04", "C12"]
    if cat == "concrete":
        thumb = re.search(r"_t\d\.py$", base) is not None
        return (["C07", "C18"] if thumb else ["C06", "C18"]) + ["C01", "C02", "C03", "C09", "C04", "C12"]
    if cat == "decoders":
        return (["C07"] if "thumb" in base else ["C06"]) + ["C18"]
    if cat == "regclasses":
        return ["C17", "C11", "C12", "C15", "C14"]
    if base in ("shift.py", "bits_ops.py"):
        return ["C17", "C01", "C09"]
    if base in ("memory_controller_hub.py", "memory_types.py"):
        return ["C16", "C13"]
    if base == "registers.py":
        return ["C10", "C11", "C12", "C17", "C04", "C20"]
    if base == "configurations.py":
        return ["C20", "C11"]
    if base == "arm_v6.py":
        fn = enclosing_function(os.path.join(REPO, rel), lineno)
        for pat, checks in ARMV6_MAP:
            if re.search(pat, fn):
                return checks
        return ["C12", "C11", "C01"]
    return ["C13", "C15", "C14", "C11"]


# function of arm_v6.py -> checks ([] = not behaviour any property talks about: debug output, HSR syndrome, mocks)
ARMV6_MAP = [
    (r"^(__init__|start|format_registers|print_registers|ls_instruction_syndrome|this_instr|write_hsr|switch_to_jazelle|"
     r"null_check_if_thumbee|tlb_lookup_came|bkpt_instr_debug_event|coproc_(get|done|send|internal)|hint_preload|"
     r"data_synchronization|instruction_synchronization|cp1[45]_|cpx_)", []),
    (r"^select_configurations", ["C20"]),
    (r"^take_reset", ["C11", "C20"]),
    (r"^encode_ldfsr", ["C15"]),
    (r"^encode_sdfsr", ["C15", "C13", "C14"]),
    (r"^encode_pmsafsr", ["C14", "C13"]),
    (r"^(current_cond|condition_passed)", ["C05", "C08"]),
    (r"write_pc$", ["C04", "C01", "C02"]),
    (r"^(fcse_translate|default_memory_attributes|convert_attrs_hints|check_permission|check_domain|second_stage|combine_s1s2|"
     r"mair_decode|s2_attr_decode|remap_regs|default_tex_decode|remapped_tex_decode|translation_table_walk|translate_address_v)",
     ["C15", "C19"]),
    (r"^data_abort", ["C15", "C14", "C13"]),
    (r"^alignment_fault", ["C13", "C14", "C15"]),
    (r"^translate_address_p", ["C14", "C19"]),
    (r"^translate_address$", ["C14", "C15", "C13"]),
    (r"exclusive", ["C02"]),
    (r"^mem_i_get", ["C13", "C18"]),
    (r"^mem_", ["C13", "C14", "C02"]),
    (r"^(big_endian|unaligned_support)", ["C13", "C02"]),
    (r"^(hint_yield|clear_event|event_registered|send_event|wait_for)", ["C12"]),
    (r"integer_zero_divide", ["C09"]),
    (r"^(call_supervisor|generate_coprocessor_exception|instr_is_pl0|coproc_accepted)", ["C12", "C11"]),
    (r"^(in_it_block|last_in_it_block)", ["C08", "C07"]),
    (r"^(increment_pc|emulate_cycle|fetch_instruction|decode_instruction|execute_instruction)", ["C04", "C08", "C18"]),
]


def enclosing_function(path, lineno):
    best = ""
    for node in ast.walk(ast.parse(open(path).read())):
        if isinstance(node, (ast.FunctionDef, ast.AsyncFunctionDef)) and node.lineno <= lineno <= node.end_lineno:
            best = node.name
    return best


def all_sites():
    per_cat = {}
    for root, dirs, files in os.walk(SRC):
        dirs.sort()
        for f in sorted(files):
            if not f.endswith(".py"):
                continue
            path = os.path.join(root, f)
            rel = os.path.relpath(path, REPO)
            for s in sites(path):
                per_cat.setdefault(category(rel), []).append((rel,) + s)
    return per_cat


# per-category stride multipliers: the 880 opcode files dominate the site count; core files are sampled denser
DENSITY = {"core": 1, "regclasses": 2, "decoders": 2, "abstract": 3, "concrete": 6}


def select(stride, offset=0):
    out = []
    cats = os.environ.get("MUT_CATS")          # e.g. MUT_CATS=abstract,core restricts the categories
    kinds = os.environ.get("MUT_KINDS")        # e.g. MUT_KINDS=del-stmt restricts the mutation operators
    for cat, lst in sorted(all_sites().items()):
        if cats and cat not in cats.split(","):
            continue
        if kinds:
            lst = [m for m in lst if m[6] in kinds.split(",")]
        else:
            lst = [m for m in lst if m[6] != "del-stmt"]       # the first sweeps used the token operators only
        st = max(1, stride * DENSITY[cat])
        out += [m for i, m in enumerate(lst) if i % st == offset % st]
    return out


def make_copy(k):
    d = os.path.join(SCRATCH, "w%d" % k)
    shutil.rmtree(d, ignore_errors=True)
    os.makedirs(d)
    shutil.copytree(os.path.join(REPO, "armulator"), os.path.join(d, "armulator"),
                    ignore=shutil.ignore_patterns("__pycache__"))
    shutil.copytree(os.path.join(REPO, "tests"), os.path.join(d, "tests"), ignore=shutil.ignore_patterns("__pycache__"))
    return d


def apply(d, m):
    rel, ln, c0, c1, old, new, kind = m
    p = os.path.join(d, rel)
    lines = open(p).read().split("\n")
    line = lines[ln - 1]
    assert line[c0:c1] == old, (m, line)
    lines[ln - 1] = line[:c0] + new + (" " if kind == "not" and False else "") + line[c1:]
    open(p, "w").write("\n".join(lines))


def restore(d, m):
    shutil.copyfile(os.path.join(REPO, m[0]), os.path.join(d, m[0]))


def run_tests(d):
    env = dict(os.environ, PYTHONDONTWRITEBYTECODE="1")
    try:
        r = subprocess.run(["/venv/bin/python", "-B", "-m", "pytest", "-q", "-x", "-p", "no:cacheprovider", "tests"], cwd=d,
                           env=env, capture_output=True, text=True, timeout=300)
    except subprocess.TimeoutExpired:
        return "timeout"
    tail = (r.stdout.strip().splitlines() or ["?"])[-1]
    return "pass" if r.returncode == 0 and "686 passed" in tail else "fail"


def run_check(d, cid):
    env = dict(os.environ, ARMMC_REPO=d, ARMMC_OUT=os.path.join(SCRATCH, "out"))
    t0 = time.time()
    try:
        r = subprocess.run(["/verif/check", cid], cwd="/verif", env=env, capture_output=True, text=True, timeout=900)
    except subprocess.TimeoutExpired:
        return "timeout", "", time.time() - t0
    keys = [l.strip()[5:] for l in r.stdout.splitlines() if l.strip().startswith("key:")]
    viol = "VIOLATION property=" in r.stdout
    return ("VIOLATION" if viol else "rc=%d" % r.returncode), "; ".join(keys[:2])[:200], time.time() - t0


def main():
    cmd = sys.argv[1]
    stride = int(sys.argv[2])
    if cmd == "list":
        sel = select(stride)
        cats = {}
        for m in sel:
            cats[category(m[0])] = cats.get(category(m[0]), 0) + 1
        tot = {c: len(l) for c, l in all_sites().items()}
        print("sites per category:", tot)
        print("selected:", cats, "total", len(sel))
        return
    if cmd == "retry":
        # tools/mutants.py retry 0 <in.jsonl> <out.jsonl> <path-substring> <check> [<check>...]
        # re-runs recorded survivors whose path contains the substring against the given checks (after strengthening)
        src, dst, sub, checks = sys.argv[3], sys.argv[4], sys.argv[5], sys.argv[6:]
        d = os.path.join(SCRATCH + "_retry", "w0")
        shutil.rmtree(d, ignore_errors=True)
        os.makedirs(d)
        shutil.copytree(os.path.join(REPO, "armulator"), os.path.join(d, "armulator"), ignore=shutil.ignore_patterns("__pycache__"))
        with open(dst, "a") as fo:
            for l in open(src):
                rec = json.loads(l)
                m = tuple(rec["mutant"])
                if rec["result"] != "survived" or sub not in "%s:%d" % (m[0], m[1]):
                    continue
                apply(d, m)
                try:
                    rec["result"] = "survived"
                    for cid in checks:
                        env = dict(os.environ, ARMMC_REPO=d, ARMMC_OUT=os.path.join(SCRATCH + "_retry", "out"))
                        r = subprocess.run(["/verif/check", cid], cwd="/verif", env=env, capture_output=True, text=True)
                        keys = [x.strip()[5:] for x in r.stdout.splitlines() if x.strip().startswith("key:")]
                        rec.setdefault("retry", []).append([cid, "VIOLATION" if "VIOLATION property=" in r.stdout else "rc=%d" % r.returncode, keys[:2]])
                        if "VIOLATION property=" in r.stdout:
                            rec["result"] = "killed-by %s (after strengthening)" % cid
                            break
                finally:
                    restore(d, m)
                fo.write(json.dumps(rec) + "\n")
                print("%s:%d %r->%r  %s" % (m[0], m[1], m[4], m[5], rec["result"]), flush=True)
        shutil.rmtree(SCRATCH + "_retry", ignore_errors=True)
        return
    out = sys.argv[3]
    offset = int(sys.argv[4]) if len(sys.argv) > 4 else 0
    done = set()
    if os.path.exists(out):
        for l in open(out):
            done.add(tuple(json.loads(l)["mutant"][:6]))
    sel = [m for m in select(stride, offset) if tuple(m[:6]) not in done]
    print("mutants to do:", len(sel), flush=True)
    NW = 14
    copies = [make_copy(k) for k in range(NW)]

    def test_one(args):
        k, m = args
        d = copies[k]
        try:
            apply(d, m)
            return m, run_tests(d)
        finally:
            restore(d, m)

    with open(out, "a") as fo:
        for b in range(0, len(sel), NW):
            batch = sel[b:b + NW]
            with ThreadPoolExecutor(NW) as ex:
                results = list(ex.map(test_one, [(k, m) for k, m in enumerate(batch)]))
            for m, verdict in results:
                rec = {"mutant": list(m), "tests": verdict}
                if verdict == "pass" and not checks_for(m[0], m[1]):
                    rec["result"] = "survived"
                    rec["checks"] = []
                    rec["note"] = "function outside every property (no check mapped)"
                elif verdict == "pass":
                    d = copies[0]
                    apply(d, m)
                    try:
                        rec["checks"] = []
                        rec["result"] = "survived"
                        for cid in checks_for(m[0], m[1])[:int(os.environ.get("MUT_MAXCHECKS", "3"))]:
                            v, keys, wall = run_check(d, cid)
                            rec["checks"].append([cid, v, round(wall, 1), keys])
                            if v == "VIOLATION":
                                rec["result"] = "killed-by " + cid
                                break
                    finally:
                        restore(d, m)
                else:
                    rec["result"] = "killed-by-tests" if verdict == "fail" else "tests-" + verdict
                fo.write(json.dumps(rec) + "\n")
                fo.flush()
                print("%s:%d:%d %s %r->%r  %s" % (m[0], m[1], m[2], m[6], m[4], m[5], rec["result"]), flush=True)
    shutil.rmtree(SCRATCH, ignore_errors=True)


if __name__ == "__main__":
    main()
