#!/usr/bin/env python3
"""Summarises the mutation sweep: seeded/mutants/results*.jsonl (+ retries*.jsonl, triage.json) -> seeded/mutants/RESULTS.md"""
import collections
import glob
import json
import os

V = os.path.dirname(os.path.dirname(os.path.abspath(__file__)))
D = os.path.join(V, "seeded", "mutants")


def key(m):
    return "%s:%d:%d:%s" % (m[0], m[1], m[2], m[5])


def main():
    recs = {}
    for f in sorted(glob.glob(os.path.join(D, "results*.jsonl"))):
        for l in open(f):
            r = json.loads(l)
            recs[key(r["mutant"])] = r
    for f in sorted(glob.glob(os.path.join(D, "retries*.jsonl"))):
        for l in open(f):
            r = json.loads(l)
            if r["result"] != "survived":
                recs[key(r["mutant"])] = r
    triage = json.load(open(os.path.join(D, "triage.json")))
    tot = collections.Counter()
    bycheck = collections.Counter()
    surv = []
    for k, r in sorted(recs.items()):
        res = r["result"]
        if res == "killed-by-tests":
            tot["killed by the repository's tests (not of interest)"] += 1
        elif res.startswith("killed-by"):
            c = res.split()[1]
            late = "after strengthening" in res
            tot["test-surviving, caught by a check" + (" after strengthening" if late else "")] += 1
            bycheck[c] += 1
        elif res == "survived":
            t = triage.get(k)
            if t and t[0] == "strengthened":
                tot["test-surviving, caught by a check after strengthening"] += 1
                bycheck[t[1]] += 1
            else:
                tot["test-surviving, not caught: " + (t[0] if t else "NOT TRIAGED")] += 1
                surv.append((k, t))
        else:
            tot[res] += 1
    out = ["# Mutation sweep (tools/mutants.py)", "",
           "One token-level edit per mutant (comparison / arithmetic / shift / bitwise operator, small constant +-1, and/or,",
           "dropped `not`, True/False), every n-th site per file category of `/repo/armulator`; filtered by the repository's",
           "686 tests, then run against the quick checks mapped to the file (first three of the mapping, stop at the first",
           "VIOLATION).  `triage.json` classifies every mutant no check reported.", "",
           "| outcome | mutants |", "|---|---|"]
    for k, v in sorted(tot.items()):
        out.append("| %s | %d |" % (k, v))
    out += ["", "Total: %d mutants." % sum(tot.values()), "", "Kills per check: " + ", ".join("%s %d" % kv for kv in sorted(bycheck.items())), "",
            "## Test-surviving mutants no check reports", "", "| mutant (file:line:col:new text) | verdict | why |", "|---|---|---|"]
    for k, t in surv:
        out.append("| %s | %s | %s |" % (k.replace("armulator/armv6/", ""), t[0] if t else "NOT TRIAGED", t[2] if t else ""))
    out += ["", "## Mutants that led to a strengthened check", "", "| mutant | check | what was added |", "|---|---|---|"]
    for k, t in sorted(triage.items()):
        if t[0] == "strengthened":
            out.append("| %s | %s | %s |" % (k.replace("armulator/armv6/", ""), t[1], t[2]))
    open(os.path.join(D, "RESULTS.md"), "w").write("\n".join(out) + "\n")
    print("\n".join(out[8:8 + len(tot) + 4]))


if __name__ == "__main__":
    main()
