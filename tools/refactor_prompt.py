#!/usr/bin/env python3
"""Prompt for a sub-agent that produces BEHAVIOUR-PRESERVING refactorings (false-alarm hunt)."""
import sys
wt, area = sys.argv[1], sys.argv[2]
print(f"""You are helping to evaluate a verification harness for the pure-Python ARM emulator matan1008/armulator.
A git worktree of the repository is at {wt} (work ONLY there; never touch /repo or /verif, and do not read /verif).
Run its tests with:  cd {wt} && /venv/bin/python -m pytest -q -p no:cacheprovider   (686 tests, ~5 s).
Do NOT use `git stash` (worktrees share it); use `git diff > file`, `git checkout -- .` and `git apply file`.

Task: produce 3 DIFFERENT realistic BEHAVIOUR-PRESERVING refactorings of the emulator's code in this area:
    {area}
A refactoring must keep the architectural behaviour of the emulator exactly the same for EVERY input, state and
history (including UNPREDICTABLE corner cases: keep what the code does there too), keep all public names that the
tests or a user could rely on (ArmV6.emulate_cycle / decode_instruction / fetch_instruction / translate_address /
mem_a_get.. / take_reset, Registers.* methods and attributes, opcode class names and their operand attribute names,
bits_ops / shift function names and signatures, register-field property names, MemoryControllerHub / RAM API), and
keep all 686 tests passing.  Make them the kind of change a maintainer does while tidying up or optimising: replace
an if/elif ladder by a table, hoist repeated sub-expressions into locals, rewrite arithmetic with shifts and masks,
merge duplicated code into a helper, reorder independent checks, use early returns, cache something that is
provably immutable, rename private locals / private helpers, convert loops to comprehensions, ...  Each refactoring should touch
a non-trivial amount of logic (not just comments or whitespace) - aim for 20-80 changed lines - because the point
is to stress a verifier that must stay SILENT on behaviour-preserving changes.
Be careful: if you are not sure a rewrite preserves behaviour for some input (negative numbers, values wider than 32
bits, shift amounts >= 32, register 15, ...), either prove it to yourself or do not make that rewrite.

For each refactoring i (1..3) write into {wt}/refactor_out/ (create it):
  - refactor_i.diff : `git diff` of ONLY that refactoring against the worktree HEAD (apply each alone; revert the tree
                      with `git checkout -- .` between them),
  - note_i.txt      : what was changed and the argument why behaviour is preserved.
Verify: all 686 tests pass with each refactoring applied alone.  Leave the worktree source reverted (clean apart from
refactor_out/).  Reply with a one-line summary per refactoring.""")
