#!/usr/bin/env python3
"""Regenerates /verif/MANIFEST.json from the table below; a property is claimed iff its check module exists."""
import json
import os

V = os.path.dirname(os.path.dirname(os.path.abspath(__file__)))
TITLES = {}
for line in open(os.path.join(V, "properties.jsonl")):
    p = json.loads(line)
    TITLES[p["id"]] = p["title"]

# id -> (technique, level text, level note, design ref)
CHECKS = {
    "C17": ("complete enumeration of operand tuples at widths 1..8 / all 2^13 modified immediates / all register "
            "fields, each real call compared with a pseudocode transcription",
            "Every bit-vector helper is called on every operand tuple of widths 1..8 (plus boundary alphabets at 32/64 "
            "bits with every shift amount 0..255, all 2^12 x 2 modified immediates, all (type, imm5)) and compared with "
            "an independent transcription of the ARM ARM pseudocode; every named field of every register class is "
            "read and written for every in-range value over four backgrounds and compared with the architectural "
            "bit positions; view histories (read every field, write one field, read every field again, re-assign the register) "
            "are run for every writable field. Exhaustive inside those bounds, silent outside them (32/64-bit operands off the alphabet).",
            "Trusted: armmc/ref/bv.py and armmc/ref/regfields.py (hand transcription of DDI 0406C).", "3 C17"),
    "C16": ("explicit-state BFS over hub read/write histories on a fresh real hub with history replay, flat "
            "first-match reference model + invariants in every state",
            "Breadth-first search over all histories (depth 2; thorough adds a boundary-restricted depth 3) of reads and "
            "writes of every size at every address of a 56-byte window, for 156 device layouts (1-3 devices, odd sizes, "
            "adjacent / gapped / overlapping / shadowed) plus 21 layouts with a device 2^32 above the window (alone / aliasing a low device, both priority orders). Every transition runs on a freshly built MemoryControllerHub "
            "with the history replayed and is compared with a flat reference; device length, foreign bytes and "
            "'no host error' are checked in every reached state; a read that runs past a device end must return what a freshly built hub "
            "with the same device contents returns (no bytes left over from earlier accesses).",
            "Trusted: the 60-line flat model in checks/c16.py. Devices are RAM objects; other MemoryType subclasses "
            "are not modelled.", "3 C16"),
    "C13": ("complete product enumeration of the access-configuration matrix on the real ArmV6, each call/step "
            "compared with a MemA/MemU reference over a flat byte map",
            "All (accessor, get/set, size, address offset 0..7 at 4 bases incl. the end of a device and across 2^32, "
            "CPSR.E, SCTLR.A, SCTLR.U, architecture version 5/6/7, mode, data) tuples are executed and compared with "
            "ref.memmodel for value, fault/align-down/byte-wise behaviour and the exact byte footprint over all devices; "
            "each store is read back; the same matrix runs through 12 ARM (incl. register-offset LDRD/STRD; also under an LPAE configuration) and 6 Thumb load/store instructions and "
            "instruction fetch is checked with E=0/1.",
            "Trusted: armmc/ref/memmodel.py. MPU off (protection is C14/C15); data values from a 3-value alphabet per "
            "size (thorough: plus every walking 1 / walking 0 of the access width, over the byte pattern and its "
            "complement as surrounding memory).", "3 C13"),
    "C05": ("complete enumeration of (instruction, cond, NZCV) on the real emulator with a differential oracle "
            "(conditional run vs AL run vs no-op frame)",
            "The 16-entry condition table is checked for all cond x NZCV through ARM cond fields, IT-block conditions "
            "(16- and 32-bit) and B<c>; then every conditional instruction word the repository's tests decode (about 600 "
            "encodings, all abstract opcodes) is executed under all 15 x 16 (cond, NZCV) pairs: failing => full snapshot "
            "unchanged except PC+len and ITSTATE; passing => same snapshot diff as the AL execution. The same oracle then "
            "runs over every conditional ENCODING: all 2^16 Thumb halfwords as the only instruction of an IT block, and "
            "every leaf of the lazy-word partition of the ARM (cond field rewritten) and Thumb-32 decode spaces with the "
            "free operand bits set to 2 (thorough: 4) patterns, under conds {EQ,NE} x NZCV {0000,0100}; the harvested words and their "
            "S-bit variants also run under ARMv4, v5 and v7 with all 15 x 16 pairs.",
            "Differential: no reference model. One register file (registers pointing into RAM); operand fields per "
            "decode leaf by pattern members. Instances the implementation itself rejects as UNPREDICTABLE and instances UNDEFINED under AL "
            "are skipped.", "3 C05"),
    "C20": ("schedule enumeration: all interleavings of 2-3 real instances x construction points; all programs <= 3 x prefix "
            "points re-created on fresh, reused and sibling-program instances; all ordered configuration pairs x the whole "
            "instruction alphabet in fresh interpreter processes; differential trace oracle",
            "(a) every program of length 1..3 over a 10-item ARM and a 10-item Thumb menu, every prefix point: the "
            "snapshot is re-installed by assignment on a fresh instance and on 6 instances that ran other programs "
            "(scratch state left behind) and the continuation trace must be identical - every run is program length + 2 "
            "steps with returning handlers at the vectors, so exception entries AND returns lie on both sides of the "
            "snapshot points; (a') the program set in forward order vs reverse order in a forked child; (b) every interleaving of the "
            "steps of two (thorough: three) instances with every ordered tuple of 4 configurations (arch version, "
            "PMSA/VMSA, extensions), every position of the later instance's construction, 16 program pairs: each "
            "instance's trace (outcome + digest of the full snapshot after each step) must equal its solo trace; (a'') every snapshot "
            "also resumed on an instance that ran a sibling program (same first k instructions) for k steps; (c) every harvested "
            "instruction word and its S-bit variant x 3 backgrounds stepped on an instance of one configuration and then on an "
            "instance of another, for all 30 ordered pairs of 6 configurations (ARMv4..v7, extensions, R profile) in one fresh "
            "interpreter process, against the second instance alone in another fresh process; (d) take_reset() next to an "
            "instance of another configuration for all ordered configuration pairs.",
            "Differential: no model. Traces use emulate_cycle() only; programs come from a fixed menu.", "3 C20"),
    "C18": ("brute force over 2^16 + lazily-resolved instruction-word cube exploration of the two 2^32 spaces with "
            "concrete stepping of every leaf + program pairs; invariant oracle",
            "All 2^16 Thumb halfwords are fetched and stepped in 48 contexts (IT position x mode x memory system x "
            "register file). The ARM and Thumb-32 spaces are partitioned completely by running the real decoder and "
            "from_bitarray on a lazily resolved word (a leaf = a cube of words that all take the same path; the leaves "
            "tile the space, checked); every leaf, UNPREDICTABLE ones included, is concretised with 4 bit patterns and "
            "each concrete word is placed in RAM and stepped in two contexts. Plus two-instruction programs over the "
            "harvested alphabet and the alphabet under 5 other configurations (two register files there: pointing into RAM, and all-zero "
            "with SCTLR<19> set; MPU-on environments program MPUIR.DREGION = number of regions). Any escaping exception other than "
            "NotImplementedError from a documented hook is a violation keyed by type@site.",
            "Invariant only. Within a leaf only pattern members are stepped; observations of more than 10 (thorough: 14) "
            "unresolved bits at once are resolved from a fixed pattern alphabet (reported as words_outside_cap).",
            "3 C18, 2.2"),
    "C19": ("the C18 enumeration restricted to User mode (2^16 brute force, lazy-word cubes, program pairs) with a "
            "confinement invariant over the full tagged privileged state",
            "Every other mode's banked registers, all SPSRs and ELR_hyp carry distinct tags; after each User-mode step "
            "the check requires: still User with A/I/F/M, all tags, every system register and the privileged-only "
            "memory window unchanged - or an architectural exception (svc/und/abt/hyp) at that exception's vector "
            "with SPSR.M=User and nothing privileged changed but that exception's bookkeeping. All 2^16 Thumb words x "
            "3 IT contexts x MPU on/off x secure/non-secure x 2 register files; all decode leaves of both 32-bit "
            "spaces; two-instruction programs; and all 24 unprivileged load/store encodings in 7 privileged modes "
            "against 4 region permissions and the privileged-only background region, at base alignments 0..3.",
            "Invariant only; same leaf/pattern bounds as C18.", "3 C19"),
    "C01": ("product enumeration of generated instruction instances per encoding row, each stepped on the real "
            "emulator and the whole post-state compared with an independent reference model (pseudocode transcription)",
            "For each of the 153 data-processing encoding rows (A1/A2/T1..T4; immediate, register, register-shifted "
            "register, SP and ADR/MOVW/MOVT forms) the check generates instruction words from the row's bit pattern for "
            "every combination of register-field patterns (Rd=Rn, Rd=Rm, SP/LR/PC roles, high registers), S, shift type, "
            "shift amounts, modified-immediate alphabet, operand pairs from a boundary alphabet, carry-in, flag "
            "background, IT position, mode and (for PC writes) architecture version 4..7; every instance is fetched "
            "and stepped and the full snapshot (all registers, banks, system registers, memory) must equal the model's "
            "prediction.",
            "Trusted: armmc/ref (bv, state, rows_dp) - hand transcription of DDI 0406C. 32-bit operand values from an "
            "alphabet; cond=AL (C05 covers conditions); UNPREDICTABLE instances not generated.", "3 C01"),
    "C11": ("product enumeration of exception kind x source mode x state x routing-bit assignments (complete over the "
            "bits each kind consults, single deviations of the others) on the real entry code, full snapshot compared "
            "with a reference model of B1.9",
            "Every exception kind (Reset, Undef, SVC, SMC, Data Abort permission/alignment, IRQ, FIQ, Hyp trap) is taken "
            "through Registers.take_*_exception()/take_reset() from every legal source mode x T x ITSTATE x A/I/F x PC "
            "(incl. the last words of the address space) x VBAR/MVBAR/HVBAR values, in 4 extension configurations, for "
            "the full product of the routing bits that kind's pseudocode reads (SCTLR.V/VE/TE/EE, HSCTLR.TE/EE, "
            "SCR.NS/IRQ/FIQ/EA/FW/AW, HCR.TGE/IMO/FMO) and every single deviation of the remaining routing bits; and "
            "through emulate_cycle() on SVC/SMC/UDF/alignment-faulting LDR/STR (base r1 and the mode's own banked SP / LR)/WFI, WFE "
            "and SMC with their Hyp trap controls (HCR.TWI/TWE/TSC; WFE with the event register set and clear) in both "
            "instruction sets, also on a VMSA configuration; half of the Thumb-state API entries start in ThumbEE state (J=T=1). The whole "
            "post-snapshot (target mode, SPSR, LR/ELR_hyp, masks, IT, J, T, E, vector, SCR.NS, DFSR/DFAR, everything "
            "else unchanged) is compared with ref.exc.",
            "Trusted: armmc/ref/exc.py. External/asynchronous aborts and debug exceptions are constant-false mocks in the "
            "emulator and are not explored; HSR syndrome values are not compared.", "3 C11"),
    "C02": ("product enumeration of generated load/store instances per encoding row, stepped on the real emulator, "
            "whole post-state compared with the reference model",
            "For each of the 115 single-register load/store encoding rows (word/byte/half/signed/dual, immediate, literal, "
            "register, unprivileged, exclusive; A1/A2/T1..T4) three sweeps are enumerated completely: the access matrix "
            "(P/U/W x base address incl. near 0 and 2^32 x alignment 0..3 x CPSR.E x SCTLR.A x SCTLR.U x data x mode x arch "
            "6/7, the doubleword rows also under an LPAE configuration), address arithmetic (immediate alphabet / index shifts x offset values), and register patterns (Rn=SP/PC, "
            "Rt=PC with interworking targets, Rn==Rt). Address, bytes transferred, extension, write-back, LoadWritePC and "
            "the frame condition are compared through the full snapshot.",
            "Trusted: armmc/ref/rows_ldst.py, memmodel.py, exc.py. Exclusive stores accept either architecturally permitted "
            "outcome; UNKNOWN results are don't-care; MPU off.", "3 C02"),
    "C09": ("product enumeration of generated instances per encoding row over a lane-boundary operand alphabet, "
            "stepped on the real emulator, whole post-state compared with the reference model",
            "For each of the 194 multiply / divide / saturating / parallel / extend / bit-field / reverse encoding rows: "
            "register patterns x operand pairs (triples for accumulates) from a lane alphabet that contains products that "
            "are multiples of 2^32, accumulates that wrap to 0 mod 2^64, INT_MIN/-1 and divisor 0 x every rotation / "
            "saturation position / (lsb,width) x prior Q x prior GE x S x arch 4/5/6/7 x divide trapping; result, N/Z, "
            "sticky Q, GE lanes and the frame condition are compared.",
            "Trusted: armmc/ref/rows_media.py. Operand values from the alphabet only. One open known finding (BFI).",
            "3 C09"),
    "C10": ("explicit-state DFS over register-file event histories on the real Registers object with all views "
            "compared against an independent banking table; range invariant over instruction alphabets",
            "(a) every history of depth 3 over {mode switch, write Rn in the current mode, write by explicit mode, SPSR "
            "write, exception entry} from 5 (thorough: 9) start modes x secure/non-secure x 3 configurations: after every "
            "event the whole snapshot, the 15 x 9 (n, mode) view table, the current-mode views and the SPSR view are "
            "compared with ref.state.phys / ref.exc. (a') every 3-instruction program over a 23-item menu of bank-sensitive "
            "instructions (LDM/STM ^, CPS, MSR, SRS, PUSH/POP, aborting loads with banked bases, an aborting literal load, SVC, a "
            "completing write-back) from every start mode, each instruction injected at the current PC so that programs continue "
            "at the vector after an exception, co-simulated with the reference stepper. (b) after every step of all 2^16 Thumb halfwords and of the "
            "harvested alphabet + single-bit operand variants, from 5 boundary register files x 3 modes x instruction "
            "addresses incl. the last four instruction slots below 2^32, every register, SPSR, ELR_hyp, CPSR and the PC must be an int "
            "in 0..2^32-1.",
            "Trusted: ref.state.phys (banking table from B1.3.2). Event menus shrink with depth (stated in evidence).",
            "3 C10"),
    "C03": ("product enumeration of generated block-transfer instances (register lists x bases x wrap-around addresses x "
            "modes) compared with the reference model, plus two-instruction store;load programs with a differential oracle",
            "For each of the 33 LDM/STM/PUSH/POP/SRS/RFE encoding rows: W x base register x register lists (all lists of the "
            "16-bit forms; a 159-list structured family of the wide forms in quick, ALL 2^16 lists per row in thorough) x "
            "base addresses incl. both wrap-around ends x modes x instruction sets; touched words, register order, final "
            "base, user-bank forms, CPSR restore of the exception-return forms (CPSRWriteByInstr sweep over mode x masks x "
            "SCR/NMFI) and the frame condition are compared with the model. 13 kinds of store;load pairs with the listed "
            "registers clobbered in between must restore all listed registers and the base.",
            "Trusted: armmc/ref/rows_block.py. UNKNOWN base values are don't-care.", "3 C03"),
    "C12": ("product enumeration on the real PSR-write / exception-return / coprocessor-gating code against the reference "
            "model, invariants where the model says UNPREDICTABLE, and exception-entry + return round-trip histories with "
            "a differential oracle",
            "(a) cpsr_write_by_instr / spsr_write_by_instr for all 32 mode numbers x upper-bit patterns x 16 byte masks x "
            "exception-return flag x CPSR background x 9 current modes x secure/non-secure x NMFI x SCR.AW x SCR.FW x 4 "
            "configurations; where the model classes the write UNPREDICTABLE the invariants still checked are: no illegal "
            "mode installed, no unprivileged A/I/F/M change, T/J/IT only on exception return. (b) generated MSR/MRS/CPS/"
            "SETEND/SUBS PC,LR/ERET/hint instances stepped and compared with ref.rows_sys (SMC/WFE/WFI under both polarities of their "
            "trap controls, WFE with the event register set and clear). (c) for every exception kind x "
            "interrupted state (mode, T, ITSTATE, masks, security state, PC) the exception is taken and that kind's standard "
            "return instruction executed at the vector from ARM and Thumb handlers: CPSR, every register and the resume PC "
            "must be back. (e) 12 coprocessor numbers x CPACR field x NSACR x HCPTR x mode x security state x instruction set "
            "x 7 coprocessor instructions: Undefined / Hyp trap / hook reached per CoprocAccepted.",
            "Trusted: ref.rows_block.cpsr_write_by_instr, ref.rows_sys, ref.exc. Two open known findings (privileged MRS "
            "Rd,CPSR).", "3 C12"),
    "C08": ("program enumeration (all legal IT headers x flag states x instruction sequences over a menu) co-simulated step "
            "by step: reference stepper vs emulate_cycle, whole snapshot compared after every step",
            "ITAdvance on all 256 ITSTATE values; then for each of the 210 legal (firstcond, mask) pairs x NZCV x every "
            "sequence of block-length+1 menu instructions (16-bit flag-setting ALU op, 32-bit ALU op, CMP changing the flags "
            "mid-block, 32-bit MSR APSR, SVC, UDF, SMC, alignment-faulting load, branch / BX to ARM state as last) the program is run on the emulator and on the "
            "reference stepper in lock step, with Thumb exception handlers at the vectors that return into the block; "
            "after every step the full snapshot is compared: which slots executed, no flag update by 16-bit ALU ops in the "
            "block, ITSTATE per instruction and empty after the last, IT saved (advanced for SVC) and cleared on entry and "
            "restored on return.",
            "Trusted: ref.model (table-driven stepper) and the row semantics it uses. Quick uses 8 NZCV values on which "
            "every condition takes both outcomes and the exception items only on blocks of length <= 2; programs whose flag value has "
            "V = 1 run in Non-secure state.", "3 C08"),
    "C06": ("read-directed exhaustive cube exploration (lazily resolved instruction word) of the JOINT function real "
            "decoder+from_bitarray x reference encoding table; verdicts compared at every leaf; leaves tile the space",
            "The real decode_instruction + from_bitarray and the reference table (622 rows transcribed from the ARM ARM "
            "encoding diagrams, incl. UNDEFINED / not-implemented-extension regions) are run together on a lazily resolved "
            "32-bit word; each completed run is a cube of words on which BOTH take a constant path, so comparing class / "
            "UNDEFINED / NOTIMPL / UNPREDICTABLE verdicts at the leaf decides every word of the cube, and the cube sizes "
            "must add up to the explored space (checked). Operands are compared exactly, by bit-provenance vector, or "
            "by concrete enumeration of every assignment of the bits either side depends on. Thorough explores all 2^32 "
            "words under arch versions 7/6/5; quick explores conditions AL, NV and EQ (3 x 2^28 words) at v7 and cond = AL at v6 and v5, both carry values "
            "on the modified-immediate space.",
            "Trusted: armmc/ref/rows_*.py and armmc/lazyword.py (self-checked against a 2^16 brute force at setup). "
            "UNPREDICTABLE encodings: one-sided comparison. Observations of more than 10 (thorough 16) unresolved bits "
            "use a pattern alphabet (reported as words_outside_cap).", "3 C06, 2.2"),
    "C07": ("brute force over all 2^16 Thumb halfwords x IT position x carry + joint lazy-word cube exploration of the "
            "3 x 2^27 32-bit Thumb words + all 2^16 first halfwords through the real fetch",
            "Every 16-bit halfword is decoded in 6 contexts (outside / last / inside an IT block x carry) and class + every "
            "operand compared with the reference table; the 32-bit space is explored as in C06 in 4 (thorough 6) contexts; "
            "the fetch rule (32-bit iff top five bits 11101/11110/11111, word = hw1:hw2, independent of mode / E / IT) is "
            "checked for every first halfword x second halfwords {0, 0xFFFF, 0x12A5} x CPSR.E through fetch_instruction().",
            "As C06. One open known finding (CBZ offset scaling).", "3 C07"),
    "C04": ("product enumeration of branch instances (complete offset fields where small, complete 2^20/2^24 sweeps in "
            "thorough) and of one instance of every encoding row, stepped on the real emulator and compared with the model",
            "(a) every branch row: B T1 all 2^8 offsets x 14 conditions x pass/fail, B T2 all 2^11, CBZ/CBNZ all 2^6 x zero/"
            "non-zero, walking-bit and sign x size alphabets for the 20/24-bit offsets (thorough: ALL 2^20 / 2^24 encodings), "
            "BX/BLX register targets with low bits 00/01/11, TBB/TBH entries; x instruction addresses {0, 2/4, mid, 0xFFFFFFC0 (short forward "
            "offsets cross 2^32), the last slots below 2^32} x arch versions 4..7 x mode: target, LR, T bit, alignment and the frame condition. (b) one "
            "predictable non-PC-writing instance of every row of the dp/media/ldst/block/branch tables (507 rows) at every "
            "address: PC advances by exactly 2/4 modulo 2^32; 78 PC-as-source instances observe own address + 8 / + 4. "
            "(c) ALU and load writes to the PC (incl. ADD pc,sp,pc and the SP-plus forms) under versions 4..7; all 3-instruction "
            "programs over a menu of taken / not-taken branches, condition-failed and IT instructions co-simulated with the reference stepper.",
            "Trusted: armmc/ref/rows_branch.py and the other row modules. One open known finding (CBZ offset scaling).",
            "3 C04"),
    "C14": ("product enumeration of MPU region sets x boundary addresses x access kinds on translate_address() against an "
            "independent PMSA model, and of load/store instructions whose k-th access hits a denied window",
            "(a) two (thorough: three) programmed regions at region-number pairs (0,1),(0,11),(3,7),(7,3) x enable x size x "
            "placement (nested / overlapping / adjacent / disjoint) x subregion-disable x AP, every RSize 4..31, the full AP x "
            "AP table, MPU off; each at both sides of every region and subregion boundary x read/write x privileged/"
            "unprivileged x SCTLR.BR: outcome, DFSR[13:0], DFAR, physical address and the 223-location frame condition. "
            "(b) 107 load/store instruction forms (single, dual, unprivileged, LDM/STM in all modes, PUSH/POP; ARM and Thumb) "
            "on 8 window layouts with the window start at every word k of the transfer and at unaligned addresses: on a fault "
            "the whole post-state equals pre-state + data-abort record + Data Abort entry (no write-back, no data "
            "transferred to denied locations, LR_abt, SPSR_abt, vector) - each faulting case on a processor that has just retired a "
            "write-back load and whose state is re-created by assignment; a permitted run equals the MPU-off run. Consecutive "
            "layouts on the reused processor move regions without touching their size registers.",
            "Trusted: armmc/ref/pmsa.py, ref/exc.py. Registers loaded before a fault are UNKNOWN (don't-care). One open known "
            "finding (PUSH.W unaligned SP).", "3 C14"),
    "C15": ("product enumeration of generated translation tables x control registers x addresses on translate_address() "
            "and LDR/STR against independent short- and long-descriptor walkers",
            "Translation tables are generated in RAM for TTBCR.N 0..7 x TTBR0/TTBR1 x first-level {fault, page table, "
            "section, supersection, reserved} x second-level {fault, large, small} x AP[2:0] x domain x DACR field x XN/nG/S/"
            "TEX/C/B x SCTLR.{M,AFE,HA,EE,TRE} x FCSE PID x PD0/PD1 x VA at start / end / interior / unmapped x read/write x "
            "privileged/unprivileged, and for the long-descriptor format (EAE=1) T0SZ/T1SZ, start level 1/2, table / block / "
            "page, APTable/NSTable, AF, AP, AttrIndx 0..7 over MAIR0/MAIR1, SH; physical address, NS, memory type, fault kind + level + domain in DFSR, DFAR and "
            "the frame condition are compared, a subset through LDR/STR/LDRT/STRT (word-aligned, one byte off alignment, and straddling "
            "the end of the mapped unit with one model translation per byte) with the complete Data Abort entry; sub-products also on a "
            "configuration without Security Extensions, an LPAE one and a Virtualization-Extensions one with stage 2 disabled "
            "(incl. unaligned accesses to Device / Strongly-ordered memory). Paths "
            "ending in a documented mock hook must end in NotImplementedError at exactly that hook.",
            "Trusted: armmc/ref/vmsa.py. Not covered: stage 2 enabled / Hyp regime, instruction-side XN, long-descriptor DFSR encoding "
            "(behind a mock).", "3 C15"),
}
NOT_YET = "check not built yet in this round (see DESIGN.md section 3 for the planned bounded-exhaustive formulation)"


def main():
    checks = []
    na = []
    for pid in sorted(TITLES):
        if pid in CHECKS and os.path.exists(os.path.join(V, "armmc", "checks", pid.lower() + ".py")):
            tech, text, note, ref = CHECKS[pid]
            checks.append({
                "property_id": pid,
                "quick_cmd": "./check %s --tier quick" % pid,
                "thorough_cmd": "./check %s --tier thorough" % pid,
                "evidence_file": "/verif/evidence/%s.json" % pid,
                "replay_cmd_template": "./check %s --replay {path}" % pid,
                "engine": "armmc",
                "level_claimed": {"category": "model_checking", "text": text, "design_ref": "DESIGN.md " + ref},
                "level_note": note,
                "technique": tech,
            })
        else:
            na.append({"property_id": pid, "reason": NOT_YET})
    m = {
        "version": 1,
        "setup_cmd": "./check selftest",
        "hooks": {
            "guard": "ARMULATOR_VERIF",
            "enable": "no source hooks are needed: checks import /repo's working tree directly "
                      "(/venv/bin/python -B, editable install) and drive public objects",
            "baseline_off_cmd": "cd /repo && /venv/bin/python -m pytest -ra -q -p no:cacheprovider --timeout=900 "
                                "--continue-on-collection-errors",
            "source_commits": [],
            "add_only": True,
        },
        "engines": [{
            "name": "armmc", "path": "/verif/armmc",
            "serves_properties": [c["property_id"] for c in checks],
            "kind_free_text": "hand-written bounded-exhaustive explorers running the real Python implementation: "
                              "product/choice-point enumeration, lazily-resolved instruction-word cube exploration, "
                              "explicit-state BFS over operation histories, schedule enumeration; every explored "
                              "transition is compared with an independent reference model or a differential/invariant "
                              "oracle",
        }],
        "checks": checks,
        "not_applicable": na,
        "notes": "See DESIGN.md. Known findings: known_findings.jsonl. Seeded changes: seeded/.",
    }
    with open(os.path.join(V, "MANIFEST.json"), "w") as f:
        json.dump(m, f, indent=1)
    print("claimed:", [c["property_id"] for c in checks])


if __name__ == "__main__":
    main()
