#!/usr/bin/env python3
"""Regenerates /verif/MANIFEST.json from the table below; a property is claimed iff its check module exists."""
import json
import os

V = os.path.dirname(os.path.dirname(os.path.abspath(__file__)))
TITLES = {}
for line in open(os.path.join(V, "properties.jsonl")):
    p = json.loads(line)
    TITLES[p["id"]] = p["title"]

# id -> (technique, level text, level note, design ref)
CHECKS = {
    "C17": ("complete enumeration of operand tuples at widths 1..8 / all 2^13 modified immediates / all register "
            "fields, each real call compared with a pseudocode transcription",
            "Every bit-vector helper is called on every operand tuple of widths 1..8 (plus boundary alphabets at 32/64 "
            "bits with every shift amount 0..255, all 2^12 x 2 modified immediates, all (type, imm5)) and compared with "
            "an independent transcription of the ARM ARM pseudocode; every named field of every register class is "
            "read and written for every in-range value over four backgrounds and compared with the architectural "
            "bit positions. Exhaustive inside those bounds, silent outside them (32/64-bit operands off the alphabet).",
            "Trusted: armmc/ref/bv.py and armmc/ref/regfields.py (hand transcription of DDI 0406C).", "3 C17"),
}
NOT_YET = "check not built yet in this round (see DESIGN.md section 3 for the planned bounded-exhaustive formulation)"


def main():
    checks = []
    na = []
    for pid in sorted(TITLES):
        if pid in CHECKS and os.path.exists(os.path.join(V, "armmc", "checks", pid.lower() + ".py")):
            tech, text, note, ref = CHECKS[pid]
            checks.append({
                "property_id": pid,
                "quick_cmd": "./check %s --tier quick" % pid,
                "thorough_cmd": "./check %s --tier thorough" % pid,
                "evidence_file": "/verif/evidence/%s.json" % pid,
                "replay_cmd_template": "./check %s --replay {path}" % pid,
                "engine": "armmc",
                "level_claimed": {"category": "model_checking", "text": text, "design_ref": "DESIGN.md " + ref},
                "level_note": note,
                "technique": tech,
            })
        else:
            na.append({"property_id": pid, "reason": NOT_YET})
    m = {
        "version": 1,
        "setup_cmd": "./check selftest",
        "hooks": {
            "guard": "ARMULATOR_VERIF",
            "enable": "no source hooks are needed: checks import /repo's working tree directly "
                      "(/venv/bin/python -B, editable install) and drive public objects",
            "baseline_off_cmd": "cd /repo && /venv/bin/python -m pytest -ra -q -p no:cacheprovider --timeout=900 "
                                "--continue-on-collection-errors",
            "source_commits": [],
            "add_only": True,
        },
        "engines": [{
            "name": "armmc", "path": "/verif/armmc",
            "serves_properties": [c["property_id"] for c in checks],
            "kind_free_text": "hand-written bounded-exhaustive explorers running the real Python implementation: "
                              "product/choice-point enumeration, lazily-resolved instruction-word cube exploration, "
                              "explicit-state BFS over operation histories, schedule enumeration; every explored "
                              "transition is compared with an independent reference model or a differential/invariant "
                              "oracle",
        }],
        "checks": checks,
        "not_applicable": na,
        "notes": "See DESIGN.md. Known findings: known_findings.jsonl. Seeded changes: seeded/.",
    }
    with open(os.path.join(V, "MANIFEST.json"), "w") as f:
        json.dump(m, f, indent=1)
    print("claimed:", [c["property_id"] for c in checks])


if __name__ == "__main__":
    main()
