#!/usr/bin/env python3
"""Prints the prompt handed to a fresh sub-agent that seeds a property-breaking change (nothing from /verif leaks)."""
import json, sys
pid, wt = sys.argv[1], sys.argv[2]
n = sys.argv[3] if len(sys.argv) > 3 else "2"
hard = len(sys.argv) > 4
hard2 = len(sys.argv) > 4 and sys.argv[4] == "hard2"
HARD = """
This is a SECOND round: the obvious places have been tried already.  Stay away from the main arithmetic of the most
common instructions.  Prefer rarely exercised paths: other architecture versions (arch_version 4, 5, 7 in the
configuration file), Monitor / Hyp / FIQ / System / Abort modes, Non-secure state (SCR.NS=1), big-endian data
(CPSR.E), SCTLR.A / SCTLR.U alignment policies, the virtualization / LPAE / no-security-extension configurations,
addresses and values near 0 and 2^32, Thumb IT-block interactions, register 13/14/15 in unusual roles, state carried
from one instruction or one processor instance to the next, operands that are equal registers (Rd == Rn == Rm), and
conditions that only hold for ONE specific field value.  Do not use `git stash` (worktrees share it).
""" if hard else ""
if hard2:
    HARD += """
This is a LATER round still: single-site slips in common paths have been tried many times.  Aim for one of these shapes:
 (a) a multi-step HISTORY: something left behind by one instruction / exception entry / exception return / processor
     instance and consumed by a later one (a stale cached value, a flag not cleared, a banked copy not refreshed);
 (b) TWO COOPERATING SITES, each of which looks fine alone (e.g. a helper that changes its contract slightly plus one
     caller that relied on the old contract);
 (c) ONE specific value out of a large range: one register number, one rotation, one immediate, one bit position, one
     mode number, one region/descriptor index, one address alignment, one list shape;
 (d) rarely used encodings (T2/T3/T4 or A2 variants, unprivileged / exclusive / dual / signed forms, SRS / RFE, CPS,
     banked MRS/MSR, SMC / ERET, coprocessor, saturating and packed-SIMD variants that have many siblings);
 (e) rare configurations (arch_version 4/5/6, no security extensions, virtualization, LPAE, VMSA instead of PMSA,
     big-endian, high vectors, NMFI).
Make each of your changes a different shape from this list.
"""
if len(sys.argv) > 4 and sys.argv[4] == "hard3":
    hard = True
    HARD += """
This is a LATER round still: single-site slips in common paths have been tried many times.  Aim for one of these shapes:
 (a) a multi-step HISTORY (state left behind by one instruction / exception entry / return / instance, consumed later);
 (b) TWO COOPERATING SITES, each of which looks fine alone;
 (c) ONE specific value out of a large range (one register number, rotation, immediate, bit position, mode number,
     region/descriptor index, alignment, list shape);
 (d) rarely used encodings;  (e) rare configurations.
Make each of your changes a different shape.  The following ideas have been used already - do NOT repeat them, find new
mechanisms: memoising arm_expand_imm_c / thumb_expand_imm_c / decoded opcodes / arch_version / memory_system_architecture
in a cache keyed without the carry flag, IT state or configuration; clearing ArmV6.base_register at a different time;
the Registers.itstate_restored flag; a "last hit" cache in the memory hub; the frame test in ArmV6.current_cond; moving
it_advance() between execute_instruction and take_svc/smc_exception; swapping the two halves of the CPSR.it accessor;
alu_write_pc losing its instruction-set test; r_bank_select argument order; MPU region scan direction / DREGION start;
enter_hyp_mode not using branch_to; WFE trap order; mem_u_with_priv_* passing the wrong privilege on the byte path;
8-byte accesses split in two in the hub; RFE write-back after the CPSR write; SRS in Non-secure state.
"""
    if len(sys.argv) > 5 and sys.argv[5] == "more":
        HARD += """Also used already: a hub-owned scratch buffer for reads; dropping straddling writes; 32-bit masking of hub
addresses; lsr_c/asr_c delegation for shifts > 32; memoised register field reads; carry-out of thumb_expand_imm_c for one
rotation; translating an unaligned load once; TTBR1 walks keeping TTBCR.N; long-descriptor start level for one T0SZ;
take_reset ordering vs select_configurations; stale F/A snapshot in FIQ entry; swapped SCR bits in enter_hyp_mode;
halfword transfers on the unaligned byte path; second Thumb halfword fetched with mem_a_get; alignment policy helper
testing arch_version == 6; MPU subregion hit logic; sticky DFSR bits; POP write-back before the PC load; USAT/PKH shift
decode without decode_imm_shift; GE write skipped when zero; multiply flag rules per architecture version; in_it_block
masks; it_advance skipped in ARM state; ADCS/SBCS pc using the restored carry; coproc_accepted in System mode;
cpsr_write_by_instr ordering of M and F or IT bit ranges; STM^/LDM^ register banks in FIQ mode; Monitor-mode LR bank;
UMLALS N flag wider than one bit; PUSH/POP aliases of STR/LDR losing a P/U/W test; LDRT Rm == Rt; BLX label alignment;
TBB/TBH table base or accessor; a cached register-list helper returning a shared list; LDMDA base-in-list on v7;
arm_expand_imm_c fast path for one rotation; SUBS pc,sp decode order; STR (register) pre-v6 Rm == Rn clause; IT AL skipped;
last_cycle_owner configuration switch; module-level read buffer; per-instance Thumb fetch buffer; SCR object missing
without the security extension; LR_und without wrap-around; divide-by-zero trap taken in place.
"""
for l in open('/verif/properties.jsonl'):
    p = json.loads(l)
    if p['id'] == pid:
        break
print(f"""You are helping to evaluate a verification harness for the pure-Python ARM emulator matan1008/armulator.
A git worktree of the repository is at {wt} (work ONLY there; never touch /repo or /verif, and do not read /verif).
Run its tests with:  cd {wt} && /venv/bin/python -m pytest -q -p no:cacheprovider   (686 tests, ~5 s; make sure
`armulator.__file__` resolves inside {wt}: run python from that directory).

This semantic property is supposed to hold for the emulator:

  Title: {p['title']}
  Statement: {p['statement']}
  Quantified over: {p['quantifier']['text']}
  Relevant files: {', '.join(p['anchors']['files'][:10])}

{HARD}
Task: produce {n} DIFFERENT, independent, realistic source changes (bugs a developer could plausibly introduce while
refactoring or optimising: an off-by-one, a wrong mask/shift/bit index, a swapped operand, a dropped wrap-around, a
missed special case, a stale cache / shared mutable state, a wrong register bank, ...) to the emulator's code under
{wt}/armulator such that each one
  (1) BREAKS the property above for some input/state/history,
  (2) still imports and keeps ALL 686 existing tests passing (run them!), and
  (3) needs something SPECIFIC to manifest - an unusual operand value, a particular mode/flag/configuration, a
      multi-step sequence, a boundary address, two cooperating sites - i.e. NOT something ordinary use or the
      existing tests expose at once.  Do not make changes in UNPREDICTABLE/UNDEFINED corner behaviour only; the change
      must violate architecturally defined behaviour.  Prefer changes in different files/mechanisms from each other.
For each change i (1..{n}) write into {wt}/seed_out/ (create it):
  - change_i.diff   : `git diff` of ONLY that change against the worktree HEAD (apply each change alone; revert the
                      tree with `git checkout -- .` between changes),
  - demo_i.py       : a small standalone program (run as `cd {wt} && /venv/bin/python seed_out/demo_i.py`) that
                      exits 0 on the unchanged code and exits 1 (printing what went wrong) with the change applied,
  - note_i.txt      : 3-6 lines: what the change is, which inputs/states it needs to manifest, why tests miss it.
Verify each: tests pass with the change; demo fails with it and passes without it.  Leave the worktree source
reverted (clean apart from seed_out/) when done.  Reply with a short summary (one line per change).""")
