#!/bin/bash
# tools/eval_wave.sh <Cxx> <suffix> <check> [<check>...] : evaluates /tmp/wt/<Cxx>/seed_out/change_{1,2,3} as seeds <Cxx>-<suffix>{1,2,3}
P=$1; S=$2; shift 2
for i in 1 2 3; do
  [ -f /tmp/wt/$P/seed_out/change_$i.diff ] || continue
  /verif/tools/try_seed.sh /tmp/wt/$P $i $P-$S$i $P "$@" 2>&1 | grep -E "^(seed |NOT CONFIRMED|RESULT|diff does not|does not)"
done
