#!/bin/bash
# tools/recheck_seed.sh <seed-id> <check> [<check>...] : re-runs checks against a filed seed (private copy of /repo's
# package with seeded/<id>/patch.diff applied; /repo is not touched) and records the results in its meta.json
SID=$1; shift
D=$(mktemp -d /tmp/reseed.XXXXXX)
cp -r /repo/armulator $D/ && (cd $D && patch -p1 -s < /verif/seeded/$SID/patch.diff) || { echo "patch failed"; rm -rf $D; exit 2; }
results=""
for c in "$@"; do
  out=$(cd /verif && ARMMC_REPO=$D ARMMC_OUT=$D/out ./check $c 2>&1); rc=$?
  nv=$(echo "$out" | grep -c "^VIOLATION")
  results="$results $c:rc=$rc:violations=$nv"
done
rm -rf $D
echo "RECHECK $SID:$results"
python3 - "$SID" "$results" <<'PY'
import json, sys
sid, results = sys.argv[1], sys.argv[2].split()
p = "/verif/seeded/%s/meta.json" % sid
m = json.load(open(p))
old = {r.split(":")[0]: r for r in m["checks_run"]}
m.setdefault("checks_run_first", m["checks_run"])
for r in results:
    old[r.split(":")[0]] = r
m["checks_run"] = [old[k] for k in sorted(old)]
json.dump(m, open(p, "w"), indent=1)
PY
