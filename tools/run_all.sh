#!/bin/bash
# tools/run_all.sh [tier] : runs every claimed check once (or those in $CHECKS), prints one summary line each
cd "$(dirname "$0")/.."
TIER=${1:-quick}
ALL="C01 C02 C03 C04 C05 C06 C07 C08 C09 C10 C11 C12 C13 C14 C15 C16 C17 C18 C19 C20"
for c in ${CHECKS:-$ALL}; do
  out=$(./check $c --tier $TIER 2>&1); rc=$?
  echo "rc=$rc $(echo "$out" | grep "^$c " | tail -1)"
done
