#!/bin/bash
# tools/try_refactor.sh <diff> <name> : builds a scratch copy of /repo/armulator with the diff applied under
# /tmp/rfcopy/<name> and runs every quick check against it (ARMMC_REPO); prints one line per check.
set -u
DIFF=$1; NAME=$2
D=/tmp/rfcopy/$NAME
rm -rf "$D"; mkdir -p "$D"
cp -r /repo/armulator "$D/"
(cd "$D" && patch -p1 -s < "$DIFF") || { echo "patch failed"; exit 2; }
cd /verif && ARMMC_REPO=$D ARMMC_OUT=/tmp/rfcopy/out-$NAME tools/run_all.sh quick
rm -rf /tmp/rfcopy/out-$NAME
rm -rf "$D"
