#!/bin/bash
# tools/try_seed.sh <worktree> <i> <seed-id> <property> <check> [<check>...]
# Confirms a sub-agent's change (tests pass with it, demo fails with it / passes without), runs the given checks
# against it in /repo (apply, run, revert) and files it under /verif/seeded/<seed-id>/.
set -u
WT=$1; I=$2; SID=$3; PROP=$4; shift 4
D=$WT/seed_out
cd "$WT" || exit 2
git checkout -q -- . 2>/dev/null
/venv/bin/python seed_out/demo_$I.py >/dev/null 2>&1; base=$?
git apply "$D/change_$I.diff" || { echo "diff does not apply"; exit 2; }
tests=$(/venv/bin/python -m pytest -q -p no:cacheprovider -x 2>&1 | tail -1)
/venv/bin/python seed_out/demo_$I.py >/tmp/seed_demo_out.txt 2>&1; withc=$?
git checkout -q -- .
echo "seed $SID: demo unchanged=$base changed=$withc tests: $tests"
if [ $base -ne 0 ] || [ $withc -eq 0 ] || ! echo "$tests" | grep -q "686 passed"; then echo "NOT CONFIRMED"; fi
OUT=/verif/seeded/$SID
mkdir -p "$OUT"
cp "$D/change_$I.diff" "$OUT/patch.diff"; cp "$D/demo_$I.py" "$OUT/demo.py"; cp "$D/note_$I.txt" "$OUT/note.txt"
# the checks run against the worktree with the change applied (ARMMC_REPO), so that /repo stays untouched and
# background runs against /repo are not disturbed
cd "$WT" && git apply "$OUT/patch.diff" || { echo "does not apply"; exit 2; }
results=""
for c in "$@"; do
  out=$(cd /verif && ARMMC_REPO="$WT" ARMMC_OUT=/tmp/seed_out_scratch ./check $c 2>&1); rc=$?
  nv=$(echo "$out" | grep -c "^VIOLATION")
  results="$results $c:rc=$rc:violations=$nv"
  echo "$out" | grep -A2 "^VIOLATION" | head -6
done
git -C "$WT" checkout -q -- .
rm -rf /tmp/seed_out_scratch
echo "RESULT $SID:$results"
python3 - "$OUT" "$SID" "$PROP" "$base" "$withc" "$tests" "$results" <<'EOF'
import json, sys
out, sid, prop, base, withc, tests, results = sys.argv[1:8]
note = open(out + "/note.txt").read()
json.dump({"seed": sid, "breaks_property": prop, "needs_to_manifest": note.strip(),
           "confirmed": {"demo_exit_unchanged": int(base), "demo_exit_with_change": int(withc), "tests_with_change": tests},
           "checks_run": results.split(), "origin": "independent sub-agent given only the property text and a scratch worktree"},
          open(out + "/meta.json", "w"), indent=1)
EOF
