#!/usr/bin/env python3
"""Writes seeded/RESULTS.md from seeded/*/meta.json (+ STRENGTHENED.json)."""
import glob, json, os
V = os.path.dirname(os.path.dirname(os.path.abspath(__file__)))
st = json.load(open(os.path.join(V, "seeded", "STRENGTHENED.json")))
rows = []
for d in sorted(glob.glob(os.path.join(V, "seeded", "C*-*"))):
    m = json.load(open(os.path.join(d, "meta.json")))
    sid = m["seed"]
    runs = m["checks_run"]
    caught = [r.split(":")[0] for r in runs if ":rc=1:" in r]
    silent = [r.split(":")[0] for r in runs if ":rc=0:" in r]
    first = m["needs_to_manifest"].strip().splitlines()[0][:150]
    rows.append("| %s | %s | %s | %s | %s |" % (sid, m["breaks_property"], first.replace("|", "/"), ", ".join(caught) or "-",
                                                 st.get(sid, "")))
with open(os.path.join(V, "seeded", "RESULTS.md"), "w") as f:
    f.write("# Seeded property-breaking changes\n\nEach change was produced by a fresh sub-agent that saw only the property text "
            "and a scratch worktree; confirmed here (686 tests pass with it, its demo fails with it and passes without), "
            "run against the checks and undone (tools/try_seed.sh: earlier waves by `git -C /repo apply` + `checkout`, later waves through `ARMMC_REPO=<worktree>` so that /repo stays untouched).  `caught by` lists the checks (among those run against it) "
            "that exit 1 with a VIOLATION line on every run.\n\n| seed | property | change (first line of the author's note) | caught by | "
            "history |\n|---|---|---|---|---|\n" + "\n".join(rows) + "\n")
print(len(rows), "seeds")
